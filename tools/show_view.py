#!/venv/bin/python
"""show_view.py <refactoring-name|patch> <qualname>...  -- print the inlined view of functions on the patched scratch copy"""
import os, shutil, subprocess, sys, tempfile, ast
sys.path.insert(0, '/verif')
p = sys.argv[1]
if not p.endswith('.diff'):
    p = f'/verif/refactorings/{p}/patch.diff'
t = tempfile.mkdtemp(prefix='view.')
shutil.copytree('/repo/codelimit', t + '/codelimit')
subprocess.run(f'cd {t} && patch -p1 -s < {p}', shell=True, check=True)
from sa import core
core.REPO = core.Path(t)
prj = core.Project(core.Path(t))
for q in sys.argv[2:]:
    fi = prj.func(q)
    print('#', q, 'inlined:', getattr(fi, 'inlined_from', []))
    print(ast.unparse(fi.node))
shutil.rmtree(t)
