#!/bin/sh
# usage: try_seed.sh <patch.diff> <PROP> [more props]  -- applies the patch to a scratch copy of /repo/codelimit and runs the check(s)
P=$1; shift
T=$(mktemp -d /tmp/seedtry.XXXXXX)
cp -r /repo/codelimit $T/codelimit
( cd $T && patch -p1 -s < $P ) || { echo "PATCH FAILED"; rm -rf $T; exit 3; }
for prop in "$@"; do
  VERIF_EVIDENCE_DIR=$T/ev VERIF_QUIET=1 /venv/bin/python /verif/sa/check.py $prop --repo $T 2>&1 | grep -v condarc | grep -v "^OK " | tail -6
done
rm -rf $T
