#!/bin/sh
# run every available behaviour-preserving refactoring against all checks; summary per patch
for p in /verif/refactorings/*/patch.diff; do
  [ -f "$p" ] || continue
  out=$(/verif/tools/try_ref.sh $p 2>&1 | grep -v condarc)
  fa=$(echo "$out" | grep -c "FALSE-ALARM")
  e2=$(echo "$out" | grep -c "EXIT2")
  echo "$p FA=$fa E2=$e2 $(echo "$out" | grep -E 'FALSE-ALARM|EXIT2' | tr '\n' ' ')"
done
