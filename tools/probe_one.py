#!/venv/bin/python
"""probe_one.py <PROP> [name-filter]: run one check over every refactoring of the corpus (parallel); print FA / exit-2 with first lines"""
import concurrent.futures as cf, glob, os, shutil, subprocess, sys, tempfile
prop = sys.argv[1]
flt = sys.argv[2] if len(sys.argv) > 2 else ''
def run(p):
    name = p.split('/')[-2]
    t = tempfile.mkdtemp(prefix='probe.')
    try:
        shutil.copytree('/repo/codelimit', t + '/codelimit')
        r = subprocess.run(f'cd {t} && patch -p1 -s < {p}', shell=True, capture_output=True)
        if r.returncode: return name, 'PATCHFAIL', ''
        env = dict(os.environ, VERIF_EVIDENCE_DIR=t + '/ev', VERIF_QUIET='1', VERIF_JOBS='1')
        r = subprocess.run(['/venv/bin/python', os.environ.get('VERIF_SA', '/verif/sa') + '/check.py', prop, '--repo', t], capture_output=True, text=True, env=env)
        out = '\n'.join(l for l in (r.stdout + r.stderr).splitlines() if 'condarc' not in l and not l.startswith('OK '))
        kind = 'FA' if 'VIOLATION' in out else 'E2' if ('ANALYSIS-ERROR' in out or r.returncode != 0) else 'ok'
        lines = [l for l in out.splitlines() if 'rule=' in l or 'ANALYSIS-ERROR' in l or 'Traceback' in l or 'Error' in l]
        return name, kind, '\n      '.join(x[:300] for x in lines[:4])
    finally:
        shutil.rmtree(t, ignore_errors=True)
ps = sorted(p for p in glob.glob('/verif/refactorings/*/patch.diff') if flt in p)
with cf.ThreadPoolExecutor(16) as ex:
    res = list(ex.map(run, ps))
fa = e2 = 0
for name, kind, detail in res:
    if kind != 'ok':
        print(f'{kind} {name}\n      {detail}')
    fa += kind == 'FA'; e2 += kind == 'E2'
print(f'[{prop}] {len(res)} refactorings: FA={fa} E2={e2}')
