#!/venv/bin/python
"""refresh_meta.py [filter]: recompute meta.json `detected_by` of every kept seeded breakage by running all 19 checks on a
scratch copy of /repo/codelimit with the seed's patch applied (scratch copies under the system temp dir, removed at once).
Prints the seeds no check reports, and checks that answer a seed with an analysis error instead of a verdict."""
import concurrent.futures as cf, glob, json, os, shutil, subprocess, sys, tempfile
flt = sys.argv[1] if len(sys.argv) > 1 else ''
PROPS = [f'C{i:02d}' for i in range(1, 20)]
def prep(d):
    t = tempfile.mkdtemp(prefix='seedmeta.')
    shutil.copytree('/repo/codelimit', t + '/codelimit')
    r = subprocess.run(f'cd {t} && patch -p1 -s < {d}/patch.diff', shell=True, capture_output=True)
    return t if r.returncode == 0 else None
def one(job):
    d, t, p = job
    env = dict(os.environ, VERIF_EVIDENCE_DIR=f'{t}/ev-{p}', VERIF_QUIET='1', VERIF_JOBS='1')
    r = subprocess.run(['/venv/bin/python', '/verif/sa/check.py', p, '--repo', t], capture_output=True, text=True, env=env)
    out = [l for l in (r.stdout + r.stderr).splitlines() if 'condarc' not in l]
    det = any(l.startswith('VIOLATION') for l in out)
    lines = [l[:400] for l in out if 'rule=' in l and not l.startswith('OK ')][:6] if det else [l[:300] for l in out if 'ANALYSIS-ERROR' in l][:2]
    return d, p, det, lines, r.returncode
ds = sorted(d for d in glob.glob('/verif/seeded/*') if flt in d and os.path.exists(d + '/meta.json'))
tmp = {}
try:
    for d in ds:
        tmp[d] = prep(d)
        if tmp[d] is None:
            print('PATCHFAIL', d)
    jobs = [(d, tmp[d], p) for d in ds if tmp[d] for p in PROPS]
    with cf.ThreadPoolExecutor(16) as ex:
        res = list(ex.map(one, jobs))
finally:
    for t in tmp.values():
        if t:
            shutil.rmtree(t, ignore_errors=True)
by = {}
for d, p, det, lines, rc in res:
    by.setdefault(d, {})[p] = dict(detected=det, lines=lines, **({'exit': rc} if rc not in (0, 1) else {}))
und = 0
for d in ds:
    if d not in by:
        continue
    meta = json.load(open(d + '/meta.json'))
    own = meta.get('property', os.path.basename(d).split('-')[0])
    meta['detected_by'] = {own: by[d][own], **{p: v for p, v in by[d].items() if p != own}}
    json.dump(meta, open(d + '/meta.json', 'w'), indent=1)
    hits = [p for p, v in by[d].items() if v['detected']]
    e2 = [p for p, v in by[d].items() if v.get('exit')]
    name = os.path.basename(d)
    if not hits:
        und += 1
        print('UNDETECTED', name, 'E2 in', e2)
    elif own not in hits:
        print('not by own property', name, hits, 'E2 in', e2)
    elif e2:
        print('detected', name, 'but E2 in', e2)
print(f'{len(ds)} seeds, {und} undetected')
