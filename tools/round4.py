#!/venv/bin/python
"""round4.py [PROP...]: evaluate the round-4 agent outputs under /tmp/wt/<PROP>.r4: every refactoring (ref*) against all 19
checks (must stay silent), every bug (bug*) against all checks (some check, ideally the property's own, must fire)"""
import concurrent.futures as cf, glob, os, shutil, subprocess, sys, tempfile
PROPS = [f"C{i:02d}" for i in range(1, 20)]
want = sys.argv[1:] or PROPS
def run(job):
    patch, prop = job
    t = tempfile.mkdtemp(prefix='r2.')
    try:
        shutil.copytree('/repo/codelimit', t + '/codelimit')
        r = subprocess.run(f'cd {t} && patch -p1 -s < {patch}', shell=True, capture_output=True)
        if r.returncode:
            return patch, prop, 'PATCHFAIL', ''
        env = dict(os.environ, VERIF_EVIDENCE_DIR=t + '/ev', VERIF_QUIET='1', VERIF_JOBS='1')
        r = subprocess.run(['/venv/bin/python', os.environ.get('VERIF_SA', '/verif/sa') + '/check.py', prop, '--repo', t], capture_output=True, text=True, env=env)
        out = r.stdout + r.stderr
        kind = 'V' if 'VIOLATION' in out else 'E2' if ('ANALYSIS-ERROR' in out or r.returncode != 0) else 'ok'
        lines = [l for l in out.splitlines() if 'rule=' in l and not l.startswith('OK') or 'ANALYSIS-ERROR' in l]
        return patch, prop, kind, ' | '.join(x[:260] for x in lines[:2])
    finally:
        shutil.rmtree(t, ignore_errors=True)
jobs = []
for p in want:
    for d in sorted(glob.glob(f'/tmp/wt/{p}.r4/ref*')) + sorted(glob.glob(f'/tmp/wt/{p}.r4/bug*')):
        if os.path.exists(d + '/patch.diff') and os.path.getsize(d + '/patch.diff') > 0:
            for q in PROPS:
                jobs.append((d + '/patch.diff', q))
with cf.ThreadPoolExecutor(16) as ex:
    res = list(ex.map(run, jobs))
by = {}
for patch, prop, kind, detail in res:
    by.setdefault(patch, []).append((prop, kind, detail))
fa = e2 = und = 0
for patch in sorted(by):
    name = '/'.join(patch.split('/')[3:5])
    own = patch.split('/')[3][:3]
    rows = by[patch]
    if '/ref' in patch:
        bad = [(p, k, d) for p, k, d in rows if k != 'ok']
        fa += sum(k == 'V' for _, k, _ in bad); e2 += sum(k != 'V' for _, k, _ in bad)
        print(f'REF {name}: ' + ('silent' if not bad else ''))
        for p, k, d in bad:
            print(f'     {"FALSE-ALARM" if k == "V" else k} {p}: {d}')
    else:
        hit = [p for p, k, _ in rows if k == 'V']
        e = [p for p, k, _ in rows if k == 'E2']
        status = 'detected by ' + ','.join(hit) if hit else ('only E2 by ' + ','.join(e) if e else 'UNDETECTED')
        if not hit: und += 1
        print(f'BUG {name}: {status}' + ('' if own in hit else f'   (own check {own}: {dict((p, k) for p, k, _ in rows)[own]})'))
print(f'refactorings: FA={fa} E2={e2}; bugs undetected={und}')
