#!/bin/sh
# usage: try_ref.sh <patch.diff>  -- applies a behaviour-preserving refactoring to a scratch copy and runs ALL checks; every exit must be 0
P=$1
T=$(mktemp -d /tmp/reftry.XXXXXX)
cp -r /repo/codelimit $T/codelimit
( cd $T && patch -p1 -s < $P ) || { echo "PATCH FAILED"; rm -rf $T; exit 3; }
for n in 01 02 03 04 05 06 07 08 09 10 11 12 13 14 15 16 17 18 19; do
  out=$(VERIF_EVIDENCE_DIR=$T/ev VERIF_QUIET=1 /venv/bin/python /verif/sa/check.py C$n --repo $T 2>&1 | grep -v condarc)
  rc=$?
  case "$out" in
    *VIOLATION*) echo "C$n FALSE-ALARM"; echo "$out" | grep -v "^OK " | grep "rule=" | head -3 | cut -c1-330;;
    *ANALYSIS-ERROR*) echo "C$n EXIT2"; echo "$out" | grep ANALYSIS | head -2 | cut -c1-330;;
  esac
done
rm -rf $T
