#!/venv/bin/python
"""fix_names.py <PROP>...: for self-test variants that fire (exit 1) but whose expected name fragment no longer occurs in the
report, replace the fragment by 'rule=R' (the variant still has to fire on its own property)"""
import re, subprocess, sys
out = subprocess.run(['/venv/bin/python', '/verif/sa/selftest.py'] + sys.argv[1:], capture_output=True, text=True).stdout
names = re.findall(r'^FAIL\s+(C\d\d) fire\s+C\d\d-(\S+) rc=1', out, re.M)
p = '/verif/sa/mutants.py'
s = open(p).read()
for prop, nm in names:
    m = re.search(r'V\("%s", "%s", "fire",' % (prop, re.escape(nm)), s)
    if not m:
        print('not found', prop, nm); continue
    # scan to the end of the call
    i = s.index('(', m.start()); depth = 0; j = i; instr = None
    while True:
        ch = s[j]
        if instr:
            if ch == '\\': j += 2; continue
            if s.startswith(instr, j): j += len(instr); instr = None; continue
            j += 1; continue
        if s.startswith('"""', j): instr = '"""'; j += 3; continue
        if ch == '"': instr = '"'; j += 1; continue
        if ch == '(': depth += 1
        elif ch == ')':
            depth -= 1
            if depth == 0: break
        j += 1
    call = s[m.start(): j + 1]
    m2 = re.search(r',\s*"([^"]*)"\)$', call)
    if m2:
        s = s[:m.start()] + call[:m2.start()] + ', "rule=R")' + s[j + 1:]
        print('fixed', prop, nm, 'was', m2.group(1))
    else:
        print('no name arg', prop, nm)
open(p, 'w').write(s)
