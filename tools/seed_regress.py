#!/venv/bin/python
"""seed_regress.py [filter]: every kept seeded breakage must still be reported (VIOLATION) by the checks that reported it
when it was kept (meta.json detected_by); prints lost detections and seeds no check reports any more"""
import concurrent.futures as cf, glob, json, os, shutil, subprocess, sys, tempfile
flt = sys.argv[1] if len(sys.argv) > 1 else ''
def run(d):
    name = os.path.basename(d)
    meta = json.load(open(d + '/meta.json'))
    props = [p for p, v in meta.get('detected_by', {}).items() if v.get('detected')]
    t = tempfile.mkdtemp(prefix='seedreg.')
    res = {}
    try:
        shutil.copytree('/repo/codelimit', t + '/codelimit')
        r = subprocess.run(f'cd {t} && patch -p1 -s < {d}/patch.diff', shell=True, capture_output=True)
        if r.returncode:
            return name, props, {'PATCHFAIL': 'x'}
        for p in props:
            env = dict(os.environ, VERIF_EVIDENCE_DIR=t + '/ev', VERIF_QUIET='1', VERIF_JOBS='1')
            r = subprocess.run(['/venv/bin/python', '/verif/sa/check.py', p, '--repo', t], capture_output=True, text=True, env=env)
            out = r.stdout + r.stderr
            res[p] = 'V' if 'VIOLATION' in out else 'E2' if 'ANALYSIS-ERROR' in out else 'silent'
        return name, props, res
    finally:
        shutil.rmtree(t, ignore_errors=True)
ds = sorted(d for d in glob.glob('/verif/seeded/*') if flt in d and os.path.exists(d + '/meta.json'))
with cf.ThreadPoolExecutor(16) as ex:
    out = list(ex.map(run, ds))
bad = 0
for name, props, res in out:
    own = name.split('-')[0]
    lost = [f'{p}:{v}' for p, v in res.items() if v != 'V']
    if not any(v == 'V' for v in res.values()):
        print('UNDETECTED', name, res); bad += 1
    elif lost:
        print('lost', name, lost, '(own property still fires)' if res.get(own) == 'V' else '(OWN PROPERTY LOST)' if own in res else '')
print(f'{len(out)} seeds, {bad} undetected')
