#!/venv/bin/python
"""keep_seed.py <PROP> <agent-out-dir>/<k> <seed-name> <worktree>
Confirms a sub-agent's seeded change in a scratch worktree (tests pass with it, demo fails with it and passes
without it), runs the property's check against it, and files it under /verif/seeded/<seed-name>/."""
import json, os, shutil, subprocess, sys
from pathlib import Path

prop, src, name, wt = sys.argv[1], Path(sys.argv[2]), sys.argv[3], Path(sys.argv[4])
extra_props = sys.argv[5:]
PY = "/venv/bin/python"
def sh(cmd, cwd=None, env=None):
    r = subprocess.run(cmd, shell=True, cwd=cwd, capture_output=True, text=True, env=env)
    return r.returncode, (r.stdout + r.stderr)
def clean():
    sh(f"git -C {wt} checkout -- . && git -C {wt} clean -fdq")
clean()
patch = src / "patch.diff"
demo = src / "demo.py"
rc, out = sh(f"git -C {wt} apply {patch}")
if rc: print("patch does not apply:", out); sys.exit(1)
rc_t, out_t = sh(f"{PY} -m pytest -q -p no:cacheprovider -x 2>&1 | tail -2", cwd=wt)
tests_ok = "157 passed" in out_t
ENV = dict(os.environ, PYTHONPATH=str(wt))
rc_with, out_with = sh(f"{PY} {demo}", cwd=wt, env=ENV)
clean()
rc_without, out_without = sh(f"{PY} {demo}", cwd=wt, env=ENV)
# run the checks on a scratch copy with the patch
checks = {}
import concurrent.futures as _cf
def _one(p):
    rc_c, out_c = sh(f"VERIF_JOBS=1 /verif/tools/try_seed.sh {patch} {p}")
    viol = [l for l in out_c.splitlines() if l.startswith("VIOLATION") or "ANALYSIS-ERROR" in l]
    return p, dict(detected=any(l.startswith("VIOLATION") for l in viol), lines=[l for l in out_c.splitlines() if "rule=" in l or "ANALYSIS" in l][:4])
with _cf.ThreadPoolExecutor(10) as _ex:
    for p, c in _ex.map(_one, [prop] + extra_props):
        checks[p] = c
ok = tests_ok and rc_with != 0 and rc_without == 0
print(f"{name}: tests_pass_with_change={tests_ok} demo_with={rc_with} demo_without={rc_without} confirmed={ok}")
for p, c in checks.items():
    print(f"   check {p}: detected={c['detected']} {c['lines'][:2]}")
if not ok:
    print(out_t[-300:], out_with[-500:], out_without[-500:])
    sys.exit(2)
dst = Path("/verif/seeded") / name
dst.mkdir(parents=True, exist_ok=True)
shutil.copy(patch, dst / "patch.diff")
shutil.copy(demo, dst / "demo.py")
notes = (src / "notes.md").read_text() if (src / "notes.md").exists() else ""
(dst / "notes.md").write_text(notes)
meta = dict(property=prop, name=name, source="independent sub-agent given only the property text and a scratch worktree",
            needs_to_manifest=notes.strip().splitlines()[:8],
            confirmed=dict(tests_with_change="157 passed" if tests_ok else out_t[-200:], demo_exit_with_change=rc_with,
                           demo_exit_clean_tree=rc_without,
                           commands=[f"git -C <worktree> apply patch.diff", f"cd <worktree> && {PY} -m pytest -q -p no:cacheprovider -x",
                                     f"cd <worktree> && {PY} demo.py  (with and without the change)",
                                     f"/verif/tools/try_seed.sh patch.diff {prop}"]),
            detected_by={p: c for p, c in checks.items()})
(dst / "meta.json").write_text(json.dumps(meta, indent=1))
