#!/bin/sh
# confirm every sub-agent seed found under /tmp/wt/<ID>.out/<k> and file it under /verif/seeded/
ALL="C01 C02 C03 C04 C05 C06 C07 C08 C09 C10 C11 C12 C13 C14 C15 C16 C17 C18 C19"
for id in ${1:-$ALL}; do
  for k in 1 2 3; do
    d=/tmp/wt/$id.out/$k
    [ -f $d/patch.diff ] || continue
    others=""
    for p in $ALL; do [ "$p" != "$id" ] && [ -f /verif/sa/props/$(echo $p | tr A-Z a-z).py ] && others="$others $p"; done
    /venv/bin/python /verif/tools/keep_seed.py $id $d $id-s$k /tmp/wt/$id $others 2>&1 | grep -v condarc | grep -E "confirmed=|detected=True" | cut -c1-260
  done
done
