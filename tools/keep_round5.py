#!/venv/bin/python
"""keep_round4.py <PROP>...: confirm and file the round-5 agent outputs of /tmp/wt/<PROP>.r5:
   refK -> /verif/refactorings/<PROP>-r<12+K>  (patch applies, suite passes, equiv.py exits 0 with and without the patch)
   bugK -> /verif/seeded/<PROP>-s<9+K>        (through keep_seed.py)"""
import os, shutil, subprocess, sys
from pathlib import Path
PY = "/venv/bin/python"
ALL = [f"C{i:02d}" for i in range(1, 20)]
def sh(cmd, cwd=None, env=None):
    r = subprocess.run(cmd, shell=True, cwd=cwd, capture_output=True, text=True, env=env)
    return r.returncode, r.stdout + r.stderr
for prop in sys.argv[1:]:
    wt = Path(f"/tmp/wt/{prop}")
    base = Path(f"/tmp/wt/{prop}.r5")
    def clean():
        sh(f"git -C {wt} checkout -- . && git -C {wt} clean -fdq")
    for k in (1, 2):
        src = base / f"ref{k}"
        if not (src / "patch.diff").exists():
            continue
        name = f"{prop}-r{12 + k}"
        clean()
        env = dict(os.environ, PYTHONPATH=str(wt))
        rc0, o0 = sh(f"{PY} {src}/equiv.py", cwd=wt, env=env) if (src / "equiv.py").exists() else (0, "")
        rc, out = sh(f"git -C {wt} apply {src}/patch.diff")
        if rc:
            print(name, "PATCH DOES NOT APPLY", out[:200]); continue
        rct, ot = sh(f"{PY} -m pytest -q -p no:cacheprovider -x 2>&1 | tail -2", cwd=wt)
        rc1, o1 = sh(f"{PY} {src}/equiv.py", cwd=wt, env=env) if (src / "equiv.py").exists() else (0, "")
        clean()
        ok = "157 passed" in ot and rc0 == 0 and rc1 == 0
        print(f"{name}: tests={'157 passed' in ot} equiv_clean={rc0} equiv_patched={rc1} confirmed={ok}")
        if not ok:
            print("   ", ot[-200:], o1[-300:]); continue
        dst = Path("/verif/refactorings") / name
        dst.mkdir(parents=True, exist_ok=True)
        shutil.copy(src / "patch.diff", dst / "patch.diff")
        if (src / "notes.md").exists():
            shutil.copy(src / "notes.md", dst / "notes.md")
        eq = src / "equiv.py"
        if eq.exists() and eq.stat().st_size < 150_000:
            shutil.copy(eq, dst / "equiv.py")
        elif eq.exists():
            (dst / "equiv.txt").write_text(f"the agent's equivalence script ({eq.stat().st_size} bytes, expected outputs embedded) passed on the clean and on the patched tree; not kept for its size\n")
    for k in (1, 2):
        src = base / f"bug{k}"
        if not (src / "patch.diff").exists():
            continue
        others = [p for p in ALL if p != prop]
        rc, out = sh(f"{PY} /verif/tools/keep_seed.py {prop} {src} {prop}-s{9 + k} {wt} {' '.join(others)}")
        for l in out.splitlines():
            if "confirmed=" in l or "detected=True" in l:
                print(l[:230])
    clean()
