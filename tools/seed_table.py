#!/venv/bin/python
"""Prints the detection matrix of /verif/seeded/*/meta.json as markdown."""
import json, glob, os
rows = []
for d in sorted(glob.glob('/verif/seeded/*/meta.json')):
    m = json.load(open(d))
    det = [p for p, c in m['detected_by'].items() if c['detected']]
    err = [p for p, c in m['detected_by'].items() if any('ANALYSIS-ERROR' in l for l in c['lines'])]
    first = ''
    own = m['detected_by'].get(m['property'], {})
    for p in [m['property']] + det:
        c = m['detected_by'].get(p, {})
        if c.get('detected'):
            l = c['lines'][0]
            if 'rule=' in l:
                first = p + '-' + l.split('rule=')[1].split()[0] + ' ' + l.split('instance=')[1].split('  ')[0][:60]
            break
    note = (m['needs_to_manifest'][0] if m['needs_to_manifest'] else '')[:110].replace('|', '/')
    rows.append((m['name'], m['property'], ', '.join(det) or '-', first or ('(exit 2 in ' + ','.join(err) + ')' if err else 'MISSED'), note))
print('| seed | property | detected by | first report | what it changes |')
print('|---|---|---|---|---|')
for r in rows:
    print('| ' + ' | '.join(r) + ' |')
miss = [r for r in rows if r[2] == '-']
print(f'\n{len(rows)} seeded changes, {len(rows) - len(miss)} detected by at least one check, {len(miss)} missed: ' + ', '.join(r[0] for r in miss))
