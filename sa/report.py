"""Verdict protocol: instances, floors, violations, known findings, evidence."""
from __future__ import annotations

import json
import os
import re
import sys
import time
from pathlib import Path

from .core import AnalysisError

VERIF = Path(__file__).resolve().parent.parent
EVIDENCE_DIR = Path(os.environ.get("VERIF_EVIDENCE_DIR", VERIF / "evidence"))
KNOWN_FILE = VERIF / "known_findings.json"


def load_known() -> list[dict]:
    if not KNOWN_FILE.exists():
        return []
    data = json.loads(KNOWN_FILE.read_text())
    return [e for e in data.get("findings", []) if e.get("status") == "known"]


class Violation:
    def __init__(self, rule, key, site, message, detail=None):
        self.rule, self.key, self.site, self.message, self.detail = rule, key, site, message, detail or {}

    def ident(self):
        return f"{self.rule}/{self.key}"


class Ctx:
    """Collects what one property check analysed and found."""

    def __init__(self, prop: str, tier: str, level: str = "other"):
        self.prop = prop
        self.tier = tier
        self.level = level
        self.t0 = time.time()
        self.instances: dict[str, list[dict]] = {}
        self.rules: dict[str, str] = {}
        self.floors: dict[str, int] = {}
        self.violations: list[Violation] = []
        self.infos: list[str] = []
        self.samples: list = []
        self.assumptions: list[str] = []
        self.trusted: list[str] = []
        self.obligations = 0
        self.discharged = 0
        self.extra: dict = {}
        self.explanation = ""
        self.not_decided: list[str] = []
        self.lines: list[str] = []
        self.exhaustive = None
        self.quiet = bool(os.environ.get("VERIF_QUIET"))

    # ------------------------------------------------------------ recording
    def rule(self, rid: str, text: str, floor: int = 0):
        self.rules[rid] = text
        self.instances.setdefault(rid, [])
        if floor:
            self.floors[rid] = floor
        else:
            self.floors.pop(rid, None)     # re-declared without floor: the rule was replaced by another one

    def ok(self, rid: str, site: str, what: str, **detail):
        self.instances.setdefault(rid, []).append(dict(site=site, what=what, verdict="ok", **detail))
        self.obligations += 1
        self.discharged += 1
        self.lines.append(f"OK rule={rid} site={site} construct={what}")

    def viol(self, rid: str, key: str, site: str, message: str, **detail):
        if any(v.rule == rid and v.key == key for v in self.violations):
            self.bad_instance(rid, site, key)    # same construct again: one report, but it is an instance
            return
        self.instances.setdefault(rid, []).append(dict(site=site, what=key, verdict="violation", message=message, **detail))
        self.obligations += 1
        self.violations.append(Violation(rid, key, site, message, detail))

    def bad_instance(self, rid: str, site: str, what: str):
        """An instance that failed and is reported through an aggregated viol()."""
        self.instances.setdefault(rid, []).append(dict(site=site, what=what, verdict="violation"))
        self.obligations += 1

    def info(self, msg: str):
        self.infos.append(msg)
        self.lines.append(f"INFO {msg}")

    def sample(self, s):
        if len(self.samples) < 12:
            self.samples.append(s)

    def assume(self, *a):
        for x in a:
            if x not in self.assumptions:
                self.assumptions.append(x)

    def trust(self, *a):
        for x in a:
            if x not in self.trusted:
                self.trusted.append(x)

    def complement(self, rid: str, fn, decided: bool, demote: bool = False, by: str = "the evaluated rule"):
        """Run a structural rule `fn` as a complement of an evaluated rule that speaks about the same behaviour.
        decided=False: the structural rule decides (errors and findings count).  decided=True (the evaluated rule ran on all
        its scenarios and passed): a form the structural rule cannot read is informational, and with demote=True its findings
        are too (the rule is a proxy that met an unfamiliar but correct form)."""
        if not decided:
            try:
                return fn()
            except AnalysisError as e:
                if not self.violations:
                    raise
                # the run already reports a violation found by another rule: a form this rule cannot read does not turn the
                # verdict into "no verdict"
                self.info(f"{rid}: not applicable to this form of the code ({str(e)[:200]}); the violation(s) reported by other rules stand")
                self.floors.pop(rid, None)
                return None
        mark = len(self.violations)
        marks = {r: len(l) for r, l in self.instances.items()}
        try:
            fn()
        except AnalysisError as e:
            self.info(f"{rid}: not applicable to this form of the code ({str(e)[:200]}); {by} decides")
            self.floors.pop(rid, None)
            self.rules.setdefault(rid, f"structural complement of {by}")
            for r, l in self.instances.items():
                if r == rid:
                    del l[marks.get(r, 0):]
            del self.violations[mark:]
            return None
        new = self.violations[mark:]
        if demote and new:
            for v in new:
                self.info(f"{v.rule} (structural) would report {v.key} at {v.site}; contradicted by {by}, which passed on all its scenarios")
                for inst in self.instances.get(v.rule, []):
                    if inst.get("what") == v.key and inst.get("verdict") == "violation":
                        inst["verdict"] = f"not reported (decided by {by})"
                self.floors.pop(v.rule, None)
            del self.violations[mark:]
        # a complement that recognised fewer instances than its floor is not an error when the evaluated rule decided
        if rid in self.floors and self.count(rid) < self.floors[rid]:
            self.info(f"{rid}: {self.count(rid)} instance(s) recognised in this form of the code (floor {self.floors[rid]}); {by} decides")
            self.floors.pop(rid, None)
        return None

    def count(self, rid: str) -> int:
        return len(self.instances.get(rid, []))

    # -------------------------------------------------------------- finish
    def check_floors(self):
        for rid, n in self.floors.items():
            got = self.count(rid)
            if got < n:
                raise AnalysisError(
                    f"rule {rid} matched {got} instance(s), fewer than the {n} confirmed by reading "
                    f"the code: the rule would pass vacuously (anchor moved or rewritten?)")

    def finish(self) -> int:
        known = [k for k in load_known() if k.get("property") == self.prop]
        new, old = [], []
        for v in self.violations:
            if any(k.get("rule") == v.rule and k.get("key") == v.key for k in known):
                old.append(v)
            else:
                new.append(v)
        if not new:
            # floors guard against a vacuous PASS; a run that reports a violation is not one
            self.check_floors()
        wall = round(time.time() - self.t0, 3)
        out = []
        if not self.quiet:
            out.extend(self.lines)
        for v in old:
            out.append(f"KNOWN-FINDING: property={self.prop} {v.rule} {v.key} at {v.site}: {v.message}")
        replay_dir = EVIDENCE_DIR / "replay"
        for v in new:
            replay_dir.mkdir(parents=True, exist_ok=True)
            fn = replay_dir / (re.sub(r"[^A-Za-z0-9_.-]+", "_", f"{self.prop}-{v.ident()}")[:150] + ".json")
            fn.write_text(json.dumps(dict(property=self.prop, rule=v.rule, rule_text=self.rules.get(v.rule, ""),
                                          key=v.key, site=v.site, message=v.message, detail=v.detail),
                                     indent=1, default=str))
            out.append(f"{v.site}  rule={v.rule}  instance={v.key}  {v.message}")
            out.append(f"VIOLATION property={self.prop} replay={fn}")
        self.write_evidence(wall, len(new), len(old))
        n_inst = sum(len(v) for v in self.instances.values())
        out.append(f"[{self.prop}] tier={self.tier} rules={len(self.rules)} instances={n_inst} "
                   f"violations={len(new)} known={len(old)} wall={wall}s")
        print("\n".join(out))
        return 1 if new else 0

    def write_evidence(self, wall, n_new, n_old):
        EVIDENCE_DIR.mkdir(parents=True, exist_ok=True)
        n_inst = sum(len(v) for v in self.instances.values())
        distinct = len({(r, i["site"], i["what"]) for r, l in self.instances.items() for i in l})
        cov = {
            "explanation": self.explanation,
            "decided_clauses": [f"{r}: {t}" for r, t in self.rules.items()],
            "not_decided": self.not_decided,
            "rule_instances": {r: len(l) for r, l in self.instances.items()},
            "floors": self.floors,
            "sites": {r: [f"{i['site']} {i['what']} [{i['verdict']}]" for i in l][:40] for r, l in self.instances.items()},
            "evaluations": max(n_inst, 1),
            "distinct_nontrivial": distinct,
            "rule": "one evaluation = one rule instance (a construct of /repo the rule was applied to); "
                    "distinct = distinct (rule, site, construct) triples; instances below the per-rule floor abort the run",
            "samples": self.samples or [f"{r}@{l[0]['site']}: {l[0]['what']}" for r, l in self.instances.items() if l][:8],
            "obligations": self.obligations,
            "discharged": self.discharged,
            "checker_cmd": f"/venv/bin/python /verif/sa/check.py {self.prop} --tier {self.tier}",
            "trusted_base": self.trusted,
            "known_findings_matched": n_old,
            "informational": self.infos[:40],
        }
        if self.exhaustive is not None:
            cov["exhaustive"] = self.exhaustive
        cov.update(self.extra)
        ev = {
            "property_id": self.prop,
            "tier": self.tier,
            "seed": int(os.environ.get("VERIF_SEED", "0") or 0),
            "level": self.level,
            "coverage": cov,
            "assumptions": self.assumptions,
            "wall_s": wall,
            "violations": n_new,
        }
        (EVIDENCE_DIR / f"{self.prop}.json").write_text(json.dumps(ev, indent=1, default=str) + "\n")


def fail_analysis(prop: str, tier: str, msg: str) -> int:
    """ANALYSIS-ERROR: exit 2.  Evidence is still (re)written so that a stale file
    from an earlier run is never mistaken for this run's result."""
    print(f"ANALYSIS-ERROR property={prop} {msg}")
    try:
        EVIDENCE_DIR.mkdir(parents=True, exist_ok=True)
        ev = {"property_id": prop, "tier": tier, "seed": 0, "level": "other",
              "coverage": {"explanation": f"analysis error, no verdict: {msg}", "evaluations": 1,
                           "distinct_nontrivial": 0},
              "wall_s": 0.0, "violations": 0, "analysis_error": msg}
        (EVIDENCE_DIR / f"{prop}.json").write_text(json.dumps(ev, indent=1) + "\n")
    except Exception:
        pass
    return 2
