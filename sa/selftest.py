#!/venv/bin/python
"""Checker self-test, both directions (DESIGN.md section 6).

Each variant is a one-construct edit applied to a scratch copy of
/repo/codelimit under a fresh temporary directory (outside /repo and /verif,
removed afterwards).  'fire' variants break a property while still parsing (and,
by construction, passing the repo's tests); the check of that property must
exit 1 and name the instance.  'silent' variants are behaviour-preserving
rewrites; the check must exit 0.  A miss or a false alarm here means the
*checker* is broken: ANALYSIS-ERROR (exit 2), never a VIOLATION.

usage: selftest.py [PROP ...] [--list] [--jobs N] [--only ID]
"""
from __future__ import annotations

import concurrent.futures as cf
import os
import shutil
import subprocess
import sys
import tempfile
from pathlib import Path

HERE = Path(__file__).resolve().parent
sys.path.insert(0, str(HERE.parent))

from sa.core import REPO, AnalysisError  # noqa: E402

PY = sys.executable


def load_variants():
    from sa import mutants
    return mutants.VARIANTS


def apply_edits(root: Path, edits) -> str | None:
    """edits: list of (relpath, old, new[, count]).  Returns None if applied,
    else a reason why the variant is not applicable to today's tree."""
    for e in edits:
        rel, old, new = e[0], e[1], e[2]
        cnt = e[3] if len(e) > 3 else 1
        p = root / rel
        if not p.exists():
            return f"{rel} missing"
        s = p.read_text()
        if s.count(old) != cnt:
            return f"{rel}: anchor text occurs {s.count(old)}x, expected {cnt}"
        p.write_text(s.replace(old, new))
    return None


def run_variant(v) -> dict:
    tmp = Path(tempfile.mkdtemp(prefix="sa-selftest-"))
    try:
        shutil.copytree(REPO / "codelimit", tmp / "codelimit",
                        ignore=shutil.ignore_patterns("__pycache__"))
        why = apply_edits(tmp, v["edits"])
        if why:
            return dict(id=v["id"], status="n/a", why=why)
        # the variant must still be Python
        for e in v["edits"]:
            try:
                import warnings
                with warnings.catch_warnings():
                    warnings.simplefilter("ignore")
                    compile((tmp / e[0]).read_text(), e[0], "exec")
            except SyntaxError as ex:
                return dict(id=v["id"], status="broken-variant", why=str(ex))
        env = dict(os.environ, CODELIMIT_REPO=str(tmp), VERIF_EVIDENCE_DIR=str(tmp / "ev"), VERIF_JOBS="2",
                   VERIF_NO_SELFTEST="1", VERIF_QUIET="1")
        r = subprocess.run([PY, str(HERE / "check.py"), v["prop"], "--tier", "quick", "--repo", str(tmp)],
                           capture_output=True, text=True, env=env, timeout=300)
        out = r.stdout + r.stderr
        want = v["expect"]
        if want == "fire":
            good = r.returncode == 1 and "VIOLATION property=" + v["prop"] in out
            if good and v.get("names"):
                good = all(n in out for n in ([v["names"]] if isinstance(v["names"], str) else v["names"]))
        else:
            good = r.returncode == 0 and "VIOLATION" not in out
        return dict(id=v["id"], status="ok" if good else "FAIL", rc=r.returncode, want=want,
                    out="\n".join(l for l in out.splitlines() if not l.startswith("OK ") and "condarc" not in l)[-1500:])
    except subprocess.TimeoutExpired:
        return dict(id=v["id"], status="FAIL", rc=-1, want=v["expect"], out="timeout")
    finally:
        shutil.rmtree(tmp, ignore_errors=True)


def run_variants(variants, jobs=16) -> list[dict]:
    with cf.ThreadPoolExecutor(max_workers=jobs) as ex:
        return list(ex.map(run_variant, variants))


def run_for_property(ctx, prop: str):
    """Called by the thorough tier of a property check."""
    vs = [v for v in load_variants() if v["prop"] == prop]
    if not vs:
        ctx.info("self-test: no variants registered for this property")
        return
    res = run_variants(vs, jobs=int(os.environ.get("VERIF_SELFTEST_JOBS", "8")))
    # a variant that failed while the machine was busy (a time limit, a thread that could not be started) is tried once more,
    # alone; a variant that fails for a reason of its own fails again
    retry = {r["id"] for r in res if r["status"] == "FAIL"}
    if retry:
        again = {r["id"]: r for r in run_variants([v for v in vs if v["id"] in retry], jobs=1)}
        res = [again.get(r["id"], r) for r in res]
    fails = [r for r in res if r["status"] == "FAIL"]
    na = [r for r in res if r["status"] in ("n/a", "broken-variant")]
    ctx.extra["selftest"] = {
        "variants": len(vs), "passed": sum(r["status"] == "ok" for r in res),
        "not_applicable_to_this_tree": [f"{r['id']}: {r['why']}" for r in na],
        "must_fire": sum(v["expect"] == "fire" for v in vs), "must_stay_silent": sum(v["expect"] == "silent" for v in vs),
    }
    ctx.info(f"self-test: {len(vs)} variants, {len(fails)} failed, {len(na)} not applicable to this tree")
    if fails:
        raise AnalysisError("checker self-test failed: " + "; ".join(
            f"{r['id']} (want {r['want']}, rc={r['rc']})" for r in fails))


def main(argv):
    args = [a for a in argv if not a.startswith("--")]
    jobs = 16
    only = None
    if "--jobs" in argv:
        jobs = int(argv[argv.index("--jobs") + 1])
        args.remove(str(jobs))
    if "--only" in argv:
        only = argv[argv.index("--only") + 1]
        args.remove(only)
    vs = load_variants()
    if args:
        vs = [v for v in vs if v["prop"] in args]
    if only:
        vs = [v for v in vs if only in v["id"]]
    if "--list" in argv:
        for v in vs:
            print(v["prop"], v["expect"], v["id"], "-", v.get("why", ""))
        return 0
    res = run_variants(vs, jobs)
    bad = 0
    for v, r in zip(vs, res):
        if r["status"] == "ok":
            print(f"ok    {v['prop']} {v['expect']:6} {v['id']}")
        elif r["status"] == "FAIL":
            bad += 1
            print(f"FAIL  {v['prop']} {v['expect']:6} {v['id']} rc={r['rc']}\n      " + r["out"].replace("\n", "\n      "))
        else:
            print(f"{r['status']:5} {v['prop']} {v['expect']:6} {v['id']}: {r['why']}")
    print(f"{len(res)} variants, {bad} failed, {sum(r['status'] in ('n/a','broken-variant') for r in res)} n/a")
    return 2 if bad else 0


if __name__ == "__main__":
    sys.exit(main(sys.argv[1:]))
