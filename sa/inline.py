"""Helper inlining: normalises 'extract helper' refactorings away before the rules look at a function.

Only functions that are NOT part of the baseline API of the analysed package (sa/baseline_funcs.txt: the qualified names
the rules anchor on or look for as callees) are inlined; calls of baseline functions stay calls, because the rules speak
about them by name.  Inlining is syntactic and conservative: a call is replaced only where it is evaluated exactly
once and unconditionally, the callee is small, non-recursive and of one of these forms:

  E  expression-like   : [docstring] return <expr>           (also a chain of `if c: return a` ... `return b`)
  S  statement-like    : straight-line / if / for / try body whose returns can be eliminated into a result variable
  G  generator         : `for T in helper(...)` where helper yields; the loop body is placed at the yield sites

Inlined nodes keep a `_site` attribute ("file:line" of the helper) so that reports still point at real source."""
from __future__ import annotations

import ast
import copy
from pathlib import Path
from typing import Optional

from .core import FuncInfo, Project, attr_chain, body_exits, unparse

BASELINE = Path(__file__).with_name("baseline_funcs.txt")


def baseline_names() -> set[str]:
    if BASELINE.exists():
        return {l.strip() for l in BASELINE.read_text().splitlines() if l.strip() and not l.startswith("#")}
    return set()


class _Rename(ast.NodeTransformer):
    def __init__(self, mapping: dict[str, ast.AST], renames: dict[str, str], site: str):
        self.mapping, self.renames, self.site = mapping, renames, site

    def visit_Name(self, n):
        if n.id in self.mapping and isinstance(n.ctx, ast.Load):
            new = copy.deepcopy(self.mapping[n.id])
            return new
        if n.id in self.renames:
            return ast.copy_location(ast.Name(id=self.renames[n.id], ctx=n.ctx), n)
        return n

    def generic_visit(self, node):
        r = super().generic_visit(node)
        if hasattr(r, "lineno") and not hasattr(r, "_site"):
            r._site = f"{self.site}:{r.lineno}"
        return r

    def _scoped(self, n, bound: set):
        """rename free variables inside a nested lambda / def (its own parameters and locals shadow)"""
        sub = _Rename({k: v for k, v in self.mapping.items() if k not in bound},
                      {k: v for k, v in self.renames.items() if k not in bound}, self.site)
        if isinstance(n, ast.Lambda):
            n.body = sub.visit(n.body)
        else:
            n.body = [sub.visit(st) for st in n.body]
            if n.name in self.renames:
                n.name = self.renames[n.name]
        a = n.args
        a.defaults = [self.visit(d) for d in a.defaults]
        a.kw_defaults = [self.visit(d) if d is not None else None for d in a.kw_defaults]
        return n

    def visit_Lambda(self, n):
        a = n.args
        bound = {x.arg for x in a.posonlyargs + a.args + a.kwonlyargs}
        return self._scoped(n, bound)

    def visit_FunctionDef(self, n):
        a = n.args
        bound = {x.arg for x in a.posonlyargs + a.args + a.kwonlyargs}
        for st in n.body:
            bound |= _assigned_names(st)
        nonloc = {nm for st in ast.walk(n) if isinstance(st, ast.Nonlocal) for nm in st.names}
        return self._scoped(n, bound - nonloc)


def _assigned_names(node) -> set[str]:
    out = set()
    for n in ast.walk(node):
        if isinstance(n, ast.Name) and isinstance(n.ctx, (ast.Store, ast.Del)):
            out.add(n.id)
    return out


def _is_simple(e) -> bool:
    return isinstance(e, (ast.Name, ast.Constant)) or (isinstance(e, ast.Attribute) and _is_simple(e.value))


def _strip_doc(body):
    if body and isinstance(body[0], ast.Expr) and isinstance(body[0].value, ast.Constant) and isinstance(body[0].value.value, str):
        return body[1:]
    return body


def _expr_form(body) -> Optional[ast.AST]:
    """E form: the function's value as one expression, or None."""
    body = _strip_doc(body)
    if not body:
        return None
    if len(body) == 1 and isinstance(body[0], ast.Return) and body[0].value is not None:
        return body[0].value
    # if c: return a  [elif...]  return b
    st = body[0]
    if isinstance(st, ast.If) and len(st.body) == 1 and isinstance(st.body[0], ast.Return) and st.body[0].value is not None:
        rest = st.orelse if st.orelse else body[1:]
        if st.orelse and body[1:]:
            return None
        other = _expr_form(rest)
        if other is not None:
            return ast.IfExp(test=st.test, body=st.body[0].value, orelse=other)
    return None


def _has(node_or_list, kinds) -> bool:
    nodes = node_or_list if isinstance(node_or_list, list) else [node_or_list]
    for n in nodes:
        for x in ast.walk(n):
            if isinstance(x, kinds):
                return True
            if isinstance(x, (ast.FunctionDef, ast.Lambda)) and x is not n:
                pass
    return False


def eliminate_returns(stmts: list, res: str) -> Optional[list]:
    """Rewrite a statement list so that `return e` becomes `res = e` with the control flow preserved
    (the rest of a block moves into the else branch of an always-returning if).  None if not possible."""
    out = []
    for i, st in enumerate(stmts):
        rest = stmts[i + 1:]
        if isinstance(st, ast.Return):
            val = st.value if st.value is not None else ast.Constant(value=None)
            out.append(ast.copy_location(ast.Assign(targets=[ast.Name(id=res, ctx=ast.Store())], value=val, lineno=st.lineno), st))
            return out
        if isinstance(st, ast.If) and _has(st, ast.Return):
            b_ret, e_ret = body_exits(st.body) == "return", bool(st.orelse) and body_exits(st.orelse) == "return"
            nb = eliminate_returns(st.body + ([] if b_ret else rest), res)
            ne = eliminate_returns((st.orelse or []) + ([] if e_ret else rest), res)
            if nb is None or ne is None:
                return None
            new = ast.copy_location(ast.If(test=st.test, body=nb or [ast.Pass()], orelse=ne), st)
            out.append(new)
            return out
        if isinstance(st, ast.Try) and _has(st, ast.Return):
            if st.finalbody or st.orelse:
                return None
            falls = body_exits(st.body) != "return"
            if _has(st.body, ast.Return):
                if falls:
                    return None          # a return in the middle of a protected block that can also fall through
                nb = eliminate_returns(st.body, res)
                if nb is None:
                    return None
            else:
                nb = list(st.body)
            hs = []
            for h in st.handlers:
                h_ret = body_exits(h.body) == "return"
                nh = eliminate_returns(h.body + ([] if h_ret else copy.deepcopy(rest)), res)
                if nh is None:
                    return None
                hs.append(ast.copy_location(ast.ExceptHandler(type=h.type, name=h.name, body=nh or [ast.Pass()]), h))
            orelse = []
            if falls:
                # what follows the try runs only when the protected block completed (a handler that returned does not reach it)
                orelse = eliminate_returns(rest, res)
                if orelse is None:
                    return None
            out.append(ast.copy_location(ast.Try(body=nb, handlers=hs, orelse=orelse, finalbody=[]), st))
            return out
        if isinstance(st, ast.With) and _has(st, ast.Return):
            nb = eliminate_returns(st.body + ([] if body_exits(st.body) == "return" else []), res)
            if nb is None or body_exits(st.body) != "return":
                return None
            out.append(ast.copy_location(ast.With(items=st.items, body=nb), st))
            return out
        if isinstance(st, ast.Match) and _has(st, ast.Return):
            cases = []
            for c in st.cases:
                c_ret = body_exits(c.body) == "return"
                nb = eliminate_returns(c.body + ([] if c_ret else rest), res)
                if nb is None:
                    return None
                cases.append(ast.match_case(pattern=c.pattern, guard=c.guard, body=nb or [ast.Pass()]))
            exhaustive = any(isinstance(c.pattern, ast.MatchAs) and c.pattern.pattern is None and c.guard is None for c in st.cases)
            if not exhaustive:
                nr = eliminate_returns(rest, res)
                if nr is None:
                    return None
                cases.append(ast.match_case(pattern=ast.MatchAs(pattern=None, name=None), guard=None, body=nr or [ast.Pass()]))
            out.append(ast.copy_location(ast.Match(subject=st.subject, cases=cases), st))
            return out
        if isinstance(st, (ast.For, ast.While)) and _has(st, ast.Return):
            return None
        if not isinstance(st, (ast.FunctionDef, ast.ClassDef, ast.Lambda)) and _has(st, ast.Return):
            return None          # a statement kind whose returns this rewriting does not understand
        out.append(st)
    # fell off the end: implicit None
    out.append(ast.Assign(targets=[ast.Name(id=res, ctx=ast.Store())], value=ast.Constant(value=None), lineno=getattr(stmts[-1], "lineno", 0) if stmts else 0))
    return out


class Inliner:
    def __init__(self, prj: Project, max_depth: int = 4, max_stmts: int = 45):
        self.prj = prj
        self.base = baseline_names()
        self.max_depth, self.max_stmts = max_depth, max_stmts
        self.counter = 0
        self.cache: dict[str, FuncInfo] = {}
        self.inlined: dict[str, list[str]] = {}

    # ------------------------------------------------------------------ public
    def view(self, fi: FuncInfo) -> FuncInfo:
        """fi with every call of a non-baseline helper inlined (cached)."""
        if fi.qual in self.cache:
            return self.cache[fi.qual]
        node = copy.deepcopy(fi.node)
        self.inlined[fi.qual] = []
        saved, self._cur_fi = getattr(self, "_cur_fi", None), fi
        try:
            for _ in range(self.max_depth):
                before = len(self.inlined[fi.qual])
                node.body = self._block(fi, node.body, [fi.qual])
                if len(self.inlined[fi.qual]) == before:
                    break
        finally:
            self._cur_fi = saved
        node = normalise(self.prj, fi, node)
        ast.fix_missing_locations(node)
        if self.inlined[fi.qual] or getattr(node, "_hoisted", False):
            _renumber(node, fi.module.rel)
        syn = FuncInfo(fi.module, node, fi.cls, fi.outer)
        syn.nested = dict(fi.nested)
        syn.inlined_from = list(self.inlined[fi.qual])
        self.cache[fi.qual] = syn
        return syn

    def candidate(self, fi: FuncInfo, call: ast.Call, stack: list[str]) -> Optional[FuncInfo]:
        tg, kind = self.prj.resolve_call(fi, call)
        if kind not in ("direct", "self", "cha") or len(tg) != 1:
            return None
        t = tg[0]
        if kind == "cha" and not (t.is_method() and len([a for a in call.args]) + len(call.keywords) == len(t.params()) - 1):
            return None     # a method name that is unique in the project, on a receiver of unknown type
        if t.qual in self.base or t.qual in stack or t.name.startswith("__"):
            return None
        if t.module.name.split(".")[0] != "codelimit":
            return None
        if sum(1 for _ in ast.walk(t.node) if isinstance(_, ast.stmt)) > self.max_stmts:
            return None
        if t.node.args.vararg or t.node.args.kwarg:
            return None
        if any(isinstance(d, ast.Name) and d.id in ("property", "abstractmethod") for d in t.node.decorator_list):
            return None
        if any((attr_chain(d.func if isinstance(d, ast.Call) else d) or "?").split(".")[-1] not in ("staticmethod", "classmethod")
               for d in t.node.decorator_list):
            return None          # a decorator changes what a call means (lru_cache, contextmanager ...): the call stays a call
        if self._foreign(fi, t) is None:
            return None
        return t

    # ---------------------------------------------------------------- binding
    def _foreign(self, caller: FuncInfo, callee: FuncInfo):
        """Names the callee's code takes from ITS module: spliced into a function of another module they would be looked
        up there.  -> {name: literal} for module constants to substitute, or None when some name means something else
        (or nothing) in the caller's module."""
        if callee.module is caller.module:
            return {}
        import builtins
        local = set(callee.params()) | _assigned_names(callee.node) | set(callee.nested)
        for n in ast.walk(callee.node):
            if isinstance(n, (ast.Lambda, ast.FunctionDef)):
                a = n.args
                local |= {x.arg for x in a.posonlyargs + a.args + a.kwonlyargs}
            if isinstance(n, ast.comprehension):
                local |= _assigned_names(n.target)
        out = {}
        nodes = list(ast.walk(callee.node))
        for n in nodes:
            if not (isinstance(n, ast.Name) and isinstance(n.ctx, ast.Load)) or n.id in local or hasattr(builtins, n.id):
                continue
            cm, km = callee.module, caller.module
            if n.id in cm.assigns and n.id not in cm.functions and n.id not in cm.classes and n.id not in cm.imports:
                v = cm.assigns[n.id]
                if n.id in km.assigns and ast.dump(km.assigns[n.id]) == ast.dump(v):
                    continue
                if isinstance(v, ast.Constant):
                    out[n.id] = v
                    continue
                return None
            a = self.prj.resolve_name_in_module(cm, n.id)
            b = self.prj.resolve_name_in_module(km, n.id)
            if a is None and n.id not in cm.imports:
                continue        # unknown in the callee's module as well (a global of another kind): leave
            if a is not b and a != b:
                return None
        return out

    def _bind(self, callee: FuncInfo, call: ast.Call):
        params = callee.params()
        is_bound = callee.is_method() and not callee.is_static()
        recv = None
        if is_bound and isinstance(call.func, ast.Attribute):
            recv = call.func.value
            params_eff = params[1:]
            self_name = params[0] if params else "self"
        else:
            params_eff = params
            self_name = None
        bound: dict[str, ast.AST] = {}
        for p, a in zip(params_eff, call.args):
            bound[p] = a
        for k in call.keywords:
            if k.arg is None:
                return None
            bound[k.arg] = k.value
        for p in params_eff:
            if p not in bound:
                d = callee.param_default(p)
                if d is None:
                    return None
                sub = self._foreign(self._cur_fi, callee) if getattr(self, "_cur_fi", None) is not None else None
                if sub:
                    d = _Rename(dict(sub), {}, callee.module.rel).visit(copy.deepcopy(d))
                bound[p] = d
        if self_name is not None and recv is not None:
            bound[self_name] = recv
        return bound

    def _defaults_fixed(self, callee, st):
        """parameter defaults are expressions of the callee's module"""
        sub = self._foreign(self._cur_fi, callee) if getattr(self, "_cur_fi", None) is not None else None
        if sub:
            st.value = _Rename(dict(sub), {}, callee.module.rel).visit(st.value)
        return st

    def _instantiate(self, callee: FuncInfo, call: ast.Call):
        """-> (prelude statements binding parameters, renamed body statements) or None"""
        bound = self._bind(callee, call)
        if bound is None:
            return None
        self.counter += 1
        tag = f"__i{self.counter}"
        body = copy.deepcopy(_strip_doc(callee.node.body))
        assigned = set()
        for st in body:
            assigned |= _assigned_names(st)
        mapping, renames, prelude = {}, {}, []
        uses = {}
        for st in body:
            for n in ast.walk(st):
                if isinstance(n, ast.Name) and isinstance(n.ctx, ast.Load):
                    uses[n.id] = uses.get(n.id, 0) + 1
        for p, a in bound.items():
            if p not in assigned and (_is_simple(a) or uses.get(p, 0) <= 1):
                mapping[p] = a
            else:
                renames[p] = p + tag
                prelude.append(ast.Assign(targets=[ast.Name(id=p + tag, ctx=ast.Store())], value=copy.deepcopy(a), lineno=call.lineno))
        for nm in assigned:
            if nm not in renames:
                renames[nm] = nm + tag
        for nm, lit in (self._foreign(self._cur_fi, callee) or {}).items() if getattr(self, "_cur_fi", None) is not None else []:
            if nm not in mapping and nm not in renames:
                mapping[nm] = lit
        prelude = [self._defaults_fixed(callee, st) for st in prelude]
        rn = _Rename(mapping, renames, callee.module.rel)
        body = [rn.visit(st) for st in body]
        return prelude, body, tag

    # ------------------------------------------------------------ statements
    def _block(self, fi: FuncInfo, stmts: list, stack: list[str]) -> list:
        out = []
        for st in stmts:
            out.extend(self._stmt(fi, st, stack))
        return out

    def _unroll_comprehension(self, fi, st, stack):
        """`x = [f(a) for a in xs if c]` with f a statement-form helper -> explicit loop, so that f can be inlined"""
        if not isinstance(st, (ast.Assign, ast.Return, ast.AnnAssign)) or getattr(st, "value", None) is None:
            return None
        lc = st.value
        if not (isinstance(lc, ast.ListComp) and len(lc.generators) == 1 and not lc.generators[0].is_async):
            return None
        g = lc.generators[0]
        wanted = False
        for part in [lc.elt] + list(g.ifs):
            for c in ast.walk(part):
                if isinstance(c, ast.Call):
                    callee = self.candidate(fi, c, stack)
                    if callee is not None and _expr_form(callee.node.body) is None:
                        wanted = True
        if not wanted:
            return None
        self.counter += 1
        acc = f"_lc__i{self.counter}"
        app = ast.Expr(value=ast.Call(func=ast.Attribute(value=ast.Name(id=acc, ctx=ast.Load()), attr="append", ctx=ast.Load()),
                                      args=[lc.elt], keywords=[]))
        body = [app]
        if g.ifs:
            test = g.ifs[0] if len(g.ifs) == 1 else ast.BoolOp(op=ast.And(), values=list(g.ifs))
            body = [ast.If(test=test, body=[app], orelse=[])]
        loop = ast.For(target=g.target, iter=g.iter, body=body, orelse=[])
        init = ast.Assign(targets=[ast.Name(id=acc, ctx=ast.Store())], value=ast.List(elts=[], ctx=ast.Load()))
        for n in (init, loop, app):
            ast.copy_location(n, st)
        for n in ast.walk(loop):
            if not hasattr(n, "lineno"):
                ast.copy_location(n, st)
        st.value = ast.copy_location(ast.Name(id=acc, ctx=ast.Load()), lc)
        return [init, loop, st]

    def _stmt(self, fi: FuncInfo, st, stack) -> list:
        un = self._unroll_comprehension(fi, st, stack)
        if un is not None:
            return self._block(fi, un, stack)
        # generator loops
        if isinstance(st, ast.For) and isinstance(st.iter, ast.Call):
            callee = self.candidate(fi, st.iter, stack)
            if callee is not None and _has(callee.node.body, (ast.Yield, ast.YieldFrom)):
                r = self._inline_generator(fi, st, callee, stack)
                if r is not None:
                    return r
        # recurse into compound statements first
        for fld in ("body", "orelse", "finalbody"):
            if hasattr(st, fld) and isinstance(getattr(st, fld), list) and not isinstance(st, (ast.FunctionDef, ast.ClassDef)):
                setattr(st, fld, self._block(fi, getattr(st, fld), stack))
        if isinstance(st, ast.Try):
            for h in st.handlers:
                h.body = self._block(fi, h.body, stack)
        # expression-level inlining anywhere in this statement's own expressions
        self._inline_exprs(fi, st, stack)
        # statement-level inlining of a call evaluated once, unconditionally
        for call in self._once_calls(fi, st, stack):
            callee = self.candidate(fi, call, stack)
            inst = self._instantiate(callee, call)
            if inst is not None:
                prelude, body, tag = inst
                res = "ret" + tag
                is_proc = not _has(body, ast.Return)
                if isinstance(st, ast.Expr) and st.value is call and is_proc:
                    self.inlined[stack[0]].append(callee.qual)
                    new = prelude + body
                    return self._block(fi, new, stack + [callee.qual])
                nb = eliminate_returns(body, res)
                if nb is not None and not _has(nb, (ast.Yield, ast.YieldFrom)):
                    self.inlined[stack[0]].append(callee.qual)
                    _replace(st, call, ast.copy_location(ast.Name(id=res, ctx=ast.Load()), call))
                    new = prelude + nb
                    return self._block(fi, new, stack + [callee.qual]) + [st]
        return [st]

    def _own_exprs(self, st):
        """expression children of a statement that are evaluated when the statement runs (not nested blocks)"""
        if isinstance(st, (ast.Assign, ast.AugAssign, ast.AnnAssign, ast.Return, ast.Expr)):
            return [st.value] if getattr(st, "value", None) is not None else []
        if isinstance(st, ast.If):
            return [st.test]
        if isinstance(st, ast.For):
            return [st.iter]
        if isinstance(st, ast.While):
            return []       # evaluated repeatedly
        if isinstance(st, ast.Raise):
            return [st.exc] if st.exc is not None else []
        if isinstance(st, ast.With):
            return [i.context_expr for i in st.items]
        return []

    def _once_calls(self, fi, st, stack) -> list:
        """inlinable calls in st that are evaluated exactly once and unconditionally, innermost first"""
        out = []
        for root in self._own_exprs(st):
            self._walk_once(fi, root, stack, out)
        return out

    def _walk_once(self, fi, e, stack, out):
        if isinstance(e, (ast.Lambda, ast.ListComp, ast.SetComp, ast.DictComp, ast.GeneratorExp)):
            return
        if isinstance(e, ast.BoolOp):
            return self._walk_once(fi, e.values[0], stack, out)
        if isinstance(e, ast.IfExp):
            return self._walk_once(fi, e.test, stack, out)
        if isinstance(e, ast.Call):
            for a in ([e.func.value] if isinstance(e.func, ast.Attribute) else []) + list(e.args) + [k.value for k in e.keywords]:
                self._walk_once(fi, a, stack, out)
            if self.candidate(fi, e, stack) is not None:
                out.append(e)
            return
        for c in ast.iter_child_nodes(e):
            if isinstance(c, ast.expr):
                self._walk_once(fi, c, stack, out)

    def _inline_exprs(self, fi, st, stack):
        """replace calls of expression-like helpers by their expression, anywhere (also in comprehensions, tests)"""
        outer = self

        class X(ast.NodeTransformer):
            def visit_Call(self, n):
                self.generic_visit(n)
                callee = outer.candidate(fi, n, stack)
                if callee is None:
                    return n
                ex = _expr_form(callee.node.body)
                if ex is None:
                    return n
                bound = outer._bind(callee, n)
                if bound is None:
                    return n
                uses = {}
                for x in ast.walk(ex):
                    if isinstance(x, ast.Name) and isinstance(x.ctx, ast.Load):
                        uses[x.id] = uses.get(x.id, 0) + 1
                if any(not _is_simple(a) and uses.get(p, 0) > 1 for p, a in bound.items()):
                    return n
                if any(isinstance(x, ast.NamedExpr) for x in ast.walk(ex)):
                    return n
                comp_vars = _assigned_names(ex)      # comprehension variables of the helper's expression
                arg_names = {x.id for a in bound.values() for x in ast.walk(a) if isinstance(x, ast.Name)}
                ren = {}
                if comp_vars & (arg_names | set(bound)):
                    outer.counter += 1
                    ren = {v: f"{v}__i{outer.counter}" for v in comp_vars}
                mp = {k: v for k, v in bound.items() if k not in comp_vars}
                for nm, lit in (outer._foreign(fi, callee) or {}).items():
                    mp.setdefault(nm, lit)
                    for k2, v2 in list(mp.items()):
                        if isinstance(v2, ast.Name) and v2.id == nm and k2 != nm:
                            mp[k2] = lit         # a default that names the constant
                new = _Rename(mp, ren, callee.module.rel).visit(copy.deepcopy(ex))
                outer.inlined[stack[0]].append(callee.qual)
                # helpers of helpers
                return ast.copy_location(X().visit(new) if len(stack) < outer.max_depth else new, n)

            def visit_Lambda(self, n):
                return n
        for fld, val in ast.iter_fields(st):
            if isinstance(val, ast.expr):
                setattr(st, fld, X().visit(val))
            elif isinstance(val, list) and val and isinstance(val[0], ast.expr):
                setattr(st, fld, [X().visit(v) for v in val])
            elif fld == "items" and isinstance(val, list):
                for it in val:
                    it.context_expr = X().visit(it.context_expr)

    def _inline_generator(self, fi, st: ast.For, callee: FuncInfo, stack) -> Optional[list]:
        if _has(st.body, ast.Break) or st.orelse:
            return None
        if _has(callee.node.body, ast.YieldFrom):
            return None
        if any(isinstance(r, ast.Return) and r.value is not None for r in ast.walk(callee.node)):
            return None
        inst = self._instantiate(callee, st.iter)
        if inst is None:
            return None
        prelude, body, tag = inst
        consumer = st.body
        target = st.target
        outer = self

        class Y(ast.NodeTransformer):
            ok = True

            def visit_Expr(self, n):
                if isinstance(n.value, ast.Yield):
                    val = n.value.value if n.value.value is not None else ast.Constant(value=None)
                    assign = ast.copy_location(ast.Assign(targets=[copy.deepcopy(target)], value=val, lineno=n.lineno), n)
                    once = ast.For(target=ast.Name(id="_once" + tag, ctx=ast.Store()), iter=ast.List(elts=[ast.Constant(value=0)], ctx=ast.Load()),
                                   body=copy.deepcopy(consumer), orelse=[], lineno=n.lineno)
                    once._inlined_consumer = True
                    if _has(consumer, ast.Continue):
                        return [assign, once]
                    return [assign] + copy.deepcopy(consumer)
                return n

            def visit_Yield(self, n):
                Y.ok = False
                return n

            def visit_Return(self, n):
                Y.ok = False     # bare return inside a generator: control flow not preserved by splicing
                return n
        Y.ok = True
        tr = Y()
        new_body = []
        for s in body:
            r = tr.visit(s)
            new_body.extend(r if isinstance(r, list) else [r])
        if not Y.ok:
            return None
        self.inlined[stack[0]].append(callee.qual)
        return self._block(fi, prelude + new_body, stack + [callee.qual])


def _renumber(node, rel: str):
    """Spliced statements carry the line numbers of the helper they came from; analyses order statements by position.
    Keep the true origin of every node in `_site` (used for reporting) and give the view fresh, strictly increasing
    positions in execution (source) order."""
    for n in ast.walk(node):
        if hasattr(n, "lineno") and not getattr(n, "_site", None):
            n._site = f"{rel}:{n.lineno}"
    k = [getattr(node, "lineno", 1) * 1000]

    def rec(n):
        if hasattr(n, "lineno"):
            k[0] += 1
            n.lineno = n.end_lineno = k[0]
            n.col_offset, n.end_col_offset = 0, 0
        for c in ast.iter_child_nodes(n):
            rec(c)
    rec(node)


def _replace(root, old, new):
    for n in ast.walk(root):
        for fld, val in ast.iter_fields(n):
            if val is old:
                setattr(n, fld, new)
                return True
            if isinstance(val, list):
                for i, v in enumerate(val):
                    if v is old:
                        val[i] = new
                        return True
    return False


# ----------------------------------------------------------------------------
# normalisation: named constants, attrgetter keys
# ----------------------------------------------------------------------------

def _module_const(prj: Project, mod, name: str, depth=0):
    """literal value (int/str/bool/None/tuple of those) of a module-level NAME = <constant expression>, else _NO"""
    if depth > 4 or name not in mod.assigns:
        return _NO
    return _const_expr(prj, mod, mod.assigns[name], depth + 1)


_NO = object()


def _const_expr(prj, mod, e, depth=0):
    if isinstance(e, ast.Constant) and isinstance(e.value, (int, str, bool, float, type(None))):
        return e.value
    if isinstance(e, (ast.Tuple, ast.List)):
        vals = [_const_expr(prj, mod, x, depth) for x in e.elts]
        if any(v is _NO for v in vals):
            return _NO
        return tuple(vals)
    if isinstance(e, ast.Name):
        if e.id in mod.assigns:
            return _module_const(prj, mod, e.id, depth)
        tgt = mod.imports.get(e.id)
        if tgt and ":" in tgt:
            m2, sym = tgt.split(":", 1)
            if m2 in prj.modules and sym in prj.modules[m2].assigns:
                return _module_const(prj, prj.modules[m2], sym, depth)
        return _NO
    if isinstance(e, ast.UnaryOp) and isinstance(e.op, ast.USub):
        v = _const_expr(prj, mod, e.operand, depth)
        return -v if isinstance(v, (int, float)) and not isinstance(v, bool) else _NO
    if isinstance(e, ast.BinOp) and isinstance(e.op, (ast.Add, ast.Sub, ast.Mult)):
        a, b = _const_expr(prj, mod, e.left, depth), _const_expr(prj, mod, e.right, depth)
        if a is _NO or b is _NO:
            return _NO
        try:
            return a + b if isinstance(e.op, ast.Add) else a - b if isinstance(e.op, ast.Sub) else a * b
        except TypeError:
            return _NO
    if isinstance(e, ast.Call) and attr_chain(e.func) == "len" and len(e.args) == 1:
        v = _const_expr(prj, mod, e.args[0], depth)
        return len(v) if isinstance(v, (tuple, str)) else _NO
    if isinstance(e, ast.Call) and attr_chain(e.func) in ("frozenset", "tuple", "set") and len(e.args) == 1:
        return _NO
    return _NO


def _to_ast(v):
    if isinstance(v, tuple):
        return ast.Tuple(elts=[_to_ast(x) for x in v], ctx=ast.Load())
    return ast.Constant(value=v)


def normalise(prj: Project, fi: FuncInfo, node):
    """substitute module-level named constants by their literal value (scalars only; tuples stay names unless
    subscripted or iterated by a literal index), and rewrite attrgetter('a') keys as lambdas"""
    mod = fi.module
    local = _assigned_names(node) | set(fi.params())
    o = fi.outer
    while o is not None:
        local |= set(o.params()) | _assigned_names(o.node)
        o = o.outer

    class N(ast.NodeTransformer):
        def visit_Name(self, n):
            if isinstance(n.ctx, ast.Load) and n.id not in local:
                v = _const_expr(prj, mod, n)
                if v is not _NO and not isinstance(v, tuple) and n.id.upper() == n.id:
                    return ast.copy_location(ast.Constant(value=v), n)
            return n

        def visit_Attribute(self, n):
            self.generic_visit(n)
            # Cls.CONST / self.CONST class-level scalar constants (upper-case names only)
            if n.attr.upper() == n.attr and isinstance(n.ctx, ast.Load) and isinstance(n.value, ast.Name):
                cls = None
                if n.value.id in ("self", "cls") and fi.cls is not None:
                    cls = fi.cls
                else:
                    t = prj.resolve_name_in_module(mod, n.value.id)
                    from .core import ClassInfo
                    if isinstance(t, ClassInfo):
                        cls = t
                if cls is not None:
                    for c in cls.mro():
                        if n.attr in c.class_attrs and isinstance(c.class_attrs[n.attr], (ast.Constant, ast.Tuple, ast.UnaryOp, ast.BinOp)):
                            v = _const_expr(prj, c.module, c.class_attrs[n.attr])
                            if v is not _NO and not isinstance(v, tuple):
                                return ast.copy_location(ast.Constant(value=v), n)
                            break
            return n

        def visit_Call(self, n):
            self.generic_visit(n)
            nm = attr_chain(n.func) or ""
            if nm.split(".")[-1] == "attrgetter" and len(n.args) == 1 and isinstance(n.args[0], ast.Constant) and isinstance(n.args[0].value, str) \
                    and "." not in n.args[0].value:
                lam = ast.Lambda(args=ast.arguments(posonlyargs=[], args=[ast.arg(arg="x")], kwonlyargs=[], kw_defaults=[], defaults=[]),
                                 body=ast.Attribute(value=ast.Name(id="x", ctx=ast.Load()), attr=n.args[0].value, ctx=ast.Load()))
                return ast.copy_location(lam, n)
            return n

        def visit_FunctionDef(self, n):
            if n is node:
                self.generic_visit(n)
            return n
    node = N().visit(node)
    return _hoist_loop_iterables(node)


def _hoist_loop_iterables(node):
    """`for x in [comprehension]:` -> `_it = [comprehension]; for x in _it:` (same meaning; loops then iterate names)"""
    counter = [0]
    changed = [False]

    def block(stmts):
        out = []
        for st in stmts:
            for fld in ("body", "orelse", "finalbody"):
                if hasattr(st, fld) and isinstance(getattr(st, fld), list) and not isinstance(st, (ast.FunctionDef, ast.ClassDef)):
                    setattr(st, fld, block(getattr(st, fld)))
            if isinstance(st, ast.Try):
                for h in st.handlers:
                    h.body = block(h.body)
            if isinstance(st, ast.For):
                it = st.iter
                inner = it.args[0] if isinstance(it, ast.Call) and attr_chain(it.func) in ("list", "sorted", "tuple") and len(it.args) == 1 and not it.keywords else it
                if isinstance(inner, (ast.ListComp, ast.GeneratorExp)):
                    counter[0] += 1
                    nm = f"_it__h{counter[0]}"
                    asg = ast.copy_location(ast.Assign(targets=[ast.Name(id=nm, ctx=ast.Store())], value=it), st)
                    st.iter = ast.copy_location(ast.Name(id=nm, ctx=ast.Load()), it)
                    out.append(asg)
                    changed[0] = True
            out.append(st)
        return out
    node.body = block(node.body)
    node._hoisted = changed[0]
    return node
