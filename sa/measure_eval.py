"""scan_file (build_scopes -> pairing -> marker filter -> nesting -> unfolding -> measuring) evaluated on a small abstract
program of a brace language.  The language object is a stub: headers are the `fn<name> ( )` triples and blocks the
balanced brace pairs OF THE TOKEN LIST IT IS HANDED (so a list that still contains comments shifts every index);
everything else - scope_utils, Scope, Header, TokenRange, count_lines, Measurement construction - is the repo's source,
interpreted.  The program contains: a comment before the first function, a function with a nested function followed by a
statement of the parent, a one-line function, a function whose name line carries the suppression marker, a marker on a
line between functions and one inside a body, comments inside bodies, a multi-line comment."""
from __future__ import annotations

from .absint import BoundFunc, MiniInterp, PyRaise, Sym, Unknown, make_token
from .core import Project

# (line, [ (kind, text), ... ])
PROGRAM = [
    (1, [("Comment.Single", "// top of file")]),
    (2, [("Keyword", "function"), ("Name", "fnQ"), ("Punctuation", "("), ("Punctuation", ")"), ("Punctuation", "{"), ("Comment.Single", "// mentions nocl later")]),
    (3, [("Name", "x"), ("Punctuation", ";")]),
    (4, [("Keyword", "function"), ("Name", "fnB"), ("Punctuation", "("), ("Punctuation", ")"), ("Punctuation", "{")]),
    (5, [("Name", "y"), ("Punctuation", ";"), ("Comment.Multiline", "/* c */")]),
    (6, [("Punctuation", "}")]),
    (7, [("Name", "z"), ("Punctuation", ";")]),
    (8, [("Punctuation", "}")]),
    (9, [("Comment.Multiline", "/* multi\nline */")]),
    (11, [("Keyword", "function"), ("Name", "fnZ"), ("Punctuation", "("), ("Punctuation", ")"), ("Punctuation", "{"), ("Name", "w"), ("Punctuation", ";"), ("Punctuation", "}"),
          # a declaration without body right before the suppressed function
          ("Keyword", "function"), ("Name", "fnX"), ("Punctuation", "("), ("Punctuation", ")"), ("Punctuation", ";")]),
    (12, [("Keyword", "function"), ("Name", "fnD"), ("Punctuation", "("), ("Punctuation", ")"), ("Punctuation", "{"), ("Comment.Single", "// nocl because")]),
    (13, [("Name", "v"), ("Punctuation", ";")]),
    (14, [("Punctuation", "}")]),
    (15, [("Comment.Single", "// NOCL between functions")]),
    (16, [("Keyword", "function"), ("Name", "fnA"), ("Punctuation", "("), ("Punctuation", ")"), ("Punctuation", "{")]),
    (17, [("Comment.Single", "# nocl inside a body")]),
    (18, [("Name", "u"), ("Punctuation", ";")]),
    (19, [("Punctuation", "}")]),
    # two nested siblings; the second one's closing brace is directly followed by the parent's closing brace alone on a line
    (20, [("Keyword", "function"), ("Name", "fnK"), ("Punctuation", "("), ("Punctuation", ")"), ("Punctuation", "{")]),
    (21, [("Keyword", "function"), ("Name", "fnC"), ("Punctuation", "("), ("Punctuation", ")"), ("Punctuation", "{"), ("Name", "q"), ("Punctuation", ";"), ("Punctuation", "}")]),
    (22, [("Name", "r")]),
    (23, [("Keyword", "function"), ("Name", "fnP"), ("Punctuation", "("), ("Punctuation", ")"), ("Punctuation", "{")]),
    (24, [("Name", "s"), ("Punctuation", ";"), ("Keyword", "function"), ("Name", "fnI"), ("Punctuation", "("), ("Punctuation", ")"), ("Punctuation", "{"), ("Name", "t"), ("Punctuation", ";"), ("Punctuation", "}")]),
    (25, [("Punctuation", "}")]),
    (26, [("Punctuation", "}")]),
    # a header that spans two lines, with a marker on its continuation line (not the name's line)
    (27, [("Keyword", "function"), ("Name", "fnM"), ("Punctuation", "(")]),
    (28, [("Punctuation", ")"), ("Punctuation", "{"), ("Comment.Single", "// nocl on a continuation line")]),
    (29, [("Name", "m"), ("Punctuation", ";"), ("Punctuation", "}")]),
]


def layout(program):
    """-> list of (line, column, kind, text)"""
    out = []
    for entry in program:
        line, toks = entry[0], entry[1]
        col = 1 + (entry[2] if len(entry) > 2 else 0)       # optional third item: columns of leading whitespace
        for kind, text in toks:
            out.append((line, col, kind, text))
            col += len(text.split("\n")[-1]) + 1
    return out


def expected(program, nested: bool, marker: bool = True):
    """reference measurements [(name, sl, sc, el, ec, length)] computed directly from the program"""
    toks = [t for t in layout(program) if not t[2].startswith("Comment")]
    comments = [t for t in layout(program) if t[2].startswith("Comment")]

    def is_marker(text):
        s = text.lower()
        for lead in ("#", "//", "/*", ";"):
            if s.startswith(lead):
                s = s[len(lead):].strip()
                break
        return s.startswith("nocl")
    marker_lines = {c[0] for c in comments if is_marker(c[3])} if marker else set()
    funcs = []
    stack = []
    i = 0
    opens = {}
    st = []
    for j, t in enumerate(toks):
        if t[3] == "{":
            st.append(j)
        elif t[3] == "}" and st:
            opens[st.pop()] = j
    for j, t in enumerate(toks):
        if t[3].startswith("fn"):
            o = j + 3
            h = j - 1 if j > 0 and toks[j - 1][3] == "function" else j
            if o < len(toks) and toks[o][3] == "{" and o in opens:
                funcs.append(dict(name=t[3], h=h, close=opens[o], line=t[0]))
    funcs = [f for f in funcs if f["line"] not in marker_lines]
    out = []
    for f in funcs:
        inner = [g for g in funcs if g is not f and f["h"] < g["h"] and g["close"] < f["close"]]
        direct = [g for g in inner if not any(h is not g and h in inner and h["h"] < g["h"] and g["close"] < h["close"] for h in inner)]
        if not nested and any(g is not f and g["h"] < f["h"] and f["close"] < g["close"] for g in funcs):
            continue
        own = []
        for j in range(f["h"], f["close"] + 1):
            if nested and any(g["h"] <= j <= g["close"] for g in direct):
                continue
            own.append(toks[j])
        last = toks[f["close"]]
        out.append((f["name"], toks[f["h"]][0], toks[f["h"]][1], last[0], last[1] + len(last[3]), len({t[0] for t in own})))
    return out


class Lab:
    def __init__(self, prj: Project):
        self.prj = prj
        self.scan_file = prj.func("codelimit.common.Scanner:scan_file")
        self.Header = prj.cls("codelimit.common.scope.Header:Header")
        self.TokenRange = prj.cls("codelimit.common.TokenRange:TokenRange")
        self.handed = []
        self.moved = []         # tokens whose position or text differs after scan_file (measuring reads tokens, it does not write them)

    def run(self, program, nested: bool):
        lang = Sym("language", name="Stub", allow_nested_functions=nested)
        lab = self

        def hook(it, kind, f, args, kwargs, node, cur):
            if kind == "call" and isinstance(f, tuple) and f and f[0] == "method" and f[1] is lang:
                toks = args[0]
                if not isinstance(toks, list):
                    raise Unknown("language stub handed a non-list")
                lab.handed.append((f[2], len(toks), sum(1 for t in toks if isinstance(t, Sym) and str(t.fields.get("value", "")).startswith(("//", "/*", "#")))))
                if f[2] == "extract_headers":
                    out = []
                    for i, t in enumerate(toks):
                        if str(t.fields.get("value")).startswith("fn"):
                            h = i - 1 if i > 0 and toks[i - 1].fields.get("value") == "function" else i
                            rng = it.construct(lab.TokenRange, [h, i + 3], {}, None, lab.scan_file)
                            out.append(it.construct(lab.Header, [t, rng], {}, None, lab.scan_file))
                    # like JavaScript/TypeScript (functions first, arrow functions after): NOT in source order
                    return out[1::2] + out[0::2]
                if f[2] == "extract_blocks":
                    st, pairs = [], []
                    for i, t in enumerate(toks):
                        v = t.fields.get("value")
                        if v == "{":
                            st.append(i)
                        elif v == "}" and st:
                            pairs.append((st.pop(), i))
                    pairs.sort()
                    return [it.construct(lab.TokenRange, [a, b + 1], {}, None, lab.scan_file) for a, b in pairs]
                raise Unknown(f"language.{f[2]}")
            return NotImplemented
        it = MiniInterp(self.prj, hook, max_steps=600000, max_depth=60)
        toks = [make_token(it, self.prj, kind, text, line, col) for line, col, kind, text in layout(program)]
        def positions():
            res = []
            for t in toks:
                loc = it.getattr(t, "location", self.scan_file, None)
                res.append((it.getattr(loc, "line", self.scan_file, None), it.getattr(loc, "column", self.scan_file, None), it.getattr(t, "value", self.scan_file, None)))
            return res
        before = positions()
        ms = it.call(self.scan_file, [toks, lang], {})
        ms = list(ms.rest()) if hasattr(ms, "rest") else ms
        after = positions()
        changed = [(b, a) for b, a in zip(before, after) if b != a]
        if changed and not self.moved:
            b, a = changed[0]
            self.moved.append(f"the token {b[2]!r} lexed at line {b[0]}, column {b[1]} is at line {a[0]}, column {a[1]} after scan_file ({len(changed)} token(s) moved)")
        out = []
        for m in ms:
            f = m.fields
            out.append((f["unit_name"], f["start"].fields["line"], f["start"].fields["column"], f["end"].fields["line"], f["end"].fields["column"], f["value"]))
        return out


def with_more_comments(program):
    """the same program with an extra comment line in front of every line and a trailing comment on every code line (line
    numbers doubled): comments and blank lines must not change names, lengths or which functions are reported"""
    out = []
    for line, toks in program:
        out.append((2 * line - 1, [("Comment.Single", "// inserted")]))
        extra = [] if any(k.startswith("Comment") for k, _ in toks) else [("Comment.Single", "// trailing")]
        out.append((2 * line, list(toks) + extra))
    return out


def with_wide_lines(program, lines=(2, 21), indent=5000):
    """the same program with some lines pushed far to the right by leading whitespace (a generated / minified-style file): the
    columns of a span move with it, names, lengths, order and which functions are reported do not"""
    return [(line, toks, indent) if line in lines else (line, toks) for line, toks in program]


def without_marker(program):
    return [(line, [(k, t if "nocl because" not in t else "// plain comment") for k, t in toks]) for line, toks in program]


def describe_difference(got, want) -> tuple:
    """-> (clause, text) for the first difference between measured and reference results"""
    gn, wn = [g[0] for g in got], [w[0] for w in want]
    if sorted(gn) != sorted(wn):
        extra = [n for n in gn if n not in wn]
        missing = [n for n in wn if n not in gn]
        dup = sorted({n for n in gn if gn.count(n) > 1})
        if dup:
            return "reported-twice", f"{dup} reported more than once ({gn})"
        return "functions", f"reported {gn}; required {wn}" + (f" (unexpected: {extra})" if extra else "") + (f" (missing: {missing})" if missing else "")
    if gn != wn:
        return "order", f"reported in the order {gn}; required source order {wn}"
    for g, w in zip(got, want):
        if (g[1], g[2]) != (w[1], w[2]):
            return "span-start", f"{g[0]}: span starts at line {g[1]}, column {g[2]}; required line {w[1]}, column {w[2]} (the header's first token)"
        if (g[3], g[4]) != (w[3], w[4]):
            return "span-end", f"{g[0]}: span ends at line {g[3]}, column {g[4]}; required line {w[3]}, column {w[4]} (one past the last character of the closing token)"
        if g[5] != w[5]:
            return "length", f"{g[0]}: length {g[5]}; required {w[5]} (distinct lines of the function's own code tokens; comments, blank lines and nested functions do not count)"
    return "", ""


def scenarios(prj: Project):
    """-> list of (name, nested, got, want)"""
    lab = Lab(prj)
    out = []
    for name, prog in (("program", PROGRAM), ("program with a comment line before every line and a trailing comment on every code line", with_more_comments(PROGRAM)),
                       ("program without the marker on fnD's line", without_marker(PROGRAM)),
                       ("program with two lines that open a function's block pushed 5000 columns to the right by leading whitespace", with_wide_lines(PROGRAM))):
        for nested in (True, False):
            out.append((name, nested, lab.run(prog, nested), expected(prog, nested)))
    out.append(("what the language object is handed", None, lab.handed, None))
    out.append(("token positions after measuring", None, lab.moved, "moved"))
    return out
