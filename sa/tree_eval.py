"""Codebase.add_file / add_folder / aggregate evaluated: a codebase is built through the repo's own constructors from files at
several depths (also below a top-level folder with a one-character name and one that sorts before './'), with functions of
every category; totals per language, the folder tree and every folder profile are compared with the reference computed from
the data."""
from __future__ import annotations

from .absint import MiniInterp, PyRaise, Sym, Unknown
from .core import Project
from .report_eval import ReportLab

FILES = [
    ("top.py", "Python", [3, 16, 31, 61]),
    ("a/x.py", "Python", [15, 30]),
    ("a/b/y.py", "Python", [60, 200]),
    ("a/b/z.js", "JavaScript", [1]),
    ("e/w.py", "Python", [45]),                 # top-level folder with a one-character name
    ("-gen/v.js", "JavaScript", [29, 75]),      # a folder name that sorts before './'
    ("src/deep/er/q.py", "Python", []),         # a file without functions below folders that hold no other file
    ("cafe\u0301/me\u0301nu.py", "Python", [20]),  # names in decomposed Unicode form (as macOS hands them out): keys and names stay as given
]


def cat(v: int) -> int:
    return 0 if v <= 15 else 1 if v <= 30 else 2 if v <= 60 else 3


def profile(values) -> list:
    p = [0, 0, 0, 0]
    for v in values:
        p[cat(v)] += v
    return p


def reference():
    totals = {}
    for path, lang, vals in FILES:
        t = totals.setdefault(lang, dict(files=0, loc=0, functions=0, hard_to_maintain=0, unmaintainable=0))
        t["files"] += 1
        t["loc"] += sum(vals)
        t["functions"] += len(vals)
        t["hard_to_maintain"] += sum(1 for v in vals if cat(v) == 2)
        t["unmaintainable"] += sum(1 for v in vals if cat(v) == 3)
    folders = {"./": []}
    for path, lang, vals in FILES:
        parts = path.split("/")
        for i in range(1, len(parts)):
            key = "/".join(parts[:i]) + "/"
            if key not in folders:
                folders[key] = []
                parent = "/".join(parts[:i - 1]) + "/" if i > 1 else "./"
                folders[parent].append((parts[i - 1], True))
        parent = "/".join(parts[:-1]) + "/" if len(parts) > 1 else "./"
        folders[parent].append((path, False))
    profs = {}
    for key in folders:
        below = [vals for path, _, vals in FILES if key == "./" or path.startswith(key)]
        p = [0, 0, 0, 0]
        for vals in below:
            q = profile(vals)
            p = [a + b for a, b in zip(p, q)]
        profs[key] = p
    return totals, folders, profs


def build(prj: Project, aggregate_times: int = 1):
    rl = ReportLab(prj)
    cb = rl.new(rl.Codebase, "/root")
    for path, lang, vals in FILES:
        ms = [rl.new(rl.Measurement, f"f{i}", rl.new(rl.Location, 1, 1), rl.new(rl.Location, 2, 1), v) for i, v in enumerate(vals)]
        rl.call(cb, "add_file", rl.new(rl.Entry, path, "sum", lang, sum(vals), ms))
    for _ in range(aggregate_times):
        rl.call(cb, "aggregate")
    f = cb.fields
    totals = {k: {a: v.fields[a] for a in ("files", "loc", "functions", "hard_to_maintain", "unmaintainable")} for k, v in f["totals"].items()}
    folders, profs = {}, {}
    for key, folder in f["tree"].items():
        ents = []
        for x in folder.fields["entries"]:
            ents.append((x.fields.get("path"), bool(rl.call(x, "is_folder"))))
        folders[key] = ents
        profs[key] = list(folder.fields["profile"])
    return totals, folders, profs, list(f["files"])
