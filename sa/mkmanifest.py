#!/venv/bin/python
"""Regenerates /verif/MANIFEST.json from the table below (kept in one place so
that claimed checks, levels and the not_applicable list never drift apart)."""
import json
import sys
from pathlib import Path

VERIF = Path(__file__).resolve().parent.parent
PY = "/venv/bin/python"

# property -> (category, technique, text, note, design_ref)
CLAIMS = {}


def claim(pid, category, technique, text, note, ref):
    CLAIMS[pid] = (category, technique, text, note, ref)


claim("C02", "proof",
      "abstract evaluation of every decision site over the integer regions induced by the literals it can compare with, of check_command's truth table through the command itself, of both findings renderers on a report with one function per boundary length, and of accumulator isolation (effects recorded, nothing executed)",
      "Every site that turns a function length into a category-dependent outcome (profiles, counters, colours, symbols, check "
      "list, findings lists) is evaluated from its source for one length per region and both sides of every cut - the cuts are all "
      "integer literals reachable from the site (for table-driven sites: the specification's cuts and every integer literal of the "
      "package), collected on every run - and compared with the partition 15/30/60 (thorough: every length 1..5000); check's exit "
      "status and whether it prints anything are an 18-row truth table obtained by interpreting check_command on a virtual file "
      "(plus three files, two with one base name); both print_findings list exactly the functions longer than 30, longest first; "
      "a new ScanTotals / LanguageTotals / Codebase does not see an earlier instance's counts. Finite case analysis, all obligations "
      "discharged = proof for the decision logic; rendering by Rich is not covered.",
      "Trusted: CPython ast, Python int comparison semantics, sa.absint's semantics of the Python subset, the virtual file system. "
      "Assumes lengths are ints >= 1 and that a site depends on the length only through comparisons with integer literals of the package.",
      "DESIGN.md 4/C02, 12.3, 13")

claim("C15", "proof",
      "symbolic evaluation of the pattern DSL + abstract interpretation of predicate classes + exhaustive product exploration (DFA state x depth class x token class)",
      "Every header and follow-up expression literal in codelimit/languages/*.py is extracted, its subset DFA built in "
      "the checker's model, and every reachable (state, balanced-depth class) configuration is crossed with every token "
      "class (kind x distinguished value); predicate semantics and the selection rule of Pattern.consume come from the "
      "repo's source on every run. The space is finite and enumerated completely (quick: depth classes 0,1,>=2; "
      "thorough additionally 0,1,2,>=3). The selection rule is observed by evaluating Pattern.consume on a state, transitions and an "
      "automaton built by the repo's own constructors, for all 32 two-transition scenarios, and again for all 256 pairs (another "
      "attempt over the same automaton consumed an item first): the outcome never depends on the earlier attempt.",
      "Trusted: pygments kind sub-trees are disjoint; the engine's construction has Thompson/subset shape (C13-R1/R3); "
      "CPython ast. Two equal stateful atoms in one expression are not modelled (ANALYSIS-ERROR, reported by C06).",
      "DESIGN.md 4/C15")

claim("C13", "other",
      "abstract interpretation of the engine's own source (expression_to_nfa, nfa_to_dfa, match, starts_with) on the repo's operator objects + language equivalence with a reference construction; visited-guard and eq/hash rules (AST)",
      "Bounded-exhaustive: for every pattern tree of a bounded family over {a, b} (quick 190 trees incl. targeted depth 3; thorough the "
      "full depth-3 family of 1752) the automaton built by the interpreted engine is deterministic and language-equivalent to the "
      "reference; match reports exactly the words of the language and starts_with the shortest non-empty prefix for all sequences up "
      "to length 3. Plus: every edge-following recursion carries a threaded visited guard; predicate equality evaluated on instances of "
      "every concrete predicate class (same arguments: equal and same hash, different arguments that accept() reads: unequal, never equal "
      "across classes, equal => same hash over the 40 states reached by accept() on up to three tokens; hash modelled injectively). "
      "Patterns beyond the family and stateful predicates (C15) are not covered by this check.",
      "Trusted: sa.absint's semantics of the Python subset; reference Thompson/subset construction of the checker.",
      "DESIGN.md 4/C13, 12.3")

claim("C14", "other",
      "exhaustive oracle exploration of find_all's control logic over abstract attempts (abstract interpretation of the source, execution-tree enumeration), find_all through the interpreted engine on concrete patterns and sequences, abstract interpretation of Balanced over its reachable states x token classes",
      "Bounded-exhaustive: find_all is evaluated on sequences of n symbolic items with abstract attempts - accepting / no outgoing "
      "transition / consumes the next item answered by an oracle, every combination enumerated - and reports exactly the matches of the "
      "reference semantics (start order, disjoint also at end of input, only accepting attempts that cannot continue, end = first item "
      "not consumed): n = 2 complete and n = 3 without dead ends (quick), n = 3 complete and n = 4 without dead ends (thorough); as a "
      "second view find_all is interpreted through the repo's own engine on non-nullable pattern trees x all sequences over {a, b} up to "
      "length 3 (thorough 4), also checking the recorded items. Balanced's transfer table from its source on every reachable "
      "(depth 0..3, flags) state; exclusive ends used as such by get_headers. Longer sequences are not decided.",
      "Trusted: sa.absint's semantics of the Python subset; the abstraction of Pattern by (accepting, dead end, consumes) per consumed count.",
      "DESIGN.md 4/C14, 12.3, 13")

claim("C06", "other",
      "abstract evaluation of Pattern.consume over all two-transition scenarios and of the engine under both set iteration orders; effect analysis over the call graph: set-iteration classification, global-state write inventory, nondeterministic-source reachability (AST)",
      "Evaluated: the outcome of Pattern.consume is independent of the order of the transition list, of what an earlier attempt over the "
      "same automaton did (256 scenario pairs), and every accept()/is_open() call reaches a per-attempt copy (32 scenarios, exhaustive); "
      "Configuration.load and generate_exclude_spec hand PathSpec the same pattern list under both set iteration orders; for 40 pattern trees the repo's expression_to_nfa / nfa_to_dfa interpreted "
      "with every set iterated in the opposite order give a deterministic automaton of the same language, and find_all the same "
      "matches. Structural on every function reachable from scan_file / scan_path / check_command (implicit calls through special "
      "methods, properties and functions passed as values included): set iterations outside the engine are order-insensitive, "
      "nothing writes module/class level state except the State id counter and memos whose key contains every input of the stored value "
      "(inputs by access path, through locals and control dependence; a key that is a function of an input - len, str - does not count; "
      "the dictionary must start empty and the key must not be constant) - the inventory covers module-level and class-body containers "
      "(also through self.X), mutable default arguments, local aliases and module-level one-shot iterators -, nondeterministic sources reach only uuid/timestamp, no "
      "expression has two equal stateful atoms.",
      "Trusted: pygments determinism; CHA over-approximates dynamic dispatch by method name. File listing order of os.walk is outside the property.",
      "DESIGN.md 4/C06, 13")

claim("C08", "other",
      "abstract interpretation of ReportWriter / ReportReader on a report built through the repo's constructors (json.dumps/loads real, everything else interpreted) + textual schema rules (f-string placeholder classification, key trees)",
      "Round trip evaluated: every string field carries a distinct tag plus quote, backslash, newline, tab, control, non-ASCII and U+2028 "
      "characters (and names with only a backslash, only a quote), every number is distinct; pretty and compact documents are valid JSON and parse to the same value; the re-read report "
      "equals the written one (version, identifier, root, repository, files in order with checksum, language, line total, measurements, "
      "totals, folder profiles); re-writing reproduces the document up to the timestamp; with/without repository and with a repository of "
      "empty strings, version string/null; two of the files share a checksum but differ in language and functions. "
      "Plus structural: restoration without fallback, no shared mutable parse result. String classes not represented are not covered.",
      "Trusted: json.dumps/json.loads; sa.absint's semantics of the Python subset.",
      "DESIGN.md 4/C08, 12.3")

claim("C09", "other",
      "abstract interpretation of scan_path with a cached report on a virtual file system, of _read_cached_report / read_report on cache documents; who-may-call table for the reader (AST)",
      "Partial: scan_path evaluated with a cached report reuses exactly the entry stored under the file's own root-relative path whose "
      "checksum equals the file's (the file is not read), analyses every other file again (changed checksum; same bytes recorded under "
      "another path), drops entries of files that are gone or excluded and leaves the cached object untouched; the cache reader hands "
      "out a report only for a document of the running version (another version, a patch release, trailing blank, no key, null, not "
      "JSON, absent file: none); report/findings read only through the version-gated reader. Equality of cached and fresh reports over "
      "arbitrary edit histories is decided only through these single-step rules (plus C10-R5's scan histories), not in general.",
      "Trusted: md5 of file bytes identifies content (the hash is a stub in the model); the virtual file system; sa.absint.",
      "DESIGN.md 4/C09, 13")

claim("C10", "other",
      "abstract interpretation of scan_command end to end on a virtual file system over the crash states of its own recorded writes, structural faults of the cache document and the closure of reached states; must-handle and write-discipline rules (AST)",
      "Bounded-exhaustive on a three-file tree: the whole command (cache read, walk, reuse, report, cache write) is interpreted; the "
      "file-system operations of a first scan and of a re-scan are recorded and every state an interruption can leave is generated from "
      "them - after each operation, each write cut after every character (quick: every seventh offset and both ends) - plus structural "
      "faults: empty, not JSON, other JSON types, undecodable bytes, every key of every level missing, every value replaced by null / a "
      "string or number / a list / an object, every integer replaced by true, 1.0 and its float (equal under ==, other JSON type), directory without document, without or with empty marker files; from each state, and "
      "from every state reached (closure = interleavings of faults and scans), the next scan completes, writes exactly the fresh-scan "
      "document and leaves document and both markers. Two genuine defects found by this rule were repaired (d97359d, 2d84a53). Larger "
      "trees, OSError on the read and concurrent scans are not covered. What a scan leaves in the process for a second scan of the same "
      "process is read off the effect inventory (no module-level / class-level state, mutable default or one-shot iterator written).",
      "Trusted: the virtual file system's model of pathlib (write_text truncates, mkdir, replace); json.loads/dumps; the measuring stub; sa.absint.",
      "DESIGN.md 4/C10, 13")

claim("C11", "other",
      "abstract interpretation of scan_path and generate_exclude_spec on a virtual tree with one representative per reason of the property; who-may-call table (AST)",
      "Selection evaluated: on a virtual tree with hidden directories at two depths, hidden file, excluded file at the top and below, "
      "excluded directory, name without lexer, lexer of an unsupported language, private-looking and extension-less names and supported "
      "files at three depths, exactly the qualifying files reach the analysing function, each once, for the root given absolute, "
      "relative, from the parent and with a '..' segment; the exclusion test receives root-relative paths and the spec of that root; the "
      "spec is built, in order, from the built-in exclusions, the configured ones and <root>/.gitignore, nothing accumulating between "
      "calls; entries keyed by root-relative path with the file's checksum and language. gitignore semantics and the name->lexer map "
      "are trusted.",
      "Trusted: the virtual file system's model of os.walk (in-place pruning honoured); pathspec; pygments lexer lookup; sa.absint.",
      "DESIGN.md 4/C11, 13")

claim("C03", "other",
      "abstract interpretation of scan_path / check_command on a virtual file system with undecodable files (totality), of bracket matching on all short sequences, exhaustive ambiguity exploration (C15 engine); per-mechanism must-guard rules as the structural layer (AST + call graph)",
      "Partial: scan and check evaluated to the end on a virtual tree in which every file's bytes are invalid UTF-8 and which holds names "
      "without lexer, an unsupported language, hidden and excluded entries, reached as root, relative root, sub-directory, file inside "
      "and outside the working directory (a sibling whose name extends the working directory's): no exception escapes; block matching "
      "raises nothing on any sequence over {open, close, other} up to length 4; every header pattern has a mandatory Name atom; the "
      "ambiguity raise is unreachable (exhaustive, as C15, including attempts that follow another attempt on the same automaton); every while loop has a variant and every recursion is admitted or guarded. "
      "That no other subscript/.index in the language modules raises on real token streams is NOT decided.",
      "Trusted: the virtual file system's model of pathlib / os.walk / open; latin-1 is total; pygments lexers terminate; sa.absint.",
      "DESIGN.md 4/C03, 13")

claim("C07", "other",
      "symbolic effects of the accumulators (linear forms), abstract interpretation of Codebase.add_file / aggregate on a tree built through the repo's constructors (reference comparison), instance-isolation of the accumulators, aggregation-order and stale-memo rules (AST)",
      "Agreement of the redundant views: LanguageTotals.add evaluated symbolically (files += 1, loc += entry.loc, functions += len(ms), "
      "hard/unmaintainable += count-profile cells 2/3), ScanTotals.total_X on two generic language totals, merge_profiles on symbolic "
      "cells, one bucket per function (C02's evaluation); a codebase built through add_file from files at several depths (one-character "
      "folder, a folder sorting before './', folders without files, names in decomposed Unicode form) and aggregated: language totals, folder registration and every "
      "folder profile equal the reference; a new ScanTotals / LanguageTotals / Codebase is unaffected by an earlier filled instance "
      "(defaults and class bodies evaluated once, as Python does). Path strings beyond these classes are not decided.",
      "Trusted: CPython ast; sa.absint; C02-R1 category boundaries.",
      "DESIGN.md 4/C07, 13")

claim("C12", "other",
      "sibling cross-check by evaluation: scan_path and check_command interpreted on the same virtual tree and on the same undecodable file; what each hands to lex / scan_file / CheckResult.add is compared",
      "Evaluated: reached through the root or a sub-directory, relative or absolute, check analyses exactly the files scan analyses below "
      "that directory; named as a file, every file scan analyses is checked and every excluded or unsupported one is not; for the same "
      "file both hand lex the same lexer, decoded text and filter_comments=False and hand scan_file lex's result and the registered "
      "language; check lists exactly the measured functions longer than 30 lines, longest first, as the objects scan_file returned; "
      "format_measurement prints path, line, column, length and name of its measurement and hands the path to no markup parser. Printed text equality at run time is not decided.",
      "Trusted: the virtual file system; sa.absint.",
      "DESIGN.md 4/C12, 13")

claim("C18", "other",
      "abstract interpretation of the overview and findings renderers on tagged reports (rich calls recorded as effects, nothing executed); first-generation role/field rules as fallback",
      "Evaluated: rows are the current report's languages by lines of code; every cell shows the figure named by its column header; "
      "figures of a language present in both reports and the totals are annotated with current - previous, signed, exactly when they "
      "differ (equal, larger, smaller, 0->n, n->0, 0->0; a language whose previous figures are all zero but its files); text and Markdown "
      "agree cell by cell; with, without and with an empty comparison report, also after another ScanTotals was filled in the same "
      "process; the renderers and the report / findings commands write no process-wide state (effect inventory as in C06); a second "
      "listing of one report object shows what the first would have; findings: threshold 30, all when full or at most 10, else the first 10 and N - 10 omitted, N = 9..12, with and "
      "without repository. Rich layout and locale grouping are not decided.",
      "Trusted: sa.absint's semantics of the Python subset and of format specs (Python's own format()).",
      "DESIGN.md 4/C18, 12.3")

claim("C19", "other",
      "symbolic evaluation of quality_profile_percentage (linear identity over uninterpreted rounding terms), evaluated renderers for the verdict table, form rules for rounding (AST + abstract interpretation)",
      "Decided: the four percentages sum to 100 identically; each rounded term comes from its own profile cell; both summaries and the "
      "table show easy+verbose, hard-to-maintain, unmaintainable and choose the verdict by unmaintainable > 0, else hard-to-maintain > 20 "
      "(8 boundary pairs, both renderers agree); the all-zero profile divides by nothing; the rounded-up terms have the form "
      "ceil(S - c), c <= 0.001; range: the remainder of independently rounded-up terms can be negative - a genuine defect of today's "
      "tree, listed as a known finding; quality_profile() evaluated on a code base follows it when an entry is replaced under the same "
      "path, a file is added, or a second report is made; the summary renderers write no process-wide state. Accuracy within two points "
      "is not decided.",
      "Trusted: CPython ast; sa.absint; ceil/round semantics for the recognised forms.",
      "DESIGN.md 4/C19, 12.3")

claim("C01", "other",
      "abstract interpretation of the measuring pipeline (scan_file and everything below it, the language object a stub) on a token program with a reference result; evaluated bracket matching; boundary-condition rules on the indentation scan (AST terms)",
      "Bounded: scan_file is interpreted from source - scope construction, pairing of headers and blocks, marker filter, nesting, "
      "unfolding, count_lines, Measurement construction - on a token program with a nested function followed by a statement of its "
      "parent, a one-line function, a suppressed function, comments inside and between bodies, a keyword before the name, deeper "
      "nesting and a multi-line header; names, spans, lengths and order equal the reference, with and without nested functions, with "
      "extra comments, with two block-opening lines pushed 5000 columns to the right, with headers returned out of source order. Brace matching evaluated on all sequences over {open, close, other} "
      "up to length 4; get_blocks interpreted on a nested brace text; the Python indentation scan interpreted on ten token programs "
      "(nested functions followed by more lines at the end of a file included); measuring leaves the tokens' positions untouched. That exactly the functions of each real grammar are "
      "discovered (the seven extract_headers / extract_blocks on real pygments output) is NOT decided.",
      "Trusted: sa.absint's semantics of the Python subset; the stub language stands for 'headers and blocks were found correctly'.",
      "DESIGN.md 4/C01, 13")

claim("C04", "other",
      "abstract interpretation of filter_tokens / Token.is_whitespace / Token.is_comment over kind x text classes, and of the measuring pipeline with and without extra comments (reference comparison)",
      "Partial: the filter's keep/drop table over 15 token-kind classes x 6 text classes (blanks, tabs, line feeds, carriage returns, "
      "form feeds and vertical tabs are blank) (evaluated on instances of the repo's Token with "
      "pygments types) equals the specification; scan_file interpreted on a token program gives the same names, spans and lengths when "
      "comment tokens are added inside bodies, between functions and inside headers, and when lines are pushed 5000 columns to the right "
      "by leading whitespace (the comment-free list is what every consumer of "
      "scope indices works on - a consequence of the evaluated pipeline, not a separate provenance rule any more). What pygments emits "
      "after an insertion is NOT decided.",
      "Trusted: pygments token hierarchy facts (Whitespace under Text, Comment.* under Comment, empty Text tokens exist); str.isspace/strip semantics; sa.absint.",
      "DESIGN.md 4/C04, 13")

claim("C05", "other",
      "abstract interpretation of the scan path, the cache path and the reader for loc = sum of lengths; of the measuring pipeline for order, placement and spans; symbolic evaluation of the sort key; name-token rule (AST)",
      "Partial: every entry produced by the interpreted scan_path (with and without a cached report: reused and re-analysed entries) and "
      "every entry read back by the interpreted reader has loc = sum of the lengths of the measurements stored with it; sort_headers "
      "orders by (line, column) of the header's first token in the direction of its reverse parameter (key evaluated on an open term); "
      "the measuring pipeline, evaluated on a token program with headers returned out of order, lists functions in source order, each "
      "once, parent before nested; get_headers interpreted through the engine names each header by the first name token of its own match "
      "with the match's (start, exclusive end). Numeric bounds on real sources are NOT decided.",
      "Trusted: sorted/list.reverse semantics; CPython ast; sa.absint; the virtual file system.",
      "DESIGN.md 4/C05, 13")

claim("C16", "other",
      "abstract evaluation of lex at the pygments boundary (the lexer's tuples supplied: what is kept, in which order, with which text) and with a consistent text / newline table (position formula on all pieces and breakpoints); line-convention rule (AST)",
      "Partial: of the lexer's tuples (also for a source without any line break; comments of four kinds, one with surrounding blanks, blank / empty / multi-line Text, keyword, "
      "name, punctuation, strings, operator, other) lex returns the code tokens unchanged, plus the comments exactly when "
      "filter_comments is false, in the lexer's order (plus the filter's abstract kind x text table); position = (newlines strictly "
      "before the offset + 1, offset - offset after the preceding newline + 1) on interior and boundary points of every piece, with, "
      "without, adjacent and leading newlines (thorough: every table of up to three newlines among offsets 0..6 x every offset 0..8) - "
      "in particular a token at a newline's offset stays on the line that newline ends; the lexer is modelled at its documented "
      "interface (get_tokens_unprocessed; get_tokens strips leading/trailing newlines); a single line-break convention ('\\n' only, "
      "no splitlines). Assumes the position depends on the offset only through comparisons with the newline table and linear arithmetic.",
      "Trusted: pygments yields increasing non-overlapping offsets and only '\\n' ends a line; sa.absint.",
      "DESIGN.md 4/C16, 12.3, 13")

claim("C17", "other",
      "abstract evaluation of the marker predicate over classes of comment text x token kinds; dataflow location of the marker filter (membership test, element, polarity, position) (AST)",
      "Partial: a comment qualifies exactly when its text, after the leader (#, //, /*), optional spaces and case-insensitively, begins "
      "with 'nocl' - decided on 22 text classes (spacing, case, marker later in the text, a later leader+marker) x comment kinds, and "
      "non-comment tokens never qualify; a scope is dropped iff the line of its header's name token is a marker line; markers come from "
      "the raw tokens; the filter works on the paired scopes and feeds nesting. That neighbours keep name, span and length inherits "
      "C01's undecided main clause.",
      "Trusted: str / re semantics (Python's own); sa.absint.",
      "DESIGN.md 4/C17, 12.3")

NOT_IMPLEMENTED_YET = "check under construction in this session (see DESIGN.md section 4 for the planned rules)"


def main():
    props = [json.loads(l)["id"] for l in (VERIF / "properties.jsonl").read_text().splitlines() if l.strip()]
    checks = []
    for pid in props:
        if pid not in CLAIMS:
            continue
        cat, tech, text, note, ref = CLAIMS[pid]
        checks.append({
            "property_id": pid,
            "quick_cmd": f"{PY} sa/check.py {pid} --tier quick",
            "thorough_cmd": f"{PY} sa/check.py {pid} --tier thorough",
            "evidence_file": f"/verif/evidence/{pid}.json",
            "replay_cmd_template": "cat {path}",
            "engine": "sa",
            "level_claimed": {"category": cat, "text": text, "design_ref": ref},
            "level_note": note,
            "technique": tech,
        })
    na = [{"property_id": p, "reason": NA.get(p, NOT_IMPLEMENTED_YET)} for p in props if p not in CLAIMS]
    manifest = {
        "version": 1,
        "setup_cmd": f"{PY} sa/setup_check.py",
        "hooks": {
            "guard": "GETCODELIMIT_CODELIMIT_VERIF",
            "enable": "none needed: the checks are static analyses of /repo's source and require no instrumentation",
            "baseline_off_cmd": "cd /repo && /venv/bin/python -m pytest -ra -q -p no:cacheprovider --timeout=900 "
                                "--continue-on-collection-errors",
            "source_commits": [],
            "add_only": True,
        },
        "engines": [{
            "name": "sa",
            "path": "/verif/sa",
            "serves_properties": sorted(CLAIMS),
            "kind_free_text": "repository-specific static analysis on CPython ASTs: project index + call graph (CHA), helper "
                              "inlining / normalisation into views, guard/dominance walker, def-use provenance, order typestate, "
                              "an abstract interpreter for the repo's Python subset (symbolic objects, linear forms, uninterpreted "
                              "terms, oracle-enumerated branches, external calls recorded as effects) used to evaluate decision "
                              "sites, accumulators, the regex engine, the matcher's control logic, the report writer/reader and "
                              "the renderers over stated finite abstract domains; pattern-DSL extraction with own NFA/DFA product "
                              "exploration; JSON writer/reader schema extraction",
        }],
        "checks": checks,
        "not_applicable": na,
        "notes": "Static analysis only; nothing from /repo is imported or executed by CPython in any check (sources are parsed and, "
                 "where a rule asks for meaning, interpreted abstractly by sa/absint.py; DESIGN.md section 12). exit 2 = "
                 "ANALYSIS-ERROR (no verdict). Known findings: /verif/known_findings.json.",
    }
    (VERIF / "MANIFEST.json").write_text(json.dumps(manifest, indent=1) + "\n")
    print(f"MANIFEST.json: {len(checks)} checks, {len(na)} not_applicable")


NA = {}

if __name__ == "__main__":
    sys.exit(main())
