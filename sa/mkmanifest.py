#!/venv/bin/python
"""Regenerates /verif/MANIFEST.json from the table below (kept in one place so
that claimed checks, levels and the not_applicable list never drift apart)."""
import json
import sys
from pathlib import Path

VERIF = Path(__file__).resolve().parent.parent
PY = "/venv/bin/python"

# property -> (category, technique, text, note, design_ref)
CLAIMS = {}


def claim(pid, category, technique, text, note, ref):
    CLAIMS[pid] = (category, technique, text, note, ref)


claim("C02", "proof",
      "abstract evaluation of every decision site over the integer regions induced by the literals it can compare with (effects recorded, nothing executed) + conditional constant propagation + enumerated truth tables",
      "Every site that turns a function length into a category-dependent outcome (profiles, counters, colours, symbols, check "
      "list, findings list) is evaluated from its source for one length per region and both sides of every cut - the cuts are all "
      "integer literals reachable from the site, collected on every run - and compared with the partition 15/30/60 (thorough: every "
      "length 1..5000); check's exit status and quiet/report decision are an enumerated 18-row truth table, the summary count a 4-row "
      "table. Finite case analysis, all obligations discharged = proof for the decision logic; rendering by Rich is not covered.",
      "Trusted: CPython ast, Python int comparison semantics, sa.core call resolution, sa.absint's semantics of the Python subset. "
      "Assumes lengths are ints >= 1 and that a site depends on the length only through comparisons with reachable integer literals.",
      "DESIGN.md 4/C02, 12.3")

claim("C15", "proof",
      "symbolic evaluation of the pattern DSL + abstract interpretation of predicate classes + exhaustive product exploration (DFA state x depth class x token class)",
      "Every header and follow-up expression literal in codelimit/languages/*.py is extracted, its subset DFA built in "
      "the checker's model, and every reachable (state, balanced-depth class) configuration is crossed with every token "
      "class (kind x distinguished value); predicate semantics and the selection rule of Pattern.consume come from the "
      "repo's source on every run. The space is finite and enumerated completely (quick: depth classes 0,1,>=2; "
      "thorough additionally 0,1,2,>=3).",
      "Trusted: pygments kind sub-trees are disjoint; the engine's construction has Thompson/subset shape (C13-R1/R3); "
      "CPython ast. Two equal stateful atoms in one expression are not modelled (ANALYSIS-ERROR, reported by C06).",
      "DESIGN.md 4/C15")

claim("C13", "other",
      "abstract interpretation of the engine's own source (expression_to_nfa, nfa_to_dfa, match, starts_with) on the repo's operator objects + language equivalence with a reference construction; visited-guard and eq/hash rules (AST)",
      "Bounded-exhaustive: for every pattern tree of a bounded family over {a, b} (quick 190 trees incl. targeted depth 3; thorough the "
      "full depth-3 family of 1752) the automaton built by the interpreted engine is deterministic and language-equivalent to the "
      "reference; match reports exactly the words of the language and starts_with the shortest non-empty prefix for all sequences up "
      "to length 3. Plus: every edge-following recursion carries a threaded visited guard; predicate __eq__/__hash__ coherence. "
      "Patterns beyond the family and stateful predicates (C15) are not covered by this check.",
      "Trusted: sa.absint's semantics of the Python subset; reference Thompson/subset construction of the checker.",
      "DESIGN.md 4/C13, 12.3")

claim("C14", "other",
      "exhaustive oracle exploration of find_all's control logic over abstract attempts (abstract interpretation of the source, execution-tree enumeration) + abstract interpretation of Balanced over depth x token classes",
      "Bounded-exhaustive: find_all is evaluated on sequences of n symbolic items with abstract attempts - accepting / no outgoing "
      "transition / consumes the next item answered by an oracle, every combination enumerated - and reports exactly the matches of the "
      "reference semantics (start order, disjoint also at end of input, only accepting attempts that cannot continue, end = first item "
      "not consumed): n = 2 complete and n = 3 without dead ends (quick), n = 3 complete (thorough). Balanced's transfer table from its "
      "source for depths 0..3; exclusive ends used as such by get_headers. Longer sequences and the language-level clauses are not decided.",
      "Trusted: sa.absint's semantics of the Python subset; the abstraction of Pattern by (accepting, dead end, consumes) per consumed count.",
      "DESIGN.md 4/C14, 12.3")

claim("C06", "other",
      "effect analysis over the CHA call graph: set-iteration classification, predicate-receiver provenance, global-state write inventory, nondeterministic-source reachability (AST)",
      "Effect property decided structurally on every function reachable from scan_file / scan_path / check_command: every "
      "iteration over a set is order-insensitive (one admitted site, conditional on consume examining all transitions), "
      "stateful predicates are only used through per-attempt deep copies, nothing writes module/class level state except the "
      "State id counter, nondeterministic sources reach only uuid/timestamp, no expression has two equal stateful atoms.",
      "Trusted: pygments determinism; CHA over-approximates dynamic dispatch by method name. File listing order of os.walk is outside the property.",
      "DESIGN.md 4/C06")

claim("C08", "other",
      "abstract interpretation of ReportWriter / ReportReader on a report built through the repo's constructors (json.dumps/loads real, everything else interpreted) + textual schema rules (f-string placeholder classification, key trees)",
      "Round trip evaluated: every string field carries a distinct tag plus quote, backslash, newline, tab, control, non-ASCII and U+2028 "
      "characters, every number is distinct; pretty and compact documents are valid JSON and parse to the same value; the re-read report "
      "equals the written one (version, identifier, root, repository, files in order with checksum, language, line total, measurements, "
      "totals, folder profiles); re-writing reproduces the document up to the timestamp; with/without repository, version string/null. "
      "Plus structural: restoration without fallback, no shared mutable parse result. String classes not represented are not covered.",
      "Trusted: json.dumps/json.loads; sa.absint's semantics of the Python subset.",
      "DESIGN.md 4/C08, 12.3")

claim("C09", "other",
      "guard dominance + def-use provenance of the cached entry, version-guard effectiveness, who-may-call table (AST)",
      "Partial: the reuse discipline the equality rests on - cached entry looked up by the file's own root-relative key only, reuse "
      "dominated by the checksum comparison with the scanned file's bytes, effective version guard (the compared field is restored by "
      "the reader or read from the document), version refusal in report/findings, result rebuilt from the walk. Equality of cached and "
      "fresh reports over edit histories is NOT decided.",
      "Trusted: md5 of file bytes identifies content; CPython ast.",
      "DESIGN.md 4/C09")

claim("C10", "other",
      "must-handle rule with an exception catalogue computed from the reader's constructs, resolved through callers; all-or-nothing reader; write-idempotence rules (AST)",
      "Mechanism: every cache read/parse on the scan path is enclosed by a handler covering the catalogue of exceptions those operations "
      "raise on arbitrary bytes and continues as 'no cache'; the reader has no swallowing handler (a rejected cache cannot taint); the "
      "cache write is unconditional, whole-document, truncating (no 'x'/'a'), directory creation idempotent. Byte equality with the fresh "
      "report is not decided.",
      "Trusted: exception behaviour of json.loads / subscripting / text-mode reads; write_text truncates.",
      "DESIGN.md 4/C10")

claim("C11", "other",
      "walker analysis: in-place pruning, dot-predicate folding on name classes, complete guard set between loop head and analysing call, provenance, who-may-call (AST)",
      "Selection logic decided structurally: directories pruned in place and files filtered by exactly 'starts with a dot'; the only "
      "reasons a file is skipped are is_excluded(root-relative path, generate_exclude_spec(root)), ClassNotFound, unsupported language; "
      "the spec has all three sources, accumulated not rebound; entries keyed by relpath with checksum of bytes; analysing functions "
      "called only from guarded sites. gitignore semantics and the name->lexer map are trusted.",
      "Trusted: os.walk honours in-place edits only; pathspec; pygments lexer lookup.",
      "DESIGN.md 4/C11")

claim("C03", "other",
      "per-mechanism must-guard / dominance rules, mandatory-atom analysis of pattern trees, exhaustive ambiguity exploration (C15 engine), loop-variant and recursion tables (AST + call graph)",
      "Partial: one exact rule per failure mechanism named by the property - decoding fallback must be total, lexer lookup and "
      "registry access guarded, an exclusive end never subscripts without a length bound, relative_to handled or provably contained, "
      "every header pattern has a mandatory Name atom, the ambiguity raise is unreachable (exhaustive, same exploration as C15), every "
      "while loop has a variant and every recursion is admitted or guarded. That no other subscript/.index raises is NOT decided.",
      "Trusted: exception behaviour of open/relative_to/get_lexer_for_filename; latin-1 is total; pygments lexers terminate.",
      "DESIGN.md 4/C03")

claim("C07", "other",
      "symbolic effects of the accumulators (linear forms), abstract evaluation of the profile functions, guard dominance for tree maintenance, aggregation-order and stale-memo rules (AST)",
      "Agreement of the redundant views: LanguageTotals.add evaluated symbolically (files += 1, loc += entry.loc, functions += len(ms), "
      "hard/unmaintainable += count-profile cells 2/3), ScanTotals.total_X on two generic language totals, merge_profiles on symbolic "
      "cells, one bucket per function (C02's evaluation), add_file/add_folder guards, aggregate computed children-first and applied "
      "exactly once after the last add_file, no memoised attribute left stale by a mutator. Unusual path strings are not decided.",
      "Trusted: CPython ast; sa.absint; C02-R1 category boundaries.",
      "DESIGN.md 4/C07, 12.3")

claim("C12", "other",
      "sibling cross-check: pipeline signatures (walk, exclusion, lexer gate, decoding, lex constant, measuring, post-processing) extracted by def-use and compared (AST)",
      "The two pipelines are compared component by component: hidden predicate, exclusion call and the provenance of its arguments for "
      "directory walks and file arguments, ClassNotFound handling and language gate, decoding function, filter_comments constant, "
      "tokens and language handed to scan_file, and that measurements are only filtered/sorted/printed. Printed text equality at run time is not decided.",
      "Trusted: CPython ast; os.walk semantics.",
      "DESIGN.md 4/C12")

claim("C18", "other",
      "abstract interpretation of the overview and findings renderers on tagged reports (rich calls recorded as effects, nothing executed); first-generation role/field rules as fallback",
      "Evaluated: rows are the current report's languages by lines of code; every cell shows the figure named by its column header; "
      "figures of a language present in both reports and the totals are annotated with current - previous, signed, exactly when they "
      "differ (equal, larger, smaller, 0->n, n->0, 0->0); text and Markdown agree cell by cell; with, without and with an empty "
      "comparison report; findings: threshold 30, all when full or at most 10, else the first 10 and N - 10 omitted, N = 9..12, with and "
      "without repository. Rich layout and locale grouping are not decided.",
      "Trusted: sa.absint's semantics of the Python subset and of format specs (Python's own format()).",
      "DESIGN.md 4/C18, 12.3")

claim("C19", "other",
      "symbolic evaluation of quality_profile_percentage (linear identity over uninterpreted rounding terms), evaluated renderers for the verdict table, form rules for rounding (AST + abstract interpretation)",
      "Decided: the four percentages sum to 100 identically; each rounded term comes from its own profile cell; both summaries and the "
      "table show easy+verbose, hard-to-maintain, unmaintainable and choose the verdict by unmaintainable > 0, else hard-to-maintain > 20 "
      "(8 boundary pairs, both renderers agree); the all-zero profile divides by nothing; the rounded-up terms have the form "
      "ceil(S - c), c <= 0.001; range: the remainder of independently rounded-up terms can be negative - a genuine defect of today's "
      "tree, listed as a known finding. Accuracy within two points is not decided.",
      "Trusted: CPython ast; sa.absint; ceil/round semantics for the recognised forms.",
      "DESIGN.md 4/C19, 12.3")

claim("C01", "other",
      "def-use provenance of token lists, half-open interval comparison rule, provenance of the Measurement's arguments (AST)",
      "Partial: three structural necessary conditions of the span and length clauses - every consumer of scope indices works on the same "
      "comment-free list; nested functions are excluded with the half-open comparisons for exclusive ends; the span is built from the "
      "header's first token and the last body token (block.end - 1) plus its text length, the name from the header, the length from "
      "count_lines. That exactly the functions of a canonical grammar are discovered is algorithmic and NOT decided.",
      "Trusted: TokenRange ends are exclusive (established from their constructors); CPython ast.",
      "DESIGN.md 4/C01")

claim("C04", "other",
      "def-use provenance to filter_tokens(raw) + abstract interpretation of filter_tokens / Token.is_whitespace / Token.is_comment over kind x text classes (AST)",
      "Partial: codelimit's own three places where a comment or blank line could count - all consumers work on filter_tokens(raw) with default "
      "flags; the filter's keep/drop table over 15 token-kind classes x 4 text classes is computed from the source and compared with the "
      "specification; count_lines is the number of distinct token start lines. What pygments emits after an insertion is NOT decided.",
      "Trusted: pygments token hierarchy facts (Whitespace under Text, Comment.* under Comment, empty Text tokens exist); str.isspace/strip semantics.",
      "DESIGN.md 4/C04")

claim("C05", "other",
      "symbolic evaluation of the sort key, order typestate dataflow through construction / filtering / folding, emission order of the tree walk, def-use pairing of loc with measurements (AST)",
      "Partial: file total = sum of the lengths stored with it at the three construction sites; sort_headers orders by (line, column) of "
      "the header's first token in the direction of its reverse parameter (key evaluated on an open term: lambdas, key factories, negated "
      "keys); the order typestate is 'ascending position' at the return of scope construction and through build_scopes; single placement "
      "in fold_scopes; pre-order unfolding; name token from the header's own match; span construction (shared with C01). Numeric bounds "
      "are NOT decided.",
      "Trusted: sorted/list.reverse semantics; CPython ast; sa.absint.",
      "DESIGN.md 4/C05, 12.3")

claim("C16", "other",
      "abstract evaluation of lex with the lexer's tuples and the newline table supplied (position formula on all pieces and breakpoints, filter flags), line-convention and order rules (AST)",
      "Partial: what lex keeps (filter_tokens flags per filter_comments, plus the filter's abstract table), lexer order preserved, "
      "position = (newlines strictly before the offset + 1, offset - offset after the preceding newline + 1) on interior and boundary "
      "points of every piece, with, without, adjacent and leading newlines - in particular a token at a newline's offset stays on the "
      "line that newline ends; a single line-break convention ('\\n' only, no splitlines). Assumes the position depends on the offset "
      "only through comparisons with the newline table and linear arithmetic.",
      "Trusted: pygments yields increasing non-overlapping offsets and only '\\n' ends a line; sa.absint.",
      "DESIGN.md 4/C16, 12.3")

claim("C17", "other",
      "abstract evaluation of the marker predicate over classes of comment text x token kinds; dataflow location of the marker filter (membership test, element, polarity, position) (AST)",
      "Partial: a comment qualifies exactly when its text, after the leader (#, //, /*), optional spaces and case-insensitively, begins "
      "with 'nocl' - decided on 22 text classes (spacing, case, marker later in the text, a later leader+marker) x comment kinds, and "
      "non-comment tokens never qualify; a scope is dropped iff the line of its header's name token is a marker line; markers come from "
      "the raw tokens; the filter works on the paired scopes and feeds nesting. That neighbours keep name, span and length inherits "
      "C01's undecided main clause.",
      "Trusted: str / re semantics (Python's own); sa.absint.",
      "DESIGN.md 4/C17, 12.3")

NOT_IMPLEMENTED_YET = "check under construction in this session (see DESIGN.md section 4 for the planned rules)"


def main():
    props = [json.loads(l)["id"] for l in (VERIF / "properties.jsonl").read_text().splitlines() if l.strip()]
    checks = []
    for pid in props:
        if pid not in CLAIMS:
            continue
        cat, tech, text, note, ref = CLAIMS[pid]
        checks.append({
            "property_id": pid,
            "quick_cmd": f"{PY} sa/check.py {pid} --tier quick",
            "thorough_cmd": f"{PY} sa/check.py {pid} --tier thorough",
            "evidence_file": f"/verif/evidence/{pid}.json",
            "replay_cmd_template": "cat {path}",
            "engine": "sa",
            "level_claimed": {"category": cat, "text": text, "design_ref": ref},
            "level_note": note,
            "technique": tech,
        })
    na = [{"property_id": p, "reason": NA.get(p, NOT_IMPLEMENTED_YET)} for p in props if p not in CLAIMS]
    manifest = {
        "version": 1,
        "setup_cmd": f"{PY} sa/setup_check.py",
        "hooks": {
            "guard": "GETCODELIMIT_CODELIMIT_VERIF",
            "enable": "none needed: the checks are static analyses of /repo's source and require no instrumentation",
            "baseline_off_cmd": "cd /repo && /venv/bin/python -m pytest -ra -q -p no:cacheprovider --timeout=900 "
                                "--continue-on-collection-errors",
            "source_commits": [],
            "add_only": True,
        },
        "engines": [{
            "name": "sa",
            "path": "/verif/sa",
            "serves_properties": sorted(CLAIMS),
            "kind_free_text": "repository-specific static analysis on CPython ASTs: project index + call graph (CHA), helper "
                              "inlining / normalisation into views, guard/dominance walker, def-use provenance, order typestate, "
                              "an abstract interpreter for the repo's Python subset (symbolic objects, linear forms, uninterpreted "
                              "terms, oracle-enumerated branches, external calls recorded as effects) used to evaluate decision "
                              "sites, accumulators, the regex engine, the matcher's control logic, the report writer/reader and "
                              "the renderers over stated finite abstract domains; pattern-DSL extraction with own NFA/DFA product "
                              "exploration; JSON writer/reader schema extraction",
        }],
        "checks": checks,
        "not_applicable": na,
        "notes": "Static analysis only; nothing from /repo is imported or executed by CPython in any check (sources are parsed and, "
                 "where a rule asks for meaning, interpreted abstractly by sa/absint.py; DESIGN.md section 12). exit 2 = "
                 "ANALYSIS-ERROR (no verdict). Known findings: /verif/known_findings.json.",
    }
    (VERIF / "MANIFEST.json").write_text(json.dumps(manifest, indent=1) + "\n")
    print(f"MANIFEST.json: {len(checks)} checks, {len(na)} not_applicable")


NA = {}

if __name__ == "__main__":
    sys.exit(main())
