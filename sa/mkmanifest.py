#!/venv/bin/python
"""Regenerates /verif/MANIFEST.json from the table below (kept in one place so
that claimed checks, levels and the not_applicable list never drift apart)."""
import json
import sys
from pathlib import Path

VERIF = Path(__file__).resolve().parent.parent
PY = "/venv/bin/python"

# property -> (category, technique, text, note, design_ref)
CLAIMS = {}


def claim(pid, category, technique, text, note, ref):
    CLAIMS[pid] = (category, technique, text, note, ref)


claim("C02", "proof",
      "conditional constant propagation over integer regions + exhaustive region/outcome comparison (AST)",
      "Every site that turns a function length into a category-dependent outcome (profiles, counters, colours, "
      "symbols, check list, findings list) is folded over all integer regions induced by the literals it compares "
      "with and compared with the partition 15/30/60; check's exit status and quiet/report decision are an "
      "enumerated 18-row truth table. Finite case analysis, all obligations discharged = proof for the decision "
      "logic; rendering by Rich is not covered.",
      "Trusted: CPython ast, Python int comparison semantics, sa.core call resolution. Assumes lengths are ints >= 1.",
      "DESIGN.md 4/C02")

claim("C15", "proof",
      "symbolic evaluation of the pattern DSL + abstract interpretation of predicate classes + exhaustive product exploration (DFA state x depth class x token class)",
      "Every header and follow-up expression literal in codelimit/languages/*.py is extracted, its subset DFA built in "
      "the checker's model, and every reachable (state, balanced-depth class) configuration is crossed with every token "
      "class (kind x distinguished value); predicate semantics and the selection rule of Pattern.consume come from the "
      "repo's source on every run. The space is finite and enumerated completely (quick: depth classes 0,1,>=2; "
      "thorough additionally 0,1,2,>=3).",
      "Trusted: pygments kind sub-trees are disjoint; the engine's construction has Thompson/subset shape (C13-R1/R3); "
      "CPython ast. Two equal stateful atoms in one expression are not modelled (ANALYSIS-ERROR, reported by C06).",
      "DESIGN.md 4/C15")

claim("C13", "other",
      "symbolic interpretation of Operator.apply bodies + DFA language equivalence; guard/dominance rules on the call graph (AST)",
      "Partial, structural: each operator's wiring is interpreted symbolically and its language compared with the "
      "operator's regular expression by DFA equivalence (exact for the wiring); every edge-following recursion or "
      "worklist in the engine must carry a threaded visited guard (termination of construction on epsilon cycles); "
      "predicate __eq__/__hash__ coherence; shape of subset construction and of match/starts_with. Matching "
      "semantics on inputs (match <=> membership) is NOT decided by this family.",
      "Trusted: Thompson invariants of sub-automata (fresh start/accepting states), CPython ast.",
      "DESIGN.md 4/C13")

claim("C14", "other",
      "guard-dominance (contradiction between sibling sites) + abstract interpretation of Balanced over depth x token classes (AST)",
      "Partial, structural: every result-append in find_all must be dominated by the disjointness guard, by an "
      "accepting test and (main loop) by a cannot-continue condition; match ends are exclusive and used as such by "
      "get_headers; Balanced's transfer table is derived from its source and compared with the specification for "
      "depths 0..3; order preservation. Soundness/longest/completeness over all inputs is NOT decided.",
      "Trusted: CPython ast; statement-tree dominance (no goto-like constructs in find_all).",
      "DESIGN.md 4/C14")

claim("C06", "other",
      "effect analysis over the CHA call graph: set-iteration classification, predicate-receiver provenance, global-state write inventory, nondeterministic-source reachability (AST)",
      "Effect property decided structurally on every function reachable from scan_file / scan_path / check_command: every "
      "iteration over a set is order-insensitive (one admitted site, conditional on consume examining all transitions), "
      "stateful predicates are only used through per-attempt deep copies, nothing writes module/class level state except the "
      "State id counter, nondeterministic sources reach only uuid/timestamp, no expression has two equal stateful atoms.",
      "Trusted: pygments determinism; CHA over-approximates dynamic dispatch by method name. File listing order of os.walk is outside the property.",
      "DESIGN.md 4/C06")

claim("C08", "other",
      "f-string placeholder classification by quote parity + escaping-wrapper recognition + declared field types; writer/reader key-tree extraction and comparison (AST)",
      "Structure of the hand-written serializer and the reader: every emitted value is json.dumps-escaped or declared int/list[int]; "
      "the reader's key paths exist in the writer's reconstructed key tree; version/uuid/root/repository are restored unmodified; "
      "pretty and compact branches are equal up to whitespace; the parsed document is not shared and mutated. Values whose run-time "
      "type differs from the declaration are not covered.",
      "Trusted: json.dumps/json.loads; dataclass / __init__ annotations tell the truth about field types.",
      "DESIGN.md 4/C08")

claim("C09", "other",
      "guard dominance + def-use provenance of the cached entry, version-guard effectiveness, who-may-call table (AST)",
      "Partial: the reuse discipline the equality rests on - cached entry looked up by the file's own root-relative key only, reuse "
      "dominated by the checksum comparison with the scanned file's bytes, effective version guard (the compared field is restored by "
      "the reader or read from the document), version refusal in report/findings, result rebuilt from the walk. Equality of cached and "
      "fresh reports over edit histories is NOT decided.",
      "Trusted: md5 of file bytes identifies content; CPython ast.",
      "DESIGN.md 4/C09")

claim("C10", "other",
      "must-handle rule with an exception catalogue computed from the reader's constructs, resolved through callers; all-or-nothing reader; write-idempotence rules (AST)",
      "Mechanism: every cache read/parse on the scan path is enclosed by a handler covering the catalogue of exceptions those operations "
      "raise on arbitrary bytes and continues as 'no cache'; the reader has no swallowing handler (a rejected cache cannot taint); the "
      "cache write is unconditional, whole-document, truncating (no 'x'/'a'), directory creation idempotent. Byte equality with the fresh "
      "report is not decided.",
      "Trusted: exception behaviour of json.loads / subscripting / text-mode reads; write_text truncates.",
      "DESIGN.md 4/C10")

claim("C11", "other",
      "walker analysis: in-place pruning, dot-predicate folding on name classes, complete guard set between loop head and analysing call, provenance, who-may-call (AST)",
      "Selection logic decided structurally: directories pruned in place and files filtered by exactly 'starts with a dot'; the only "
      "reasons a file is skipped are is_excluded(root-relative path, generate_exclude_spec(root)), ClassNotFound, unsupported language; "
      "the spec has all three sources, accumulated not rebound; entries keyed by relpath with checksum of bytes; analysing functions "
      "called only from guarded sites. gitignore semantics and the name->lexer map are trusted.",
      "Trusted: os.walk honours in-place edits only; pathspec; pygments lexer lookup.",
      "DESIGN.md 4/C11")

claim("C03", "other",
      "per-mechanism must-guard / dominance rules, mandatory-atom analysis of pattern trees, exhaustive ambiguity exploration (C15 engine), loop-variant and recursion tables (AST + call graph)",
      "Partial: one exact rule per failure mechanism named by the property - decoding fallback must be total, lexer lookup and "
      "registry access guarded, an exclusive end never subscripts without a length bound, relative_to handled or provably contained, "
      "every header pattern has a mandatory Name atom, the ambiguity raise is unreachable (exhaustive, same exploration as C15), every "
      "while loop has a variant and every recursion is admitted or guarded. That no other subscript/.index raises is NOT decided.",
      "Trusted: exception behaviour of open/relative_to/get_lexer_for_filename; latin-1 is total; pygments lexers terminate.",
      "DESIGN.md 4/C03")

claim("C07", "other",
      "accumulator specifications by def-use provenance, integer-region folding of the profile functions, guard dominance for tree maintenance, aggregation-order and stale-memo rules (AST)",
      "Agreement of the redundant views decided as accumulator rules: LanguageTotals.add terms, one bucket per function (C02 folding), "
      "per-field sums, position-wise merge, add_file/add_folder guards, aggregate computed children-first and applied exactly once after "
      "the last add_file, no memoised attribute left stale by a mutator. Unusual path strings are not decided.",
      "Trusted: CPython ast; C02-R1 category boundaries.",
      "DESIGN.md 4/C07")

claim("C12", "other",
      "sibling cross-check: pipeline signatures (walk, exclusion, lexer gate, decoding, lex constant, measuring, post-processing) extracted by def-use and compared (AST)",
      "The two pipelines are compared component by component: hidden predicate, exclusion call and the provenance of its arguments for "
      "directory walks and file arguments, ClassNotFound handling and language gate, decoding function, filter_comments constant, "
      "tokens and language handed to scan_file, and that measurements are only filtered/sorted/printed. Printed text equality at run time is not decided.",
      "Trusted: CPython ast; os.walk semantics.",
      "DESIGN.md 4/C12")

claim("C18", "other",
      "role provenance (current/previous), folding of the ten delta methods over value pairs, header/cell field agreement, findings truncation folded with def-use resolution of the rendered list (AST)",
      "Field / role / constant agreement: every delta construction gets (current, previous); each delta method annotates with current - previous, "
      "signed, exactly when they differ (9 value pairs each); columns show the field of their header; languages ordered by LOC; findings show "
      "all N or exactly the first 10 on every branch with the 'N - 10 more' message under the same condition. Rich layout / locale formatting not decided.",
      "Trusted: parameter names state roles; CPython ast.",
      "DESIGN.md 4/C18")

claim("C19", "other",
      "linear normal form of the percentage identity, folded verdict decision table with sibling agreement, zero-guard dominance, form-based rounding rules (AST)",
      "Decided: the shown percentages sum to 100 identically; both summaries choose the verdict by unmaintainable > 0, else hard-to-maintain > 20; "
      "divisions by the total are guarded; the rounded-up terms have the form ceil(S - c), c <= 0.001 (never 0 % above 0.001 %); range: the "
      "remainder of independently rounded-up terms can be negative - a genuine defect of today's tree, listed as a known finding. Accuracy "
      "within two points is not decided.",
      "Trusted: CPython ast; ceil/round semantics for the recognised forms.",
      "DESIGN.md 4/C19")

claim("C01", "other",
      "def-use provenance of token lists, half-open interval comparison rule, provenance of the Measurement's arguments (AST)",
      "Partial: three structural necessary conditions of the span and length clauses - every consumer of scope indices works on the same "
      "comment-free list; nested functions are excluded with the half-open comparisons for exclusive ends; the span is built from the "
      "header's first token and the last body token (block.end - 1) plus its text length, the name from the header, the length from "
      "count_lines. That exactly the functions of a canonical grammar are discovered is algorithmic and NOT decided.",
      "Trusted: TokenRange ends are exclusive (established from their constructors); CPython ast.",
      "DESIGN.md 4/C01")

claim("C04", "other",
      "def-use provenance to filter_tokens(raw) + abstract interpretation of filter_tokens / Token.is_whitespace / Token.is_comment over kind x text classes (AST)",
      "Partial: codelimit's own three places where a comment or blank line could count - all consumers work on filter_tokens(raw) with default "
      "flags; the filter's keep/drop table over 15 token-kind classes x 4 text classes is computed from the source and compared with the "
      "specification; count_lines is the number of distinct token start lines. What pygments emits after an insertion is NOT decided.",
      "Trusted: pygments token hierarchy facts (Whitespace under Text, Comment.* under Comment, empty Text tokens exist); str.isspace/strip semantics.",
      "DESIGN.md 4/C04")

claim("C05", "other",
      "def-use pairing of loc with measurements, order typestate (ASC/DESC) through sorting/reversal/filtering/folding, provenance of name token and span (AST)",
      "Partial: file total = sum of the lengths stored with it at the three construction sites; source order by an order typestate from "
      "sort_headers (tuple key) through the reversed construction and re-reversal, order-preserving filters, single placement in fold_scopes and "
      "pre-order unfolding; name token from the header's own match; span construction (shared with C01). Numeric bounds are NOT decided.",
      "Trusted: sorted/list.reverse semantics; CPython ast.",
      "DESIGN.md 4/C05")

claim("C16", "other",
      "folding of lex on filter_comments, abstract filter table, linear normal form of the position formula, one-line-convention and newline-boundary rules (AST)",
      "Partial: what lex keeps (both return paths + the filter's abstract table), lexer order preserved, column = offset - line start + 1 with "
      "the special case agreeing with the general case, a single line-break convention ('\\n' only, no splitlines) across the position code, and "
      "the newline-boundary choice for the recognised table-search forms (strict > / bisect_left). General correctness of the offset arithmetic "
      "under arbitrary rewrites is NOT decided (needs an integer loop invariant).",
      "Trusted: pygments yields increasing non-overlapping offsets and only '\\n' ends a line; CPython ast.",
      "DESIGN.md 4/C16")

claim("C17", "other",
      "path enumeration with symbolic substitution of the marker predicate, provenance of the filter condition and of the filter's position (AST)",
      "Partial: on every path of the predicate the tested text is token.value -> case-folded -> leader removed by a slice of its length -> stripped "
      "-> startswith('nocl'); a scope is dropped iff its name token's line is a marker line; markers come from the raw tokens; the filter sits "
      "between pairing and nesting. That neighbours keep name, span and length inherits C01's undecided main clause.",
      "Trusted: str.lower/strip/startswith semantics; CPython ast.",
      "DESIGN.md 4/C17")

NOT_IMPLEMENTED_YET = "check under construction in this session (see DESIGN.md section 4 for the planned rules)"


def main():
    props = [json.loads(l)["id"] for l in (VERIF / "properties.jsonl").read_text().splitlines() if l.strip()]
    checks = []
    for pid in props:
        if pid not in CLAIMS:
            continue
        cat, tech, text, note, ref = CLAIMS[pid]
        checks.append({
            "property_id": pid,
            "quick_cmd": f"{PY} sa/check.py {pid} --tier quick",
            "thorough_cmd": f"{PY} sa/check.py {pid} --tier thorough",
            "evidence_file": f"/verif/evidence/{pid}.json",
            "replay_cmd_template": "cat {path}",
            "engine": "sa",
            "level_claimed": {"category": cat, "text": text, "design_ref": ref},
            "level_note": note,
            "technique": tech,
        })
    na = [{"property_id": p, "reason": NA.get(p, NOT_IMPLEMENTED_YET)} for p in props if p not in CLAIMS]
    manifest = {
        "version": 1,
        "setup_cmd": f"{PY} sa/setup_check.py",
        "hooks": {
            "guard": "GETCODELIMIT_CODELIMIT_VERIF",
            "enable": "none needed: the checks are static analyses of /repo's source and require no instrumentation",
            "baseline_off_cmd": "cd /repo && /venv/bin/python -m pytest -ra -q -p no:cacheprovider --timeout=900 "
                                "--continue-on-collection-errors",
            "source_commits": [],
            "add_only": True,
        },
        "engines": [{
            "name": "sa",
            "path": "/verif/sa",
            "serves_properties": sorted(CLAIMS),
            "kind_free_text": "repository-specific static analysis on CPython ASTs: project index + call graph (CHA), "
                              "guard/dominance walker, integer-region folding, def-use provenance, pattern-DSL "
                              "extraction with own NFA/DFA product exploration, JSON writer/reader schema extraction",
        }],
        "checks": checks,
        "not_applicable": na,
        "notes": "Static analysis only; nothing from /repo is imported or executed by any check. exit 2 = "
                 "ANALYSIS-ERROR (no verdict). Known findings: /verif/known_findings.json.",
    }
    (VERIF / "MANIFEST.json").write_text(json.dumps(manifest, indent=1) + "\n")
    print(f"MANIFEST.json: {len(checks)} checks, {len(na)} not_applicable")


NA = {}

if __name__ == "__main__":
    sys.exit(main())
