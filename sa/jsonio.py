"""E8: JSON writer / reader schema extraction for ReportWriter and ReportReader."""
from __future__ import annotations

import ast
import json
import re
from typing import Optional

from .core import (AnalysisError, ClassInfo, FuncInfo, Project, attr_chain, const_int, const_str, expand, local_defs,
                   unparse)

WRITER = "codelimit.common.report.ReportWriter:ReportWriter"
READER = "codelimit.common.report.ReportReader:ReportReader"
LAYOUT_HELPERS = ("_line", "_open", "_close", "_collection")


# ----------------------------------------------------------------------------
# light typing of expressions in the writer: is a value numeric / list of ints / str
# ----------------------------------------------------------------------------

class Types:
    def __init__(self, prj: Project):
        self.prj = prj
        self.fields: dict[str, dict[str, str]] = {}   # class name -> field -> kind ('int','ints','str','cls:Name','none','?')
        for ci in prj.classes.values():
            self.fields[ci.name] = self._class_fields(ci)

    def _ann_kind(self, ann) -> str:
        if ann is None:
            return "?"
        t = unparse(ann).replace(" ", "")
        if t == "int":
            return "int"
        if t in ("list[int]", "List[int]"):
            return "ints"
        if t in ("str", "str|None", "Optional[str]", "None|str"):
            return "str"
        base = t.split("|")[0].split("[")[0]
        if any(c.name == base for c in self.prj.classes.values()):
            return "cls:" + base
        return "?"

    def _class_fields(self, ci: ClassInfo) -> dict[str, str]:
        out: dict[str, str] = {}
        # dataclass style annotations
        for st in ci.node.body:
            if isinstance(st, ast.AnnAssign) and isinstance(st.target, ast.Name):
                out[st.target.id] = self._ann_kind(st.annotation)
        init = ci.methods.get("__init__")
        if init is not None:
            for n in init.walk():
                tgt = val = ann = None
                if isinstance(n, ast.Assign) and len(n.targets) == 1:
                    tgt, val = n.targets[0], n.value
                elif isinstance(n, ast.AnnAssign):
                    tgt, val, ann = n.target, n.value, n.annotation
                if isinstance(tgt, ast.Attribute) and isinstance(tgt.value, ast.Name) and tgt.value.id == "self":
                    k = "?"
                    if ann is not None:
                        k = self._ann_kind(ann)
                    if k == "?" and val is not None:
                        if const_int(val) is not None:
                            k = "int"
                        elif isinstance(val, ast.List) and val.elts and all(const_int(e) is not None for e in val.elts):
                            k = "ints"
                        elif isinstance(val, ast.Constant) and isinstance(val.value, str):
                            k = "str"
                        elif isinstance(val, ast.Name) and val.id in init.params():
                            k = self._ann_kind(init.param_annotation(val.id))
                        elif isinstance(val, ast.Name):
                            # local: profile = make_profile(...) -> look at callee's returned literal shape
                            for v2, _ in local_defs(init, val.id):
                                if isinstance(v2, ast.Call) and attr_chain(v2.func) in ("make_profile", "make_count_profile"):
                                    k = "ints"
                    out[tgt.attr] = k
        # zero-arg methods returning a field: profile() -> self._profile
        for name, m in ci.methods.items():
            if name.startswith("__"):
                continue
            rets = [r for r in m.walk() if isinstance(r, ast.Return) and r.value is not None]
            if len(rets) == 1 and isinstance(rets[0].value, ast.Attribute) and isinstance(rets[0].value.value, ast.Name) \
                    and rets[0].value.value.id == "self":
                out[name + "()"] = out.get(rets[0].value.attr, "?")
            elif len(rets) == 1 and isinstance(rets[0].value, ast.Constant) and rets[0].value.value is None:
                out.setdefault(name, "none")
        return out

    def field_kind(self, cls: str, field: str) -> str:
        for ci in self.prj.classes.values():
            if ci.name == cls:
                for c in ci.mro():
                    k = self.fields.get(c.name, {}).get(field)
                    if k and k != "none":
                        return k
        return "?"

    def kind_by_name(self, field: str) -> str:
        """fallback: all classes that define the field agree"""
        ks = {f[field] for f in self.fields.values() if field in f and f[field] not in ("none",)}
        return ks.pop() if len(ks) == 1 else "?"

    def kind(self, fi: FuncInfo, n) -> str:
        """'int' | 'ints' | 'str' | 'cls:X' | '?'"""
        if const_int(n) is not None:
            return "int"
        if isinstance(n, ast.Name):
            if n.id in fi.params():
                return self._ann_kind(fi.param_annotation(n.id))
            return "?"
        if isinstance(n, ast.Attribute):
            base = self.kind(fi, n.value)
            if base.startswith("cls:"):
                k = self.field_kind(base[4:], n.attr)
                if k != "?":
                    return k
            return self.kind_by_name(n.attr)
        if isinstance(n, ast.Call) and isinstance(n.func, ast.Attribute) and not n.args:
            base = self.kind(fi, n.func.value)
            if base.startswith("cls:"):
                k = self.field_kind(base[4:], n.func.attr + "()")
                if k != "?":
                    return k
            return self.kind_by_name(n.func.attr + "()")
        if isinstance(n, ast.Call) and attr_chain(n.func) == "len":
            return "int"
        return "?"


# ----------------------------------------------------------------------------
# string assembly
# ----------------------------------------------------------------------------

def string_parts(n) -> Optional[list[tuple[str, object]]]:
    """Flatten an f-string / + chain into ('lit', text) and ('ph', expr) parts."""
    if isinstance(n, ast.Constant) and isinstance(n.value, str):
        return [("lit", n.value)]
    if isinstance(n, ast.JoinedStr):
        out = []
        for v in n.values:
            if isinstance(v, ast.Constant):
                out.append(("lit", v.value))
            elif isinstance(v, ast.FormattedValue):
                out.append(("ph", v))
        return out
    if isinstance(n, ast.BinOp) and isinstance(n.op, ast.Add):
        a, b = string_parts(n.left), string_parts(n.right)
        if a is None and b is None:
            return None
        return (a if a is not None else [("ph", n.left)]) + (b if b is not None else [("ph", n.right)])
    return None


def count_quotes(text: str) -> int:
    n = 0
    i = 0
    while i < len(text):
        if text[i] == "\\":
            i += 2
            continue
        if text[i] == '"':
            n += 1
        i += 1
    return n


class Writer:
    def __init__(self, prj: Project):
        self.prj = prj
        self.ci = prj.cls(WRITER)
        self.types = Types(prj)
        self.escapers = self._find_escapers()

    # ---- escaping functions: json.dumps, or wrappers all of whose returns are dumps(param, ...)
    def _is_dumps(self, fi: FuncInfo, call) -> bool:
        if not isinstance(call, ast.Call):
            return False
        nm = self.prj.resolve_callee_name(fi, call)
        return nm in ("ext:json:dumps", "ext:json.dumps")

    def _find_escapers(self) -> dict[str, str]:
        out = {}
        mod = self.ci.module
        for name, f in list(mod.functions.items()) + [(m.name, m) for m in self.ci.methods.values()]:
            rets = [r for r in f.walk() if isinstance(r, ast.Return) and r.value is not None]
            if rets and all(self._is_dumps(f, r.value) and r.value.args and isinstance(r.value.args[0], ast.Name)
                            and r.value.args[0].id in f.params() for r in rets):
                out[f.qual] = "json.dumps"
        return out

    def is_escaped(self, fi: FuncInfo, expr) -> bool:
        if self._is_dumps(fi, expr):
            return True
        if isinstance(expr, ast.Call):
            tg, kind = self.prj.resolve_call(fi, expr)
            if tg and all(t.qual in self.escapers for t in tg):
                return True
        return False

    def custom_escapers(self) -> list[FuncInfo]:
        """functions of the writer module used to format values that are NOT dumps wrappers
        but look like escapers (translate/replace based)."""
        out = []
        for f in list(self.ci.module.functions.values()):
            if f.qual in self.escapers:
                continue
            txt = unparse(f.node)
            if ".translate(" in txt or ".replace(" in txt or ".encode(" in txt:
                out.append(f)
        return out

    def emission_exprs(self):
        """(method, expr) for every top-level string assembly in the writer's methods."""
        for m in self.ci.methods.values():
            if m.name in LAYOUT_HELPERS or m.name == "__init__":
                continue
            nested = set()
            for n in m.walk():
                if isinstance(n, (ast.JoinedStr, ast.BinOp)):
                    for c in ast.walk(n):
                        if c is not n and isinstance(c, (ast.JoinedStr, ast.BinOp)):
                            nested.add(id(c))
            for n in m.walk():
                if id(n) in nested:
                    continue
                if isinstance(n, ast.JoinedStr) or (isinstance(n, ast.BinOp) and isinstance(n.op, ast.Add)):
                    parts = string_parts(n)
                    if parts and any(k == "lit" for k, _ in parts):
                        yield m, n, parts

    def placeholders(self):
        """(method, node, expr, in_quotes: bool, classification)"""
        for m, n, parts in self.emission_exprs():
            parity = 0
            for kind, v in parts:
                if kind == "lit":
                    parity += count_quotes(v)
                else:
                    expr = v.value if isinstance(v, ast.FormattedValue) else v
                    yield m, v, expr, parity % 2 == 1, self.classify(m, expr)

    def classify(self, m: FuncInfo, expr) -> str:
        if self.is_escaped(m, expr):
            return "escaped"
        if isinstance(expr, ast.Call):
            tg, _ = self.prj.resolve_call(m, expr)
            if tg and all(t.cls is self.ci for t in tg):
                return "fragment"     # self._xxx_to_json(...) produces JSON text
            if tg and all(t.module is self.ci.module for t in tg):
                return "custom:" + tg[0].qual
        if isinstance(expr, ast.Name) and expr.id == "json":
            return "fragment"
        k = self.types.kind(m, expr)
        if k in ("int", "ints"):
            return "numeric"
        if k == "str" or k.startswith("cls:"):
            return "string"
        return "unknown"

    # ---- key tree ----------------------------------------------------------
    pretty = True

    def method_skeleton(self, m: FuncInfo) -> str:
        """Concatenation, in statement order, of everything method m hands to the
        layout helpers or appends to its `json` accumulator, with placeholders
        replaced: escaped/string -> "s", numeric -> 0, fragment -> \x00<callee>\x00."""
        chunks = []

        def render(expr) -> str:
            parts = string_parts(expr)
            if parts is None:
                if self.is_escaped(m, expr) or self.classify(m, expr).startswith("custom:"):
                    return '"s"'
                if isinstance(expr, ast.Call):
                    tg, _ = self.prj.resolve_call(m, expr)
                    if tg and tg[0].cls is self.ci:
                        return self._frag(m, expr, tg[0])
                return "\x00?\x00"
            out = ""
            for kind, v in parts:
                if kind == "lit":
                    out += v
                else:
                    e = v.value if isinstance(v, ast.FormattedValue) else v
                    c = self.classify(m, e)
                    if c == "escaped" or c.startswith("custom:"):
                        out += '"s"'
                    elif c == "numeric":
                        out += "0"
                    elif c == "fragment" and isinstance(e, ast.Call):
                        tg, _ = self.prj.resolve_call(m, e)
                        out += self._frag(m, e, tg[0])
                    elif c == "string":
                        out += "s" if count_quotes(out) % 2 == 1 else '"s"'
                    elif count_quotes(out) % 2 == 1:
                        out += "s"
                    else:
                        out += "\x00?\x00"
            return out
        import copy
        from .intdec import Specializer
        folded = Specializer(None, valuation=lambda x: self.pretty if isinstance(x, ast.Attribute) and x.attr == "pretty_print" else None
                             ).visit(copy.deepcopy(m.node))
        ast.fix_missing_locations(folded)
        stmts = [n for n in ast.walk(folded) if isinstance(n, ast.stmt) and hasattr(n, "lineno")]
        for st in sorted(stmts, key=lambda s: (s.lineno, s.col_offset)):
            val = None
            if isinstance(st, ast.AugAssign) and isinstance(st.target, ast.Name) and st.target.id == "json":
                val = st.value
            elif isinstance(st, ast.Return) and st.value is not None and not (isinstance(st.value, ast.Name)):
                val = st.value
            elif isinstance(st, (ast.Assign, ast.AnnAssign)) and st.value is not None and isinstance(st.value, ast.List) \
                    and isinstance(st.targets[0] if isinstance(st, ast.Assign) else st.target, ast.Name):
                val = st.value
            elif isinstance(st, ast.Expr) and isinstance(st.value, ast.Call) and isinstance(st.value.func, ast.Attribute) \
                    and st.value.func.attr == "append" and st.value.args:
                val = st.value.args[0]
                chunks.append(",")
            if val is None:
                continue
            chunks.append(self._render_value(m, val, render))
        return "".join(chunks)

    def _frag(self, m, call, callee: FuncInfo) -> str:
        return f"\x00{callee.name}\x00"

    def _render_value(self, m, val, render) -> str:
        if isinstance(val, ast.Name) and val.id == "json":
            return ""        # the accumulator itself: already emitted piecewise
        # calls of layout helpers: their argument is the text
        if isinstance(val, ast.Call) and isinstance(val.func, ast.Attribute) and isinstance(val.func.value, ast.Name) \
                and val.func.value.id == "self":
            nm = val.func.attr
            if nm in ("_line", "_open", "_close") and val.args:
                return self._render_value(m, val.args[0], render)
            if nm == "_collection" and val.args:
                a = val.args[0]
                if isinstance(a, ast.List):
                    return ",".join(self._render_value(m, e, render) for e in a.elts)
                if isinstance(a, ast.ListComp):
                    return self._render_value(m, a.elt, render) + ",\x00*\x00"
                if isinstance(a, ast.Name):
                    return f"\x00list:{a.id}\x00"
            tg, _ = self.prj.resolve_call(m, val)
            if tg and tg[0].cls is self.ci:
                return f"\x00{tg[0].name}\x00"
        if isinstance(val, ast.List):
            return ",".join(self._render_value(m, e, render) for e in val.elts)
        return render(val)

    def document_skeleton(self, root: str = "to_json", depth: int = 0, seen=()) -> str:
        m = self.ci.methods.get(root)
        if m is None:
            raise AnalysisError(f"ReportWriter.{root} not found")
        if root in seen or depth > 12:
            raise AnalysisError(f"ReportWriter.{root}: recursive emission")
        sk = self.method_skeleton(m)
        # `content: list[str] = [...]` + later `_collection(content)`: splice
        sk = re.sub(r"\x00list:\w+\x00", "", sk)

        def sub(mo):
            name = mo.group(1)
            if name == "*":
                return ""
            if name == "?":
                return '"?"'
            return self.document_skeleton(name, depth + 1, seen + (root,))
        return re.sub(r"\x00([^\x00]*)\x00", sub, sk)

    def key_tree(self):
        sk = self.document_skeleton()
        # dynamic keys were rendered as "s": make them unique-able and parseable
        txt = sk
        # optional members appended conditionally show up after the list: move is not needed for key extraction
        txt = re.sub(r",\s*,", ",", txt)
        txt = re.sub(r",\s*([}\]])", r"\1", txt)
        txt = re.sub(r"([{\[])\s*,", r"\1", txt)
        try:
            doc = json.loads(txt)
        except Exception as e:
            raise AnalysisError(f"writer skeleton is not parseable JSON ({e}): {txt[:300]!r}")
        return doc, txt


def tree_paths(doc, prefix=()) -> set[tuple]:
    out = set()
    if isinstance(doc, dict):
        for k, v in doc.items():
            kk = "*" if k == "s" else k
            out.add(prefix + (kk,))
            out |= tree_paths(v, prefix + (kk,))
    elif isinstance(doc, list):
        for v in doc:
            out |= tree_paths(v, prefix + ("[]",))
    return out


# ----------------------------------------------------------------------------
# reader
# ----------------------------------------------------------------------------

class Reader:
    def __init__(self, prj: Project):
        self.prj = prj
        self.ci = prj.cls(READER)

    def functions(self) -> list[FuncInfo]:
        """from_json and the helpers of the reader module it (transitively) calls."""
        start = self.ci.methods.get("from_json")
        if start is None:
            raise AnalysisError("ReportReader.from_json not found")
        out, todo = [], [start]
        while todo:
            f = todo.pop()
            if f in out:
                continue
            out.append(f)
            for c in f.calls():
                for t in self.prj.resolve_call(f, c)[0]:
                    if t.module is self.ci.module:
                        todo.append(t)
        return out

    def doc_var(self, fi: FuncInfo) -> Optional[tuple[str, ast.AST]]:
        """name bound to the parsed document and the parse call"""
        for n in fi.walk():
            if isinstance(n, ast.Assign) and len(n.targets) == 1 and isinstance(n.targets[0], ast.Name) and isinstance(n.value, ast.Call):
                nm = self.prj.resolve_callee_name(fi, n.value)
                if nm in ("ext:json:loads", "ext:json.loads"):
                    return n.targets[0].id, n.value
                tg, _ = self.prj.resolve_call(fi, n.value)
                for t in tg:
                    if t.module is self.ci.module and any(self.prj.resolve_callee_name(t, c) in ("ext:json:loads", "ext:json.loads") for c in t.calls()):
                        return n.targets[0].id, n.value
        return None

    def key_paths(self, fi: FuncInfo) -> list[tuple[tuple, ast.AST]]:
        """paths of keys read from the document in fi: ((k1, k2, ...), node)."""
        dv = self.doc_var(fi)
        if dv is None:
            return []
        env: dict[str, tuple] = {dv[0]: ()}
        out = []

        def path_of(n) -> Optional[tuple]:
            if isinstance(n, ast.Name) and n.id in env:
                return env[n.id]
            if isinstance(n, ast.Subscript):
                base = path_of(n.value)
                k = const_str(n.slice)
                if base is not None and k is not None:
                    return base + (k,)
            if isinstance(n, ast.Call) and isinstance(n.func, ast.Attribute) and n.func.attr in ("get", "pop") and n.args:
                base = path_of(n.func.value)
                k = const_str(n.args[0])
                if base is not None and k is not None:
                    return base + (k,)
            return None
        changed = True
        rounds = 0
        while changed and rounds < 6:
            changed = False
            rounds += 1
            for n in fi.walk():
                if isinstance(n, ast.For):
                    it = n.iter
                    if isinstance(it, ast.Call) and isinstance(it.func, ast.Attribute) and it.func.attr in ("items", "values"):
                        base = path_of(it.func.value)
                        if base is not None:
                            if it.func.attr == "items" and isinstance(n.target, ast.Tuple) and len(n.target.elts) == 2:
                                v = n.target.elts[1]
                            else:
                                v = n.target
                            if isinstance(v, ast.Name) and env.get(v.id) != base + ("*",):
                                env[v.id] = base + ("*",)
                                changed = True
                    else:
                        base = path_of(it)
                        if base is not None and isinstance(n.target, ast.Name) and env.get(n.target.id) != base + ("[]",):
                            env[n.target.id] = base + ("[]",)
                            changed = True
                if isinstance(n, ast.Assign) and len(n.targets) == 1 and isinstance(n.targets[0], ast.Name):
                    p = path_of(n.value)
                    if p is not None and env.get(n.targets[0].id) != p:
                        env[n.targets[0].id] = p
                        changed = True
        for n in fi.walk():
            p = None
            if isinstance(n, ast.Subscript) and const_str(n.slice) is not None:
                p = path_of(n)
            elif isinstance(n, ast.Call) and isinstance(n.func, ast.Attribute) and n.func.attr in ("get", "pop"):
                p = path_of(n)
            elif isinstance(n, ast.Compare) and len(n.ops) == 1 and isinstance(n.ops[0], (ast.In, ast.NotIn)) and const_str(n.left) is not None:
                b = path_of(n.comparators[0])
                if b is not None:
                    p = b + (const_str(n.left),)
            if p:
                out.append((p, n))
        self.env = env
        return out
