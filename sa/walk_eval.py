"""scan_path and check_command evaluated on a virtual directory tree: which files reach the analysing functions.

The tree has one representative for every reason the property lists for (not) analysing a file: hidden directory, hidden
file, excluded path (at the top and in a sub-directory), no lexer for the name, lexer of an unsupported language, and
ordinary supported files at the top, in a sub-directory and in a sub-sub-directory.  Exclusion is an oracle on the path
RELATIVE TO THE ROOT the exclusion spec was generated for; lexer lookup is an oracle on the suffix."""
from __future__ import annotations

from .absint import BoundFunc, MiniInterp, PyRaise, Sym, Unknown
from .core import Project
from .fsmodel import VFS, PathV, fs_hook, sval

ROOT = "/w/proj"
TREE = {
    "/w": (["proj", "other", "proj-legacy"], []),
    "/w/proj-legacy": ([], ["l.py"]),
    "/w/other": ([], ["o.py"]),
    # two hidden directories and two hidden files next to each other in one listing (a filter that drops entries while it walks the list)
    "/w/proj": ([".hid", ".hid2", "sub", "build", "_priv", "gen"], ["a.py", ".dot.py", ".env.py", "b.xyz", "c.rb", "skip.py", "d.js", "__init__.py", "noext", "SConstruct"]),
    "/w/proj/.hid2": ([], ["h2.py"]),
    "/w/proj/gen": ([], ["keep.py", "other.py"]),
    "/w/proj/_priv": ([], ["p.py"]),
    "/w/proj/.hid": ([], ["h.py"]),
    "/w/proj/sub": (["deep", ".cache"], ["s.py", ".s.py", "skip2.py", "Rakefile"]),     # Rakefile: a lexer chosen by the whole name, unsupported language
    "/w/proj/sub/deep": ([], ["x.py", "a.py"]),          # a.py: the same base name as the file at the root
    "/w/proj/sub/.cache": ([], ["c.py"]),
    "/w/proj/build": ([], ["gen.py"]),
}
# two sources of exclusion: a built-in bare-name pattern (matches a path component at any depth, whatever root the spec was
# generated for) and anchored patterns of the .gitignore at the ROOT (only in a spec generated for ROOT, on ROOT-relative paths)
DEFAULT_NAMES = {"build"}
GITIGNORE_AT_ROOT = {"skip.py", "sub/skip2.py"}
EXCLUDED_REL = {"skip.py", "sub/skip2.py", "build/gen.py", "build"}


def spec_matches(spec_root: str, p: str) -> bool:
    if p.startswith("/"):
        return False              # patterns are relative: an absolute path matches none of them here
    parts = [x for x in p.split("/") if x not in ("", ".")]
    if ".." in parts:
        return False
    if any(x in DEFAULT_NAMES for x in parts):
        return True
    if spec_root != ROOT:
        return False
    rel = "/".join(parts)
    if rel == "gen/keep.py":
        return False              # `gen` followed by `!gen/keep.py`: the last matching pattern wins (per file)
    if parts and parts[0] == "gen":
        return True
    return rel in GITIGNORE_AT_ROOT
LEXERS = {".py": "Python", ".js": "JavaScript", ".rb": "Ruby"}
LEXERS_BY_NAME = {"SConstruct": "Python", "Rakefile": "Ruby"}      # pygments also maps whole file names
SUPPORTED = ["C", "C++", "C#", "Java", "JavaScript", "Python", "TypeScript"]


def lexer_of(path: str):
    name = path.rsplit("/", 1)[-1]
    if name in LEXERS_BY_NAME:
        return LEXERS_BY_NAME[name]
    suf = "." + name.rsplit(".", 1)[1] if "." in name.strip(".") else ""
    return LEXERS.get(suf)


def expected(root=ROOT):
    out = []

    def rec(d, rel):
        dirs, files = TREE[d]
        for f in files:
            r = f"{rel}{f}"
            if f.startswith(".") or spec_matches(root, r):
                continue
            if lexer_of(f) in SUPPORTED:
                out.append(f"{d}/{f}")
        for sub in dirs:
            if sub.startswith("."):
                continue
            rec(f"{d}/{sub}", f"{rel}{sub}/")
    rec(root, "")
    return sorted(out)


class Lab:
    def __init__(self, prj: Project, cwd: str = ROOT, deep: bool = False, undecodable: bool = False):
        """deep: interpret _scan_file / _analyze_file / check_file / _read_file themselves (only hashing, lexing and
        measuring are replaced); undecodable: every file's bytes are invalid UTF-8"""
        self.prj = prj
        self.deep = deep
        self.vfs = VFS(TREE, cwd)
        if undecodable:
            self.vfs.undecodable = {f"{d}/{f}" for d, (_, files) in TREE.items() for f in files}
        from .evalsite import Run, _hook as _effects
        self.effects = Run()
        eff = _effects(self.effects)
        self.analysed: list = []
        self.printed: list = []      # arguments of print / typer.echo calls
        self._measuring = False
        self.check_result = None
        self.measure_by_path = None     # optional: (interpreter, callee, absolute path) -> measurements of that file
        it_holder = [None]
        mf = prj.maybe_func("codelimit.common.Scanner:scan_file")      # follows a re-export to wherever the function lives now
        self.measure_qual = mf.qual if mf is not None else None
        self.calls: list = []          # (function, arguments) of lex / scan_file / CheckResult.add in deep mode
        self.measured = None
        self.spec_roots: list = []
        self.excl_args: list = []
        self.walked: list = []
        fs = fs_hook(self.vfs)

        def is_token_list(x):
            """the result of the lexing stub (or a list derived from it by the repo's own code)"""
            if isinstance(x, (list, tuple)) and x and isinstance(x[0], Sym):
                return x[0].name.startswith("tokens-of:") or str(x[0].fields.get("value", "")).startswith("tokens-of:")
            return False

        def is_language(x):
            return isinstance(x, Sym) and x.name.startswith("language:")

        def path_of_tokens(x):
            t = x[0].name if x[0].name.startswith("tokens-of:") else str(x[0].fields.get("value"))
            t = t[len("tokens-of:"):]
            return t[len("text of "):] if t.startswith("text of ") else t

        def as_result(f, ms):
            """the measuring step's result in the form the replaced function has: a list, or - when that function is a generator -
            a generator over the measurements whose return value follows the function's own (recognised) contract"""
            from .absint import LazyIter, _is_generator
            fi_ = getattr(f, "fi", None)
            if fi_ is None or not _is_generator(fi_.node):
                return ms
            ret = generator_return_contract(fi_)
            r = LazyIter(iter(list(ms)))
            r.holder = {"ret": None if ret is None else sum(m.fields.get("value") for m in ms)}
            return r

        def measured_result(f, args, kwargs):
            everything_ = list(args) + list(kwargs.values()) + (list(f.self_obj.fields.values()) if isinstance(getattr(f, "self_obj", None), Sym) else [])
            toks = next((a for a in everything_ if is_token_list(a)), None)
            lang_ = next((a for a in everything_ if is_language(a)), None)
            # recorded in a normal form (token list, language), wherever the step takes them from (arguments, keywords, its object)
            self.calls.append(("scan_file", [toks, lang_], {}))
            if toks is not None:
                self.analysed.append(self.vfs.abs(path_of_tokens(toks)))
            if not self.deep:
                return as_result(f, [])
            if self.measure_by_path is not None and toks is not None:
                return as_result(f, self.measure_by_path(it_holder[0], f, self.vfs.abs(path_of_tokens(toks))))
            if self.measured is not None:
                return as_result(f, list(self.measured))
            from .evalsite import measurement
            m1 = measurement(40, "f", self.prj, (1, 1), (41, 1))
            m2 = measurement(7, "g", self.prj, (50, 1), (57, 1))
            return as_result(f, [m1, m2])

        def hook(it, kind, f, args, kwargs, node, cur):
            it_holder[0] = it
            r = fs(it, kind, f, args, kwargs, node, cur)
            if r is not NotImplemented:
                return r
            if kind == "getattr" and isinstance(f, tuple) and f and f[0] == "class" and f[1].name == "Languages" and args == "by_name":
                return {n: Sym("language:" + n, name=n, allow_nested_functions=True) for n in SUPPORTED}
            if kind != "call":
                return NotImplemented
            if isinstance(f, BoundFunc):
                q = f.fi.qual
                if q.endswith(":generate_exclude_spec"):
                    root = sval(args[0]) if args else None
                    self.spec_roots.append(root)
                    return Sym("spec", root=self.vfs.abs(root) if root is not None else None)
                if q.endswith(":calculate_checksum"):
                    return "sum:" + self.vfs.abs(sval(args[0]))
                if q.endswith(":lex") and "lexer_utils" in q:
                    bound = dict(zip(f.fi.params(), args))
                    bound.update(kwargs)
                    if "filter_comments" not in bound:
                        d = f.fi.param_default("filter_comments")
                        bound["filter_comments"] = it.ev(d, {}, f.fi) if d is not None else None
                    toks = [Sym("tokens-of:" + str(bound.get("code"))[:60])]
                    self.calls.append(("lex", bound, toks))
                    return toks
                # the measuring step, wherever it lives and whatever it is called: the (outermost) function of the project that
                # is handed both the token list of the lexing step and the language object registered for the lexer
                everything = list(args) + list(kwargs.values()) + (list(f.self_obj.fields.values()) if isinstance(f.self_obj, Sym) else [])
                if any(is_token_list(a) for a in everything) and any(is_language(a) for a in everything):
                    return measured_result(f, args, kwargs)
                if self.deep and f.fi.cls is not None and f.fi.cls.name == "CheckResult" and f.fi.name not in ("__init__", "report", "__len__", "__iter__"):
                    # what check hands its result object for one file, through whatever method (add, +=) and in whatever wrapping:
                    # the measurement objects among the arguments, in order; recorded once (add -> += is one hand-over)
                    def meas(x, depth=0, out=None):
                        out = [] if out is None else out
                        if isinstance(x, Sym) and (x.cls is not None and x.cls.name == "Measurement" or x.name == "measurement"):
                            out.append(x)
                        elif isinstance(x, Sym) and depth < 3 and getattr(x, "tuple_order", None):
                            for k_ in x.tuple_order:
                                meas(x.fields[k_], depth + 1, out)
                        elif isinstance(x, Sym) and depth < 3 and x.cls is not None and x.cls.name not in ("Location", "CheckResult"):
                            for v_ in x.fields.values():
                                meas(v_, depth + 1, out)
                        elif isinstance(x, (list, tuple)) and depth < 4:
                            for y in x:
                                meas(y, depth + 1, out)
                        elif hasattr(x, "rest") and depth < 4:
                            raise Unknown("an iterator handed to the check result")
                        return out
                    found = meas(list(args) + list(kwargs.values()))
                    key_ = tuple(id(m_) for m_ in found)
                    if q.endswith("CheckResult.add") or q.endswith("CheckResult.__iadd__") or found:
                        last = self.calls[-1] if self.calls and self.calls[-1][0] == "add" else None
                        depth_ = getattr(it, "depth", 0)
                        if last is not None and last[3] == key_:
                            pass                                    # add -> += with the same objects: one hand-over
                        elif last is not None and depth_ > last[4]:
                            # a method of the result object that hands on to another one (add_measured -> add): the inner call is
                            # what the result object finally takes
                            self.calls[-1] = ("add", [args[0] if args else None, found], {}, key_, last[4])
                        else:
                            self.calls.append(("add", [args[0] if args else None, found], {}, key_, depth_))
                        self.check_result = f.self_obj
                if (q.endswith("CheckResult.report") or q.endswith("CheckResult.add")) and not self.deep:
                    return None
            if isinstance(f, tuple) and f and f[0] == "external":
                name = f[1].replace(":", ".")
                base = name.split(".")[-1]
                if base in ("get_lexer_for_filename", "guess_lexer_for_filename", "find_lexer_class_for_filename", "get_lexer_by_name", "find_lexer_class_by_name"):
                    sname = sval(args[0])
                    lang = lexer_of(sname) if "filename" in base else (sname if sname in set(LEXERS.values()) | set(SUPPORTED) else None)
                    if lang is None:
                        if base.startswith("find_"):
                            return None
                        raise PyRaise("ClassNotFound", node)
                    lx = Sym("lexer")
                    lx.fields["__class__"] = Sym("lexercls", name=lang)
                    lx.fields["name"] = lang
                    if base.startswith("find_"):
                        cls_ = Sym("lexercls-callable", name=lang)
                        cls_.fields["__call__"] = lx
                        return cls_
                    return lx
                if base in ("print", "echo", "secho"):
                    self.printed.append((list(args), dict(kwargs)))
                    return None
                if base in ("info", "debug", "warning"):
                    return None
                if name.endswith("typer.Exit") or base == "Exit":
                    return Sym("Exit", **{k: v for k, v in kwargs.items()})
            if isinstance(f, tuple) and f and f[0] == "method" and isinstance(f[1], Sym) and f[1].name == "lexer" and f[2] in ("get_tokens_unprocessed", "get_tokens"):
                # the lexing step below a renamed / moved lex(): one token per file, carrying the file's text as its marker
                code = args[0] if args else kwargs.get("text")
                return [(0, Sym("Name"), "tokens-of:" + str(code)[:60])] if f[2] == "get_tokens_unprocessed" else [(Sym("Name"), "tokens-of:" + str(code)[:60])]
            if isinstance(f, Sym) and f.name == "lexercls-callable":
                return f.fields["__call__"]
            if isinstance(f, tuple) and f and f[0] == "method" and isinstance(f[1], Sym) and f[1].name == "spec" and f[2] == "match_file":
                sarg = sval(args[0])
                self.excl_args.append(sarg)
                return spec_matches(f[1].fields.get("root"), sarg)
            if isinstance(f, tuple) and f and f[0] == "method" and isinstance(f[1], Sym) and f[1].name == "spec" and f[2] == "match_files":
                out_ = []
                for x in it.iterate(args[0]):
                    sarg = sval(x)
                    self.excl_args.append(sarg)
                    if spec_matches(f[1].fields.get("root"), sarg):
                        out_.append(x)
                return out_
            if isinstance(f, tuple) and f and f[0] == "method" and isinstance(f[1], Sym) and f[1].name in ("callback",):
                return None
            return eff(it, kind, f, args, kwargs, node, cur)
        self.hook = hook

    def run(self, q: str, args: list, kwargs=None):
        it = MiniInterp(self.prj, self.hook, max_steps=400000, max_depth=60)
        self.interp = it
        self.result = None
        try:
            self.result = it.call(self.prj.func(q), args, kwargs or {})
        except PyRaise as e:
            if e.name not in ("Exit",):
                raise
        if self.deep:
            return sorted({a for a in self.vfs.read_log})
        return sorted(set(self.analysed))


def all_files(root=ROOT):
    out = []
    for d, (dirs, files) in TREE.items():
        if d == root or d.startswith(root + "/"):
            out += [f"{d}/{f}" for f in files]
    return sorted(out)


def scan_scenarios(prj: Project):
    """-> list of (description, analysed, spec roots, exclusion arguments) for the root given in several ways"""
    out = []
    for desc, cwd, arg in (("absolute root", ROOT, ROOT), ("relative root '.'", ROOT, "."), ("relative root from the parent", "/w", "proj"),
                           ("root with a '..' segment", ROOT, ROOT + "/sub/..")):
        lab = Lab(prj, cwd)
        got = lab.run("codelimit.common.Scanner:scan_path", [PathV(arg)])
        out.append((desc, got, [lab.vfs.abs(r) for r in lab.spec_roots if r is not None], list(lab.excl_args)))
    return out


def check_dir_scenarios(prj: Project):
    out = []
    for desc, arg, under in (("root as '.'", ".", ROOT), ("absolute root", ROOT, ROOT), ("relative sub-directory", "sub", ROOT + "/sub"),
                             ("absolute sub-directory", ROOT + "/sub", ROOT + "/sub")):
        lab = Lab(prj, ROOT)
        got = lab.run("codelimit.commands.check:check_command", [[PathV(arg)], True])
        want = [f for f in expected() if f.startswith(under + "/")]
        out.append((desc, got, want))
    return out


def check_file_scenarios(prj: Project):
    """each file of the tree given as a relative path: -> (relative path, analysed?, 'must' | 'must-not' | 'free')"""
    out = []
    exp = set(expected())
    for f in all_files():
        rel = f[len(ROOT) + 1:]
        lab = Lab(prj, ROOT)
        got = lab.run("codelimit.commands.check:check_command", [[PathV(rel)], True])
        hidden = any(part.startswith(".") for part in rel.split("/"))
        if f in exp:
            kind = "must"
        elif hidden and not spec_matches(ROOT, rel) and lexer_of(rel) in SUPPORTED:
            kind = "free"       # a hidden file named explicitly: the property only speaks about reaching it through a directory
        else:
            kind = "must-not"
        out.append((rel, f in got, kind, got))
    return out


def why_not(f: str) -> str:
    rel = f[len(ROOT) + 1:] if f.startswith(ROOT + "/") else f
    parts = rel.split("/")
    if not f.startswith(ROOT + "/"):
        return "outside the root"
    if any(p.startswith(".") for p in parts[:-1]):
        return "hidden (below a directory whose name starts with a dot)"
    if parts[-1].startswith("."):
        return "hidden (its name starts with a dot)"
    if spec_matches(ROOT, rel):
        return "excluded (matched by the exclusion patterns)"
    if lexer_of(rel) is None:
        return "unsupported (no lexer for its name)"
    if lexer_of(rel) not in SUPPORTED:
        return "unsupported (its language is not one of the supported ones)"
    return "not qualifying"


def totality_scenarios(prj: Project):
    """scan and check run to the end (no exception escapes) on the virtual tree whose files are all invalid UTF-8, reached in
    every way, including a directory and a file outside the working directory: -> list of (description, exception or None, site)"""
    out = []
    cases = [("scan of the root", "codelimit.common.Scanner:scan_path", ROOT, [PathV(ROOT)]),
             ("scan of a relative root", "codelimit.common.Scanner:scan_path", "/w", [PathV("proj")]),
             ("check of the root directory", "codelimit.commands.check:check_command", ROOT, [[PathV(".")], True]),
             ("check of an absolute directory outside the working directory", "codelimit.commands.check:check_command", ROOT, [[PathV("/w/other")], True]),
             ("check of a relative directory outside the working directory", "codelimit.commands.check:check_command", ROOT + "/sub", [[PathV("../build")], True]),
             ("check of an absolute sibling directory whose name extends the working directory's name", "codelimit.commands.check:check_command", ROOT, [[PathV("/w/proj-legacy")], True]),
             ("check of relative files", "codelimit.commands.check:check_command", ROOT, [[PathV("a.py"), PathV("b.xyz"), PathV("c.rb"), PathV("noext"), PathV("sub/s.py")], True]),
             ("check of an absolute file outside the working directory", "codelimit.commands.check:check_command", ROOT, [[PathV("/w/other/o.py")], True])]
    for desc, q, cwd, args in cases:
        lab = Lab(prj, cwd, deep=True, undecodable=True)
        try:
            lab.run(q, args)
            out.append((desc, None, None, lab))
        except PyRaise as e:
            out.append((desc, e.name, e.node, lab))
    return out


def scanned_entries(prj: Project):
    """scan_path on the virtual tree with the measuring stub returning two functions (40 and 7 lines) per file:
    -> list of (key, path attribute, language, loc, [values], checksum) of the entries of the returned codebase"""
    lab = Lab(prj, ROOT, deep=True)
    lab.run("codelimit.common.Scanner:scan_path", [PathV(ROOT)])
    cb = lab.result
    if not isinstance(cb, Sym) or not isinstance(cb.fields.get("files"), dict):
        raise Unknown("scan_path does not return a codebase with a files dictionary")
    out = []
    for key, e in cb.fields["files"].items():
        m = e.cls.find_method("measurements") if e.cls is not None else None
        ms = lab.interp.call(prj.func(m.qual), [], {}, self_obj=e) if m is not None else e.fields.get("_measurements")
        ck = e.cls.find_method("checksum") if e.cls is not None else None
        cs = lab.interp.call(prj.func(ck.qual), [], {}, self_obj=e) if ck is not None else None
        out.append((key, e.fields.get("path"), e.fields.get("language"), e.fields.get("loc"), [x.fields.get("value") for x in ms], cs))
    return out


def checksum_eval(prj: Project):
    """calculate_checksum on a virtual file of 70000 bytes, then again after its bytes changed beyond the first 64 KiB
    -> (digest1, md5(content1), digest2, md5(content2))"""
    import hashlib
    fi = prj.func("codelimit.common.utils:calculate_checksum")
    vfs = VFS({"/r": ([], ["big.py"])}, "/r")
    c1 = (b"0123456789abcdef" * 4400)[:70000]
    c2 = c1[:69000] + b"X" * 1000
    fs = fs_hook(vfs)
    it = MiniInterp(prj, lambda it_, kind, f, args, kwargs, node, cur: fs(it_, kind, f, args, kwargs, node, cur), max_steps=200000)
    vfs.bytes["/r/big.py"] = c1
    d1 = it.call(fi, ["/r/big.py"], {})
    vfs.bytes["/r/big.py"] = c2
    d2 = it.call(fi, ["/r/big.py"], {})
    return d1, hashlib.md5(c1).hexdigest(), d2, hashlib.md5(c2).hexdigest()


def generator_return_contract(fi):
    """what a measuring generator returns when it is exhausted: None (no value), or 'sum' when every `return` gives 0 or a local
    that starts at 0 and is increased by exactly the length each yielded measurement is built with.  Anything else: Unknown."""
    import ast as _ast
    from .core import local_defs, attr_chain
    rets = [n for n in fi.walk() if isinstance(n, _ast.Return) and n.value is not None and not (isinstance(n.value, _ast.Constant) and n.value.value is None)]
    if not rets:
        return None
    lengths = set()
    for n in fi.walk():
        if isinstance(n, _ast.Yield) and isinstance(n.value, _ast.Call) and (attr_chain(n.value.func) or "").endswith("Measurement"):
            c = n.value
            v = c.args[3] if len(c.args) >= 4 else next((k.value for k in c.keywords if k.arg == "value"), None)
            if not isinstance(v, _ast.Name):
                raise Unknown("the length a yielded measurement is built with is not a plain local")
            lengths.add(v.id)
        elif isinstance(n, (_ast.Yield, _ast.YieldFrom)):
            raise Unknown("a measuring generator that yields something other than Measurement(...)")
    if len(lengths) != 1:
        raise Unknown("a measuring generator with a return value and no single yielded length")
    ln = next(iter(lengths))
    for r in rets:
        if isinstance(r.value, _ast.Constant) and r.value.value == 0:
            continue
        if not isinstance(r.value, _ast.Name):
            raise Unknown("return value of the measuring generator is not understood")
        defs = local_defs(fi, r.value.id)
        inits = [v for v, st in defs if isinstance(st, (_ast.Assign, _ast.AnnAssign))]
        augs = [st for v, st in defs if isinstance(st, _ast.AugAssign)]
        if len(inits) != 1 or not (isinstance(inits[0], _ast.Constant) and inits[0].value == 0) or len(augs) != 1 or len(defs) != 2:
            raise Unknown("return value of the measuring generator is not a running total")
        a = augs[0]
        if not (isinstance(a.op, _ast.Add) and isinstance(a.value, _ast.Name) and a.value.id == ln):
            raise Unknown("the running total of the measuring generator is not increased by the yielded length")
    return "sum"


def pipelines(prj: Project):
    """the same file (invalid UTF-8) through scan (scan_path) and through check (check_command): what lex and scan_file are
    handed and, for check, what CheckResult.add receives when the measuring stub returns lengths 31, 7, 64, 30, 31"""
    from .evalsite import measurement
    ms = [measurement(v, f"f{i}", prj, (10 * i + 1, 1), (10 * i + 9, 1)) for i, v in enumerate((31, 7, 64, 30, 31))]
    tree = {"/w": (["proj"], []), "/w/proj": ([], ["a.py"])}
    out = {}
    for name, q, args in (("scan", "codelimit.common.Scanner:scan_path", [PathV(ROOT)]),
                          ("check", "codelimit.commands.check:check_command", [[PathV("a.py")], True])):
        lab = Lab(prj, ROOT, deep=True, undecodable=True)
        lab.vfs.tree = tree
        lab.measured = ms
        lab.run(q, args)
        out[name] = lab
    return out, ms
