"""Self-test variants: one-construct edits of /repo/codelimit (see selftest.py).

fire   = breaks the property, still parses and passes the repo's test-suite;
         the property's check must exit 1 and name the instance.
silent = behaviour-preserving rewrite; the check must stay at exit 0.
"""

VARIANTS = []

U = "codelimit/common/utils.py"
CHK = "codelimit/commands/check.py"
CR = "codelimit/common/CheckResult.py"
REP = "codelimit/common/report/Report.py"
FT = "codelimit/common/report/format_text.py"
FM = "codelimit/common/report/format_markdown.py"
LT = "codelimit/common/LanguageTotals.py"


def V(prop, vid, expect, edits, why="", names=None):
    if isinstance(edits, tuple):
        edits = [edits]
    VARIANTS.append(dict(prop=prop, id=f"{prop}-{vid}", expect=expect, edits=edits, why=why, names=names))


# ------------------------------------------------------------------ C02
MP = """        if m.value <= 15:
            result[0] += m.value
        elif m.value <= 30:
            result[1] += m.value
        elif m.value <= 60:
            result[2] += m.value
        else:
            result[3] += m.value
"""
V("C02", "profile-lt15", "fire", (U, MP, MP.replace("m.value <= 15", "m.value < 15")), "15 becomes verbose", "make_profile")
V("C02", "profile-le31", "fire", (U, MP, MP.replace("m.value <= 30", "m.value <= 31")), "31 becomes verbose", "make_profile")
V("C02", "profile-swap23", "fire", (U, MP, MP.replace("result[2] += m.value", "result[3] += m.value", 1).replace(
    "else:\n            result[3]", "else:\n            result[2]")), "hard and unmaintainable cells swapped", "make_profile")
V("C02", "profile-plus1", "fire", (U, MP, MP.replace("result[1] += m.value", "result[1] += 1")), "LOC profile counts functions in one cell", "make_profile")
V("C02", "profile-equiv-lt16", "silent", (U, MP, MP.replace("m.value <= 15", "m.value < 16").replace("m.value <= 60", "m.value < 61")),
  "same partition written with strict comparisons")
V("C02", "profile-equiv-reordered", "silent", (U, MP, """        if m.value > 60:
            result[3] += m.value
        elif m.value > 30:
            result[2] += m.value
        elif 15 < m.value:
            result[1] = result[1] + m.value
        else:
            result[0] += m.value
"""), "same partition, branches reordered, x = x + t form")
MCP = """        if m.value <= 15:
            result[0] += 1
        elif m.value <= 30:
            result[1] += 1
        elif m.value <= 60:
            result[2] += 1
"""
V("C02", "count-lt60", "fire", (U, MCP, MCP.replace("m.value <= 60", "m.value < 60")), "60 counted unmaintainable", "make_count_profile")
V("C02", "style-ge60", "fire", (U, "    if value > 60:\n        return Style(color=\"red\")", "    if value >= 60:\n        return Style(color=\"red\")"),
  "60 shown red", "get_style_for_measurement")
V("C02", "style-colour-swap", "fire", (U, "    elif value > 15:\n        return Style(color=\"yellow\")", "    elif value > 15:\n        return Style(color=\"green\")"),
  "verbose shown green", "get_style_for_measurement")
V("C02", "emoji-gt31", "fire", (U, "    elif value > 30:\n        return \"\\u26A0\"", "    elif value > 31:\n        return \"\\u26A0\""),
  "31 shown with a check mark", "get_emoji_for_measurement")
V("C02", "format-unit-16", "fire", (U, "    elif length > 15:\n        color = \"yellow\"", "    elif length > 16:\n        color = \"yellow\""),
  "16 shown green", "format_unit")
V("C02", "format-unit-width-silent", "silent", (U, "if length < 1000 else", "if length < 10000 else"), "column width, not a category")
V("C02", "checkresult-lt60", "fire", (CR, "if 30 < m.value <= 60]", "if 30 < m.value < 60]"), "60 not counted at all", "CheckResult.add")
V("C02", "checkresult-ge60", "fire", (CR, "if m.value > 60]", "if m.value >= 60]"), "60 counted twice", "CheckResult.add")
V("C02", "checkresult-equiv", "silent", (CR, "if 30 < m.value <= 60]", "if m.value >= 31 and not m.value > 60]"), "same region")
V("C02", "checkfile-ge30", "fire", (CHK, "[m for m in measurements if m.value > 30]", "[m for m in measurements if m.value >= 30]"),
  "30 listed by check", "check_file")
V("C02", "checkfile-asc", "fire", (CHK, "                reverse=True,\n", "                reverse=False,\n"), "shortest first", "check_file/order")
V("C02", "checkfile-nosort", "fire", (CHK, """            risks = sorted(
                [m for m in measurements if m.value > 30],
                key=lambda measurement: measurement.value,
                reverse=True,
            )
""", "            risks = [m for m in measurements if m.value > 30]\n"), "source order instead of longest first", "check_file/order")
V("C02", "checkfile-negkey-silent", "silent", (CHK, """                key=lambda measurement: measurement.value,
                reverse=True,
""", "                key=lambda measurement: -measurement.value,\n"), "descending via negated key")
V("C02", "exit-on-hard", "fire", (CHK, "exit_code = 1 if check_result.unmaintainable > 0 else 0",
                                   "exit_code = 1 if check_result.hard_to_maintain > 0 else 0"), "alarm on hard-to-maintain", "exit-status")
V("C02", "exit-ge0", "fire", (CHK, "exit_code = 1 if check_result.unmaintainable > 0 else 0",
                               "exit_code = 1 if check_result.unmaintainable >= 0 else 0"), "always alarms", "exit-status")
V("C02", "exit-gt1", "fire", (CHK, "exit_code = 1 if check_result.unmaintainable > 0 else 0",
                               "exit_code = 1 if check_result.unmaintainable > 1 else 0"), "one unmaintainable function tolerated", "exit-status")
V("C02", "quiet-and", "fire", (CHK, "            not quiet\n            or check_result.hard_to_maintain > 0\n",
                                "            not quiet\n            and check_result.hard_to_maintain > 0\n"), "quiet logic", "report-guard")
V("C02", "quiet-drops-hard", "fire", (CHK, "            or check_result.hard_to_maintain > 0\n", ""), "quiet hides hard-to-maintain", "report-guard")
V("C02", "exit-equiv-silent", "silent", (CHK, "exit_code = 1 if check_result.unmaintainable > 0 else 0",
                                          "exit_code = 0 if check_result.unmaintainable == 0 else 1"), "same decision")
V("C02", "summary-count-hard-only", "fire", (CR, "{self.hard_to_maintain + self.unmaintainable} functions need",
                                              "{self.hard_to_maintain} functions need"), "summary count", "summary-count")
V("C02", "summary-guard", "fire", (CR, "if self.hard_to_maintain > 0 or self.unmaintainable > 0:", "if self.unmaintainable > 0:"),
  "summary guard", "summary-guard")
V("C02", "findings-threshold-31", "fire", (FT, "all_report_units_sorted_by_length_asc(30)", "all_report_units_sorted_by_length_asc(31)"),
  "text findings drop 31", "print_findings")
V("C02", "findings-threshold-md-29", "fire", (FM, "all_report_units_sorted_by_length_asc(30)", "all_report_units_sorted_by_length_asc(29)"),
  "markdown findings include 30", "print_findings")
V("C02", "findings-ge-threshold", "fire", (REP, "if m.value > threshold:", "if m.value >= threshold:"), "30 is a finding", "print_findings")
V("C02", "findings-asc", "fire", (REP, "key=lambda unit: unit.measurement.value, reverse=True)", "key=lambda unit: unit.measurement.value)"),
  "findings shortest first", "order")
V("C02", "md-symbol-59", "fire", (FM, '        type = "\\u274C" if unit.measurement.value > 60 else "\\u26A0"',
                                   '        type = "\\u274C" if unit.measurement.value > 59 else "\\u26A0"'), "60 shown as unmaintainable", "_print_findings_without_repository")
V("C02", "langtotals-swap", "fire", (LT, "self.hard_to_maintain += profile[2]\n        self.unmaintainable += profile[3]",
                                      "self.hard_to_maintain += profile[3]\n        self.unmaintainable += profile[2]"), "counters swapped", "LanguageTotals.add")
V("C02", "langtotals-profile1", "fire", (LT, "self.hard_to_maintain += profile[2]", "self.hard_to_maintain += profile[1]"),
  "verbose counted as hard", "LanguageTotals.add")
V("C02", "new-filter-site", "fire", (FT, "    total_findings = len(functions)\n    if not full and total_findings > 10:\n        functions = functions[:10]\n    for function in functions:",
                                      "    functions = [f for f in functions if f.measurement.value > 35]\n    total_findings = len(functions)\n    if not full and total_findings > 10:\n        functions = functions[:10]\n    for function in functions:"),
  "extra filter at a non-threshold boundary", "print_findings")

# ------------------------------------------------------------------ C15
PAT = "codelimit/common/gsm/Pattern.py"
BAL = "codelimit/common/token_matching/predicate/Balanced.py"
JAVA = "codelimit/languages/Java.py"
JS = "codelimit/languages/JavaScript.py"
TS = "codelimit/languages/TypeScript.py"
PYL = "codelimit/languages/Python.py"
V("C15", "no-open-priority", "fire", (PAT, "        if open_transitions:\n            transitions = open_transitions\n", ""),
  "pre-fix behaviour: '=>' inside the parameter list is ambiguous", ["JavaScript.extract_headers/pattern#1", "TypeScript.extract_headers/pattern#1"])
V("C15", "is-open-gt1", "fire", (BAL, "    def is_open(self) -> bool:\n        return self.depth > 0", "    def is_open(self) -> bool:\n        return self.depth > 1"),
  "priority only from depth 2", "pattern#1")
V("C15", "java-follow-not", "fire", (JAVA, "ZeroOrMore(And(Not(';'), Not('{')))", "ZeroOrMore(Not(';'))"),
  "'{' accepted by the throws-list and by the block symbol", "Java.extract_headers/pattern#0/follow-up")
V("C15", "js-function-tokenvalue", "fire", (JS, "[Optional(Keyword(\"function\")), Name(), OneOrMore(Balanced(\"(\", \")\"))]",
                                            "[Optional(TokenValue(\"function\")), Name(), OneOrMore(Balanced(\"(\", \")\"))]"),
  "value-only test overlaps Name (needs import, variant adds it)", "JavaScript.extract_headers/pattern#0")
VARIANTS[-1]["edits"].append((JS, "from codelimit.common.token_matching.predicate.Symbol import Symbol\n",
                              "from codelimit.common.token_matching.predicate.Symbol import Symbol\nfrom codelimit.common.token_matching.predicate.TokenValue import TokenValue\n"))
V("C15", "ts-arrow-optional-name", "fire", (TS, "                Optional(Keyword(\"const\")),\n                Name(),\n                Operator(\"=\"),",
                                            "                Optional(Name()),\n                Name(),\n                Operator(\"=\"),"),
  "two Name transitions are merged by equality: stays deterministic?  No: Optional(Name) then Name - same predicate, DFA merges; "
  "kept as a silent control", None)
VARIANTS[-1]["expect"] = "silent"
V("C15", "keyword-ignores-kind", "fire", ("codelimit/common/token_matching/predicate/Keyword.py",
                                          "if token.is_keyword() and token.value == self.keyword:", "if token.value == self.keyword:"),
  "Keyword('function') now also accepts a Name token spelled 'function'", "JavaScript.extract_headers/pattern#0")
V("C15", "consume-renamed-silent", "silent", (PAT, "open_transitions", "still_open", 3), "local renamed")
V("C15", "python-pattern-equiv-silent", "silent", (PYL, "[Keyword(\"def\"), Name(), OneOrMore(Balanced(\"(\", \")\"))]",
                                                   "[Keyword(\"def\"), Name(), OneOrMore([Balanced(\"(\", \")\")])]"), "list-wrapped operand")

# ------------------------------------------------------------------ C13
EXPR = "codelimit/common/gsm/Expression.py"
OPD = "codelimit/common/gsm/operator/"
MATCHER = "codelimit/common/gsm/matcher.py"
PRD = "codelimit/common/token_matching/predicate/"
EC_NEW = """    if result is None:
        result = set()
    if isinstance(states, State):
        states = {states}
    for state in states:
        if state in result:
            continue
        result.add(state)
        epsilon_closure(state.epsilon_transitions, result)
    return result
"""
V("C13", "closure-unguarded", "fire", (EXPR, EC_NEW, """    result = set()
    if isinstance(states, State):
        states = {states}
    for state in states:
        result.add(state)
        for s in state.epsilon_transitions:
            result.update(epsilon_closure(s))
    return result
"""), "pre-fix: unbounded recursion on epsilon cycles", "epsilon_closure/recursion")
V("C13", "closure-guard-not-threaded", "fire", (EXPR, "        epsilon_closure(state.epsilon_transitions, result)\n",
                                               "        result.update(epsilon_closure(state.epsilon_transitions))\n"),
  "visited set not passed down: each level starts empty", "epsilon_closure/recursion")
V("C13", "closure-iterative-silent", "silent", (EXPR, EC_NEW, """    if result is None:
        result = set()
    if isinstance(states, State):
        states = {states}
    todo = list(states)
    while todo:
        state = todo.pop()
        if state in result:
            continue
        result.add(state)
        todo.extend(state.epsilon_transitions)
    return result
"""), "worklist form of the same closure")
V("C13", "optional-no-bypass", "fire", (OPD + "Optional.py", "start.epsilon_transitions = [nfa.start, accepting]", "start.epsilon_transitions = [nfa.start]"),
  "Optional(x) == x", "rule=R")
V("C13", "oneormore-bypass", "fire", (OPD + "OneOrMore.py", "start.epsilon_transitions = [nfa.start]", "start.epsilon_transitions = [nfa.start, accepting]"),
  "OneOrMore(x) == x*", "rule=R")
V("C13", "zeroormore-no-back-edge", "fire", (OPD + "ZeroOrMore.py", "nfa.accepting.epsilon_transitions = [nfa.start, accepting]", "nfa.accepting.epsilon_transitions = [accepting]"),
  "ZeroOrMore(x) == x?", "rule=R")
V("C13", "concat-swapped", "fire", (OPD + "Concat.py", "        nfa2.accepting.assign(nfa1.start)\n        nfa = NFA(nfa2.start, nfa1.accepting)",
                                    "        nfa1.accepting.assign(nfa2.start)\n        nfa = NFA(nfa1.start, nfa2.accepting)"),
  "sequence reversed", "rule=R")
V("C13", "union-drops-right", "fire", (OPD + "Union.py", "start.epsilon_transitions = [nfa1.start, nfa2.start]", "start.epsilon_transitions = [nfa1.start]"),
  "Union(x, y) == x", "rule=R")
V("C13", "union-right-not-accepting", "fire", (OPD + "Union.py", "        nfa2.accepting.epsilon_transitions = [accepting]\n", ""),
  "right alternative never accepts", "rule=R")
V("C13", "zeroormore-append-silent", "silent", (OPD + "ZeroOrMore.py", "        start.epsilon_transitions = [nfa.start, accepting]\n",
                                                "        start.epsilon_transitions.append(accepting)\n        start.epsilon_transitions.append(nfa.start)\n"),
  "same edges, built with append in another order")
V("C13", "sequence-reversed", "fire", (EXPR, "    for item in op_expression:\n", "    for item in reversed(op_expression):\n"), "items applied right to left", "rule=R")
V("C13", "keyword-hash-id", "fire", (PRD + "Keyword.py", "        return hash(self.keyword)", "        return hash(id(self))"),
  "equal predicates hash differently: duplicate DFA symbols", "Keyword/hash")
V("C13", "symbol-eq-any", "fire", (PRD + "Symbol.py", "        if not isinstance(other, Symbol):\n            return False\n        return self.symbol == other.symbol",
                                   "        return getattr(other, 'symbol', None) == self.symbol"),
  "Symbol('=') == Operator('='): distinct symbols merged", "Symbol/eq-own-class")
V("C13", "balanced-hash-extra", "fire", (PRD + "Balanced.py", "        return hash((self.left, self.right, self.depth))", "        return hash((self.left, self.right, self.depth, self.satisfied))"),
  "hash reads a field __eq__ ignores", "Balanced/hash-subset")
V("C13", "dfa-start-no-closure", "fire", (EXPR, "stack = [(start, epsilon_closure(nfa.start))]", "stack = [(start, {nfa.start})]"),
  "patterns starting with an operator never match", "rule=R")
V("C13", "dfa-target-no-closure", "fire", (EXPR, "new_states = epsilon_closure(move(T, predicate))", "new_states = move(T, predicate)"),
  "epsilon edges after a symbol are lost", "rule=R")
V("C13", "move-neq", "fire", (EXPR, "if transition[0] == symbol:", "if transition[0] != symbol:"), "move follows the wrong symbols", "rule=R")
V("C13", "startswith-accept-before-consume", "fire", (MATCHER, """        next_state = pattern.consume(item)
        if not next_state:
            return None
        if pattern.is_accepting():
            pattern.end = len(pattern.tokens)
            return pattern
    return None
""", """        if pattern.is_accepting():
            pattern.end = len(pattern.tokens)
            return pattern
        next_state = pattern.consume(item)
        if not next_state:
            return None
    return None
"""), "accepting test before the item is consumed", "starts_with/")
V("C13", "match-returns-prefix", "fire", (MATCHER, """        next_state = pattern.consume(item)
        if not next_state:
            return None
    if pattern.is_accepting():
        pattern.end = len(pattern.tokens)
        return pattern
""", """        next_state = pattern.consume(item)
        if not next_state:
            return None
        if pattern.is_accepting():
            pattern.end = len(pattern.tokens)
            return pattern
    if pattern.is_accepting():
        pattern.end = len(pattern.tokens)
        return pattern
"""), "a matching prefix counts as a full match", "match/")

# ------------------------------------------------------------------ C14
SU = "codelimit/common/scope/scope_utils.py"
DRAIN = """    for pattern in fs.active_patterns:
        if fs.matches and pattern.start < fs.matches[-1].end:
            continue
        if pattern.is_accepting():
"""
V("C14", "drain-unguarded", "fire", (MATCHER, DRAIN, "    for pattern in fs.active_patterns:\n        if pattern.is_accepting():\n"),
  "pre-fix: overlapping matches at end of input", "find_all/")
V("C14", "main-guard-le", "fire", (MATCHER, "            if fs.matches and pattern.start < fs.matches[-1].end:\n                continue\n            if len(",
                                  "            if fs.matches and pattern.start <= fs.matches[-1].end:\n                continue\n            if len("),
  "adjacent matches dropped", "find_all/")
V("C14", "main-guard-removed", "fire", (MATCHER, "            if fs.matches and pattern.start < fs.matches[-1].end:\n                continue\n            if len(", "            if len("),
  "overlapping matches in the main loop", "find_all/")
V("C14", "guard-positive-form-silent", "silent", (MATCHER, DRAIN, """    for pattern in fs.active_patterns:
        if not fs.matches or pattern.start >= fs.matches[-1].end:
          if pattern.is_accepting():
""".replace("          if", "            if")), "same guard in positive form")
VARIANTS[-1]["edits"] = [(MATCHER, DRAIN + "            pattern.end = len(sequence)\n            fs.matches.append(pattern)\n",
                          "    for pattern in fs.active_patterns:\n        if not fs.matches or pattern.start >= fs.matches[-1].end:\n"
                          "            if pattern.is_accepting():\n                pattern.end = len(sequence)\n                fs.matches.append(pattern)\n")]
V("C14", "end-idx-plus1", "fire", (MATCHER, "            if len(pattern.state.transition) == 0 and pattern.is_accepting():\n                pattern.end = idx\n",
                                   "            if len(pattern.state.transition) == 0 and pattern.is_accepting():\n                pattern.end = idx + 1\n"),
  "end one past the exclusive end", "find_all/")
V("C14", "drain-end-minus1", "fire", (MATCHER, "pattern.end = len(sequence)\n", "pattern.end = len(sequence) - 1\n"), "last item cut off", "find_all/")
V("C14", "report-nonaccepting", "fire", (MATCHER, "            else:\n                if pattern.is_accepting():\n                    pattern.end = idx\n                    fs.matches.append(pattern)\n",
                                         "            else:\n                pattern.end = idx\n                fs.matches.append(pattern)\n"),
  "attempts that merely got stuck are reported", "find_all/")
V("C14", "report-early", "fire", (MATCHER, "            if len(pattern.state.transition) == 0 and pattern.is_accepting():", "            if pattern.is_accepting():"),
  "shortest instead of longest match", "find_all/")
V("C14", "balanced-ge0", "fire", (BAL, "            return self.depth > 0", "            return self.depth >= 0"), "accepts anything at depth 0", "Balanced.accept/table")
V("C14", "balanced-no-decrement", "fire", (BAL, "            self.depth -= 1\n", "            self.depth -= 0\n"), "group never closes", "Balanced.accept/table")
V("C14", "balanced-le0", "fire", (BAL, "            if self.depth < 0:\n                return False", "            if self.depth <= 0:\n                return False"),
  "closing parenthesis of the outermost group rejected", "Balanced.accept/table")
V("C14", "attempts-inserted-front", "fire", (MATCHER, "fs.active_patterns.append(Pattern(idx, dfa))", "fs.active_patterns.insert(0, Pattern(idx, dfa))"),
  "later starts are tried first", "find_all/")
V("C14", "follow-from-end-plus1", "fire", (SU, "starts_with(followed_by, tokens[p.end:])", "starts_with(followed_by, tokens[p.end + 1:])"),
  "follow-up pattern matched one token late", "follow-slice")
V("C14", "header-range-start-start", "fire", (SU, "TokenRange(pattern.start, pattern.end)", "TokenRange(pattern.start, pattern.end - 1)"),
  "header range loses its last token", "token-range")

# ------------------------------------------------------------------ C08
RW = "codelimit/common/report/ReportWriter.py"
RR = "codelimit/common/report/ReportReader.py"
V("C08", "file-key-unescaped", "fire", (RW, "    def _file_to_json(self, name: str, entry: SourceFileEntry):\n        json = \"\"\n        json += self._open(f'{_string(name)}: {{')",
                                         "    def _file_to_json(self, name: str, entry: SourceFileEntry):\n        json = \"\"\n        json += self._open(f'\"{name}\": {{')"),
  "pre-fix: a path containing a quote breaks the document", "_file_to_json")
V("C08", "unit-name-unescaped", "fire", (RW, "f'{{\"unit_name\": {_string(measurement.unit_name)}, '", "f'{{\"unit_name\": \"{measurement.unit_name}\", '"),
  "pre-fix: function name pasted between quotes", "_measurement_to_json")
V("C08", "branch-bare", "fire", (RW, "f'\"branch\": {_string(self.report.repository.branch)}'", "f'\"branch\": {self.report.repository.branch}'"),
  "string emitted bare", "_repository_to_json")
V("C08", "folder-entry-raw", "fire", (RW, "return self._line(_string(entry.name))", "return self._line(f'\"{entry.name}\"')"), "pre-fix folder entry name", "_source_folder_entry_to_json")
V("C08", "version-not-restored", "fire", (RR, "        report.version = d[\"version\"] if \"version\" in d else None\n", ""), "pre-fix: re-read report carries the running version", "from_json/version")
V("C08", "version-or-default", "fire", (RR, "report.version = d[\"version\"] if \"version\" in d else None", "report.version = d.get(\"version\") or Report.VERSION"),
  "falls back to the running version", "from_json/version")
V("C08", "version-get-silent", "silent", (RR, "report.version = d[\"version\"] if \"version\" in d else None", "report.version = d.get(\"version\")"), "same restoration")
V("C08", "uuid-not-restored", "fire", (RR, "        report.uuid = d[\"uuid\"]\n", ""), "identifier regenerated on read", "from_json/uuid")
V("C08", "reader-key-renamed", "fire", (RR, "v[\"loc\"]", "v[\"lines_of_code\"]"), "reader asks for a key the writer does not emit there", "from_json/codebase/files/*/lines_of_code")
V("C08", "writer-key-renamed", "fire", (RW, "f'\"checksum\": {_string(entry.checksum())}'", "f'\"md5\": {_string(entry.checksum())}'"),
  "writer renames a key the reader needs", "checksum")
V("C08", "compact-drops-profile", "fire", (RW, "    def _file_profile_to_json(self, entry: SourceFileEntry):\n        return self._line(f'\"profile\": {entry.profile()}')",
                                           "    def _file_profile_to_json(self, entry: SourceFileEntry):\n        if not self.pretty_print:\n            return self._line('\"profile\": []')\n        return self._line(f'\"profile\": {entry.profile()}')"),
  "compact form carries different content", "reads-pretty_print")
V("C08", "compact-separator", "fire", (RW, "separator = \",\\n\" if self.pretty_print else \", \"", "separator = \",\\n\" if self.pretty_print else \" \""),
  "compact form loses the commas", "_collection/layout-only")
V("C08", "pretty-indent-4-silent", "silent", (RW, "self.level += 2", "self.level += 4"), "layout only")
V("C08", "string-helper-renamed-silent", "silent", (RW, "_string", "_json_str", 15), "wrapper renamed")

# ------------------------------------------------------------------ C10
SCANCMD = "codelimit/commands/scan.py"
TRY_READ = """        try:
            cached_report = ReportReader.from_json(report_path.read_text())
        except Exception:
            return None
"""
V("C10", "parse-unguarded", "fire", (SCANCMD, TRY_READ, "        cached_report = ReportReader.from_json(report_path.read_text())\n"),
  "pre-fix: a truncated cache crashes every later scan", "_read_cached_report/parse")
V("C10", "handler-keyerror-only", "fire", (SCANCMD, "        except Exception:\n            return None\n", "        except KeyError:\n            return None\n"),
  "empty / truncated file raises ValueError", "ValueError")
V("C10", "handler-valueerror-only", "fire", (SCANCMD, "        except Exception:\n            return None\n", "        except ValueError:\n            return None\n"),
  "JSON of the wrong shape raises KeyError/TypeError", "KeyError")
V("C10", "handler-explicit-tuple-silent", "silent", (SCANCMD, "        except Exception:\n", "        except (ValueError, LookupError, TypeError, AttributeError, OSError):\n"),
  "explicit complete tuple")
V("C10", "read-outside-try", "fire", (SCANCMD, TRY_READ, """        text = report_path.read_text()
        try:
            cached_report = ReportReader.from_json(text)
        except Exception:
            return None
"""), "a write cut inside a multi-byte character raises UnicodeDecodeError outside the handler", "UnicodeDecodeError")
V("C10", "handler-reraises", "fire", (SCANCMD, "        except Exception:\n            return None\n", "        except Exception:\n            raise\n"), "handler re-raises", "handler-reraises")
V("C10", "write-only-without-cache-file", "fire", (SCANCMD, "    report_path.write_text(ReportWriter(report).to_json())\n",
                                                     "    if not report_path.exists():\n        report_path.write_text(ReportWriter(report).to_json())\n"),
  "report only written when no cache file exists: a damaged cache is never replaced", "rule=R")
V("C10", "mkdir-unguarded", "fire", (SCANCMD, "    if not cache_dir.exists():\n        cache_dir.mkdir()\n", "    cache_dir.mkdir()\n"),
  "second scan fails with FileExistsError", "rule=R")
V("C10", "atomic-replace-silent", "silent", (SCANCMD, "    report_path.write_text(ReportWriter(report).to_json())\n",
                                              "    tmp_path = report_path.with_suffix(\".tmp\")\n    tmp_path.write_text(ReportWriter(report).to_json())\n    tmp_path.replace(report_path)\n"),
  "atomic replace through a truncating temp file is accepted")
V("C10", "atomic-replace-exclusive-temp", "fire", (SCANCMD, "    report_path.write_text(ReportWriter(report).to_json())\n",
                                                     "    tmp_path = report_path.with_suffix(\".tmp\")\n    with open(tmp_path, \"x\") as f:\n        f.write(ReportWriter(report).to_json())\n    tmp_path.replace(report_path)\n"),
  "a temp file left by an interrupted write makes every later scan fail with FileExistsError", "rule=R")
V("C10", "markers-only-with-new-dir", "fire", (SCANCMD, """    cache_dir_tag = cache_dir.joinpath("CACHEDIR.TAG").resolve()
    cache_dir_tag.write_text("Signature: 8a477f597d28d172789f06886806bc55")
    cache_dir_gitignore = cache_dir.joinpath(".gitignore").resolve()
    cache_dir_gitignore.write_text("# Created by codelimit automatically.\\n*\\n")
""", """        cache_dir_tag = cache_dir.joinpath("CACHEDIR.TAG").resolve()
        cache_dir_tag.write_text("Signature: 8a477f597d28d172789f06886806bc55")
        cache_dir_gitignore = cache_dir.joinpath(".gitignore").resolve()
        cache_dir_gitignore.write_text("# Created by codelimit automatically.\\n*\\n")
"""), "marker files only written with a new directory (the state before fix 2d84a53): a scan interrupted after mkdir leaves the cache without markers for ever", "rule=R5")
V("C10", "markers-only-when-missing-silent", "silent", (SCANCMD, """    cache_dir_tag.write_text("Signature: 8a477f597d28d172789f06886806bc55")
""", """    if not cache_dir_tag.exists() or cache_dir_tag.read_text() != "Signature: 8a477f597d28d172789f06886806bc55":
        cache_dir_tag.write_text("Signature: 8a477f597d28d172789f06886806bc55")
"""), "the tag is rewritten only when it is missing or differs")
V("C10", "markers-only-when-absent", "fire", (SCANCMD, """    cache_dir_tag.write_text("Signature: 8a477f597d28d172789f06886806bc55")
""", """    if not cache_dir_tag.exists():
        cache_dir_tag.write_text("Signature: 8a477f597d28d172789f06886806bc55")
"""), "a tag file cut short by an interrupted scan is never completed", "rule=R5")
V("C10", "reader-untyped-language", "fire", (RR, '_typed(v["language"], str)', 'v["language"]'),
  "a cache entry with language null is reused (the state before fix d97359d)", "rule=R")
V("C10", "reader-untyped-line", "fire", (RR, '_typed(d["line"], int)', 'd["line"]'),
  "a cache entry with a string as line number is reused and written back as invalid JSON", "rule=R")
V("C10", "reader-measurements-any-iterable", "fire", (RR, '_typed(v["measurements"], list)', 'v["measurements"]'),
  "an object in place of the list of measurements is read as 'no functions'", "rule=R")
V("C10", "reader-missing-measurements-default", "fire", (RR, '_typed(v["measurements"], list)', '_typed(v.get("measurements", []), list)'),
  "a record without measurements is read as 'no functions'", "rule=R")
V("C10", "reader-skips-bad-records-silent", "silent", (RR, """            codebase.add_file(
                SourceFileEntry(
                    k,
                    _typed(v["checksum"], str),
                    _typed(v["language"], str),
                    _typed(v["loc"], int),
                    measurements,
                )
            )
""", """            try:
                entry = SourceFileEntry(
                    k,
                    _typed(v["checksum"], str),
                    _typed(v["language"], str),
                    _typed(v["loc"], int),
                    measurements,
                )
            except (KeyError, TypeError, ValueError):
                continue
            codebase.add_file(entry)
"""), "a record that fails validation is skipped before it is registered: its file is analysed afresh")
V("C10", "reader-bool-is-int", "silent", (RR, "    if not isinstance(value, expected) or isinstance(value, bool):", "    if not isinstance(value, expected) or (expected is int and value is True or value is False):"),
  "the bool exclusion written differently")

# ------------------------------------------------------------------ C09
SCN = "codelimit/common/Scanner.py"
UT = "codelimit/utils.py"
V("C09", "reuse-without-checksum", "fire", (SCN, "    if cached_entry and cached_entry.checksum() == checksum:", "    if cached_entry:"),
  "modified file keeps its old measurements", "rule=R")
V("C09", "reuse-checksum-self", "fire", (SCN, "    if cached_entry and cached_entry.checksum() == checksum:", "    if cached_entry and cached_entry.checksum() == cached_entry.checksum():"),
  "guard compares the cache with itself", "rule=R")
V("C09", "lookup-by-basename", "fire", (SCN, "            cached_entry = cached_report.codebase.files[rel_path]", "            cached_entry = cached_report.codebase.files[os.path.basename(path)]"),
  "entry of another directory's file with the same name", "rule=R")
V("C09", "version-guard-removed", "fire", (SCANCMD, "        if cached_report and cached_report.version == Report.VERSION:", "        if cached_report:"),
  "cache of any version reused", "rule=R")
V("C09", "version-not-restored", "fire", (RR, "        report.version = d[\"version\"] if \"version\" in d else None\n", ""),
  "pre-fix: guard compares the running version with itself", "rule=R")
V("C09", "version-guard-on-document-silent", "silent", (SCANCMD, """        try:
            cached_report = ReportReader.from_json(report_path.read_text())
        except Exception:
            return None
        if cached_report and cached_report.version == Report.VERSION:
            return cached_report
""", """        try:
            text = report_path.read_text()
            if ReportReader.get_report_version(text) != Report.VERSION:
                return None
            return ReportReader.from_json(text)
        except Exception:
            return None
"""), "guard evaluated on the document text")
V("C09", "read-report-no-refusal", "fire", (UT, "    if report_version != Report.VERSION:\n        console.print(\"[red]Report version mismatch, run scan first[/red]\")\n        raise typer.Exit(code=1)\n    return ReportReader.from_json(report_data)",
                                            "    if report_version != Report.VERSION:\n        console.print(\"[red]Report version mismatch, run scan first[/red]\")\n    return ReportReader.from_json(report_data)"),
  "mismatch only warns", "read_report")
V("C09", "diff-report-bypasses", "fire", ("codelimit/commands/report.py", "    diff_report = read_report(diff_path, stdout) if diff_path else None",
                                         "    diff_report = ReportReader.from_json(diff_path.read_text()) if diff_path else None"),
  "the --diff report is read without the version check", "report_command")
VARIANTS[-1]["edits"].append(("codelimit/commands/report.py", "from codelimit.utils import read_report, make_report_path\n",
                              "from codelimit.utils import read_report, make_report_path\nfrom codelimit.common.report.ReportReader import ReportReader\n"))
V("C09", "result-seeded-from-cache", "fire", (SCN, "    result = Codebase(str(path.resolve().absolute()))\n", "    result = cached_report.codebase if cached_report else Codebase(str(path.resolve().absolute()))\n"),
  "deleted files survive from the cache", "scan_path/result")

# ------------------------------------------------------------------ C06
V("C06", "consume-break-first", "fire", (PAT, "                found_transition = True\n                self.tokens.append(item)\n                self.state = transition[1]\n",
                                         "                found_transition = True\n                self.tokens.append(item)\n                self.state = transition[1]\n                break\n"),
  "first accepting transition wins: depends on transition list order (hash seed)", "first-match")
V("C06", "consume-no-raise", "fire", (PAT, "                if found_transition:\n                    raise ValueError(\"Multiple transitions found!\")\n", ""),
  "last accepting transition silently wins", "no-raise")
V("C06", "no-deepcopy", "fire", (PAT, "            self.predicate_map[predicate_id] = deepcopy(predicate)", "            self.predicate_map[predicate_id] = predicate"),
  "Balanced.depth shared between attempts and files", "Pattern.consume")
V("C06", "copy-map-by-class", "silent", (PAT, "predicate_id = id(predicate)", "predicate_id = id(predicate)  # key"), "comment only")
V("C06", "module-level-dfa-cache", "fire", (MATCHER, "def find_all(expression: Expression, sequence: list) -> list[Pattern]:\n    dfa = nfa_to_dfa(expression_to_nfa(expression))\n",
                                            "_DFA_CACHE: dict = {}\n\n\ndef find_all(expression: Expression, sequence: list) -> list[Pattern]:\n    key = str(expression)\n    if key not in _DFA_CACHE:\n        _DFA_CACHE[key] = nfa_to_dfa(expression_to_nfa(expression))\n    dfa = _DFA_CACHE[key]\n"),
  "mutable cache hoisted to module level and written during analysis", "_DFA_CACHE")
V("C06", "default-excludes-in-place", "fire", (SCN, "    excludes = DEFAULT_EXCLUDES.copy()\n", "    excludes = DEFAULT_EXCLUDES\n"),
  "built-in exclusions grow with every scan of the process", "DEFAULT_EXCLUDES")
V("C06", "state-set-id-unsorted-silent", "silent", (EXPR, "def state_set_id(states: set[State]) -> str:\n    return \", \".join([str(id) for id in sorted([state.id for state in states])])",
                                                "def state_set_id(states: set[State]) -> str:\n    return \", \".join([str(state.id) for state in states])"),
  "the identity string of a state set depends on iteration order: equal subsets may be expanded twice (duplicate DFA states), but the "
  "automaton's language and every match are the same under both set orders (R8) - results do not depend on the hash seed")
V("C06", "uuid-in-measurement", "fire", (SCN, "    file_loc = sum([m.value for m in measurements])\n", "    file_loc = sum([m.value for m in measurements])\n    logging.info(str(uuid4()))\n"),
  "random source on the analysis path", "uuid4")
VARIANTS[-1]["edits"].append((SCN, "import locale\n", "import locale\nfrom uuid import uuid4\n"))
V("C06", "languages-counter-write", "fire", (SCN, "    language = Languages.by_name[language_name]\n", "    language = Languages.by_name[language_name]\n    Languages.by_name[language_name] = language\n"),
  "registry written during analysis", "Languages.by_name")
V("C06", "python-two-balanced", "fire", (PYL, "[Keyword(\"def\"), Name(), OneOrMore(Balanced(\"(\", \")\"))]", "[Keyword(\"def\"), Name(), Balanced(\"(\", \")\"), ZeroOrMore(Balanced(\"(\", \")\"))]"),
  "two equal stateful atoms merged through a set", "duplicate-stateful-atom")
VARIANTS[-1]["edits"].append((PYL, "from codelimit.common.gsm.operator.OneOrMore import OneOrMore\n",
                              "from codelimit.common.gsm.operator.OneOrMore import OneOrMore\nfrom codelimit.common.gsm.operator.ZeroOrMore import ZeroOrMore\n"))
V("C14", "drain-fresh-local-silent", "silent", (MATCHER, """        if fs.matches and pattern.start < fs.matches[-1].end:
            continue
        if pattern.is_accepting():
            pattern.end = len(sequence)""", """        last_end = fs.matches[-1].end if fs.matches else 0
        if pattern.start < last_end:
            continue
        if pattern.is_accepting():
            pattern.end = len(sequence)"""), "last end recomputed in every iteration")
V("C14", "drain-stale-local", "fire", (MATCHER, """    for pattern in fs.active_patterns:
        if fs.matches and pattern.start < fs.matches[-1].end:
            continue
        if pattern.is_accepting():
            pattern.end = len(sequence)""", """    last_end = fs.matches[-1].end if fs.matches else 0
    for pattern in fs.active_patterns:
        if pattern.start < last_end:
            continue
        if pattern.is_accepting():
            pattern.end = len(sequence)"""), "end read once before the loop", "find_all/")

# ------------------------------------------------------------------ C12
V("C12", "check-open-bare", "fire", (CHK, "        code = _read_file(path)\n", "        with open(path) as f:\n            code = f.read()\n"),
  "pre-fix: check has no latin-1 fallback", "check_file/decoding")
V("C12", "check-filters-comments", "fire", (CHK, "tokens = lex(lexer, code, False)", "tokens = lex(lexer, code, True)"), "nocl marker invisible to check", "lex-filter")
V("C12", "check-file-arg-not-excluded", "fire", (CHK, "            if is_excluded(rel_path, excludes_spec):\n                return\n", "            pass\n"),
  "excluded file checked when named directly", "rule=R")
V("C12", "check-walk-not-excluded", "fire", (CHK, "                        if is_excluded(rel_path, excludes_spec):\n                            continue\n", "                        pass\n"),
  "excluded files checked through a directory", "rule=R")
V("C12", "check-dirs-rebound", "fire", (CHK, "                dirs[:] = [d for d in dirs if not d[0] == \".\"]", "                dirs = [d for d in dirs if not d[0] == \".\"]"),
  "hidden directories walked by check", "rule=R")
V("C12", "check-spec-other-root", "fire", (CHK, "excludes_spec = generate_exclude_spec(Path.cwd())", "excludes_spec = generate_exclude_spec(paths[0])"),
  "exclusion spec rooted elsewhere", "rule=R")
V("C12", "check-language-by-lexer-alias", "fire", (CHK, "lexer_name = Languages.by_name[lexer.__class__.name]", "lexer_name = Languages.by_name[lexer.__class__.aliases[0]]"),
  "language looked up by a different key", "check_file/language")
V("C12", "format-line-plus-one", "fire", (U, "    result.append(str(measurement.start.line))", "    result.append(str(measurement.start.line + 1))"),
  "check prints another line than scan stores", "format_measurement")
V("C12", "check-var-renamed-silent", "silent", (CHK, "        lexer_name = Languages.by_name[lexer.__class__.name]\n        if lexer_name:\n            measurements = scan_file(tokens, lexer_name)",
                                              "        language = Languages.by_name[lexer.__class__.name]\n        if language:\n            measurements = scan_file(tokens, language)"),
  "local renamed")

# ------------------------------------------------------------------ C03
V("C03", "python-header-eof", "fire", (PYL, "            if header.token_range.end >= len(tokens):\n                continue\n", ""),
  "pre-fix: 'def f(' at end of file -> IndexError", "tokens[header.token_range.end]")
V("C03", "python-header-guard-le", "fire", (PYL, "            if header.token_range.end >= len(tokens):", "            if header.token_range.end > len(tokens):"),
  "guard off by one", "tokens[header.token_range.end]")
V("C03", "python-header-guard-equiv-silent", "silent", (PYL, "            if header.token_range.end >= len(tokens):\n                continue\n            header_line_nr = tokens[header.token_range.end].location.line",
                                                       "            if not header.token_range.end < len(tokens):\n                continue\n            header_line_nr = tokens[header.token_range.end].location.line"),
  "same bound, other spelling")
V("C03", "check-relative-to-unguarded", "fire", (CHK, """                    try:
                        rel_path = abs_path.relative_to(Path.cwd())
                        if is_excluded(rel_path, excludes_spec):
                            continue
                    except ValueError:
                        pass
""", """                    rel_path = abs_path.relative_to(Path.cwd())
                    if is_excluded(rel_path, excludes_spec):
                        continue
"""), "pre-fix: check <dir outside cwd> -> ValueError", "check_command")
V("C03", "read-file-no-fallback", "fire", (SCN, """    try:
        with open(path) as f:
            return f.read()
    except UnicodeDecodeError:
        with open(path, encoding="latin-1") as f:
            return f.read()
""", """    with open(path) as f:
        return f.read()
"""), "non-UTF-8 file crashes scan and check", "_read_file")
V("C03", "read-file-errors-replace-silent", "silent", (SCN, "        with open(path, encoding=\"latin-1\") as f:", "        with open(path, errors=\"replace\") as f:"),
  "another total fallback")
V("C03", "lexer-lookup-unguarded", "fire", (CHK, "    try:\n        lexer = get_lexer_for_filename(path)\n    except ClassNotFound:\n        return\n", "    lexer = get_lexer_for_filename(path)\n"),
  "unsupported file name crashes check", "classnotfound")
V("C03", "by-name-unguarded", "fire", (SCN, "                if lexer_name in languages:\n                    file_entry = _scan_file(\n                        result, lexer, path, file_path, cached_report\n                    )\n                    if add_file_entry_callback:\n                        add_file_entry_callback(file_entry)",
                                       "                if True:\n                    file_entry = _scan_file(\n                        result, lexer, path, file_path, cached_report\n                    )\n                    if add_file_entry_callback:\n                        add_file_entry_callback(file_entry)"),
  "KeyError for a lexer without Language", "by_name-unguarded")
V("C03", "js-name-optional", "fire", (JS, "[Optional(Keyword(\"function\")), Name(), OneOrMore(Balanced(\"(\", \")\"))]", "[Keyword(\"function\"), Optional(Name()), OneOrMore(Balanced(\"(\", \")\"))]"),
  "anonymous 'function (' matches without a name token: StopIteration", "name-optional")
V("C03", "lex-loop-no-step", "fire", ("codelimit/common/lexer_utils.py", "                line_start = indices[newline_index] + 1\n                newline_index += 1\n", "                line_start = indices[newline_index] + 1\n"),
  "lexing wrapper hangs on the second line", "lex/while")
V("C03", "scope-tokens-no-pop", "fire", (SU, "            children_token_ranges.pop(0)\n", "            pass\n"), "hangs after the first nested function", "_scope_tokens/while")
V("C03", "unfold-self", "fire", (SU, "        result.extend(unfold_scopes(scope.children))", "        result.extend(unfold_scopes([scope]))"), "infinite recursion", "unfold_scopes")

# ------------------------------------------------------------------ C07
COB = "codelimit/common/Codebase.py"
STT = "codelimit/common/ScanTotals.py"
V("C07", "loc-counts-functions", "fire", (LT, "        self.loc += entry.loc\n", "        self.loc += len(entry.measurements())\n"), "language LOC counts functions", "LanguageTotals.add/loc")
V("C07", "functions-plus-one", "fire", (LT, "        self.functions += len(entry.measurements())\n", "        self.functions += 1\n"), "one function per file", "LanguageTotals.add/functions")
V("C07", "total-loc-sums-functions", "fire", (STT, "return sum([language.loc for language in self._languages_totals.values()])", "return sum([language.functions for language in self._languages_totals.values()])"),
  "grand total of the wrong field", "ScanTotals.total_loc")
V("C07", "merge-profiles-slip", "fire", (U, "rc1[2] + rc2[2], rc1[3] + rc2[3]]", "rc1[2] + rc2[2], rc1[3] + rc2[2]]"), "last position merged from the wrong cell", "merge_profiles")
V("C07", "merge-profiles-zip-silent", "silent", (U, "    return [rc1[0] + rc2[0], rc1[1] + rc2[1], rc1[2] + rc2[2], rc1[3] + rc2[3]]", "    return [x + y for x, y in zip(rc1, rc2)]"), "same merge")
V("C07", "folder-listed-always", "fire", (COB, "            self.tree[f\"{path}/\"] = SourceFolder()\n            self.add_folder(get_parent_folder(path))\n            parent_folder = self.tree[f\"{get_parent_folder(path)}/\"]\n            parent_folder.add_folder(get_basename(path))",
                                           "            self.tree[f\"{path}/\"] = SourceFolder()\n            self.add_folder(get_parent_folder(path))\n        if True:\n            parent_folder = self.tree[f\"{get_parent_folder(path)}/\"]\n            parent_folder.add_folder(get_basename(path))"),
  "a folder is listed again for every file added below it", "rule=R")
V("C07", "totals-recreated", "fire", (COB, "        if entry.language not in self.totals:\n            self.totals[entry.language] = LanguageTotals(entry.language)", "        self.totals[entry.language] = LanguageTotals(entry.language)"),
  "totals reset for every file", "rule=R")
V("C07", "aggregate-twice", "fire", (SCANCMD, "    codebase.aggregate()\n", "    codebase.aggregate()\n    codebase.aggregate()\n"), "profiles doubled", "aggregate-twice")
V("C07", "reader-no-aggregate", "fire", (RR, "        codebase.aggregate()\n", ""), "re-read report has empty folder profiles", "no-aggregate")
V("C07", "file-loc-len", "fire", (SCN, "    file_loc = sum([m.value for m in measurements])", "    file_loc = len(measurements)"), "file total is the number of functions", "_analyze_file/loc")

# ------------------------------------------------------------------ C18
SRT = "codelimit/common/ScanResultTable.py"
LTD = "codelimit/common/LanguageTotalsDelta.py"
STD = "codelimit/common/ScanTotalsDelta.py"
V("C18", "text-previous-from-current", "fire", (SRT, "language_totals_previous = self._stp.language_total(language_totals.language)", "language_totals_previous = self._stc.language_total(language_totals.language)"),
  "pre-fix: each language diffed against itself", "roles")
V("C18", "md-delta-args-swapped", "fire", (FM, "ltd = LanguageTotalsDelta(language_totals, language_totals_previous)", "ltd = LanguageTotalsDelta(language_totals_previous, language_totals)"),
  "delta reversed in Markdown only", "roles")
V("C18", "delta-reversed", "fire", (LTD, "delta = total_loc - (self._language_totals_previous.loc if self._language_totals_previous else 0)",
                                    "delta = (self._language_totals_previous.loc if self._language_totals_previous else 0) - total_loc"),
  "previous minus current", "LanguageTotalsDelta.loc")
V("C18", "delta-wrong-field", "fire", (LTD, "delta = total_functions - (self._language_totals_previous.functions if self._language_totals_previous else 0)",
                                       "delta = total_functions - (self._language_totals_previous.files if self._language_totals_previous else 0)"),
  "functions compared with files", "LanguageTotalsDelta.functions")
V("C18", "total-delta-unsigned", "fire", (STD, "return f\"{total_loc:n}\" if delta == 0 else f\"{total_loc:n} ({delta:+n})\"", "return f\"{total_loc:n}\" if delta == 0 else f\"{total_loc:n} ({delta:n})\""),
  "increase shown without sign", "ScanTotalsDelta.total_loc")
V("C18", "total-delta-gt0", "fire", (STD, "return f\"{total_files:n}\" if delta == 0 else", "return f\"{total_files:n}\" if delta <= 0 else"), "decreases not annotated", "ScanTotalsDelta.total_files")
V("C18", "row-cells-swapped", "fire", (SRT, "                    f\"{ltd.functions()}\",\n                    f\"{ltd.loc()}\",", "                    f\"{ltd.loc()}\",\n                    f\"{ltd.functions()}\","),
  "diff rows show LOC under Functions", "ScanResultTable._populate/row")
V("C18", "footer-wrong-total", "fire", (SRT, "self.add_column(\"\\u26A0\", f\"{self._stc.total_hard_to_maintain():n}\", justify=\"right\")", "self.add_column(\"\\u26A0\", f\"{self._stc.total_unmaintainable():n}\", justify=\"right\")"),
  "footer of the hard-to-maintain column shows unmaintainable", "ScanResultTable/columns")
V("C18", "languages-by-files", "fire", (STT, "self._languages_totals.values(), key=lambda x: x.loc, reverse=True", "self._languages_totals.values(), key=lambda x: x.files, reverse=True"),
  "ordered by files", "languages_totals/order")
V("C18", "findings-cut-11", "fire", (FT, "        functions = functions[:10]\n", "        functions = functions[:11]\n"), "eleven rows, 'N-10 more'", "format_text.print_findings")
V("C18", "findings-more-minus-11", "fire", (FM, "{total_findings - 10} more rows", "{total_findings - 11} more rows"), "wrong remainder", "format_markdown.print_findings")
V("C18", "findings-ge-10-silent", "silent", (FT, "    if not full and total_findings > 10:\n        functions = functions[:10]", "    if not full and total_findings >= 10:\n        functions = functions[:10]"),
  "the first ten of exactly ten findings are all of them: same output (the message condition is unchanged)")
V("C18", "findings-local-k-silent", "silent", (FT, "    if not full and total_findings > 10:\n        functions = functions[:10]\n    for function in functions:",
                                             "    limit = 10\n    if not full and total_findings > limit:\n        functions = functions[:limit]\n    for function in functions:"),
  "cut-off constant named")

# ------------------------------------------------------------------ C19
V("C19", "easy-clamped", "fire", (REP, "easy = 100 - unmaintainable - hard_to_maintain - verbose", "easy = max(0, 100 - unmaintainable - hard_to_maintain - verbose)"),
  "percentages stop summing to 100", "quality_profile_percentage/easy")
V("C19", "text-verdict-ge20", "fire", (FT, "    elif hard_to_maintain > 20:", "    elif hard_to_maintain >= 20:"), "20 % hard-to-maintain declared 'refactoring necessary' in text only", "format_text.print_summary")
V("C19", "md-verdict-unm-gt1", "fire", (FM, "    if unmaintainable > 0:\n        console.print(f\":stop_sign:", "    if unmaintainable > 1:\n        console.print(f\":stop_sign:"), "1 % unmaintainable tolerated", "format_markdown.print_summary")
V("C19", "md-verdict-wrong-percentage", "fire", (FM, "console.print(f\":warning: {hard_to_maintain}% of the functions are hard to maintain", "console.print(f\":warning: {unmaintainable}% of the functions are hard to maintain"),
  "message shows another category's percentage", "format_markdown.print_summary")
V("C19", "division-unguarded", "fire", (REP, "        verbose = ceil((profile[1] / total) * 100 - 0.001) if total > 0 else 0", "        verbose = ceil((profile[1] / max(total, 0)) * 100 - 0.001)"),
  "ZeroDivisionError for an empty codebase", "division")
V("C19", "hard-from-cell-1", "fire", (REP, "hard_to_maintain = ceil((profile[2] / total) * 100 - 0.001)", "hard_to_maintain = ceil((profile[1] / total) * 100 - 0.001)"), "hard-to-maintain share taken from the verbose cell", "quality_profile_percentage/hard_to_maintain")
V("C19", "round-instead-of-ceil", "fire", (REP, "unmaintainable = ceil((profile[3] / total) * 100 - 0.001)", "unmaintainable = round((profile[3] / total) * 100)"), "0.4 % unmaintainable shows as 0 %", "rounding")
V("C19", "epsilon-too-large", "fire", (REP, "unmaintainable = ceil((profile[3] / total) * 100 - 0.001)", "unmaintainable = ceil((profile[3] / total) * 100 - 0.01)"), "shares up to 0.01 % vanish", "rounding")
V("C19", "summary-table-drops-verbose", "fire", ("codelimit/common/SummaryTable.py", "easy_verbose_text = Text(f\"{easy + verbose:n}%\")", "easy_verbose_text = Text(f\"{easy:n}%\")"),
  "shown triple no longer sums to 100", "displayed-triple")
V("C19", "verdict-ge21-silent", "silent", (FT, "    elif hard_to_maintain > 20:", "    elif hard_to_maintain >= 21:"), "same integer region")

# ------------------------------------------------------------------ C17
SRC = "codelimit/common/source_utils.py"
V("C17", "marker-contains", "fire", (SRC, "            return value.startswith(\"nocl\")", "            return \"nocl\" in value"), "a comment that mentions nocl later suppresses", "not-a-prefix-test")
V("C17", "marker-before-lower", "fire", (SRC, "            value = token.value.lower()\n", "            value = token.value\n"), "NOCL no longer suppresses", "case")
V("C17", "leader-slice-1-for-slashes", "fire", (SRC, "                value = value[2:].strip()", "                value = value[1:].strip()"), "'// nocl' leaves '/ nocl'", "leader-length")
V("C17", "no-strip", "fire", (SRC, "                value = value[1:].strip()", "                value = value[1:]"), "'# nocl' has a leading blank", "strip")
V("C17", "marker-upper-literal", "fire", (SRC, "return value.startswith(\"nocl\")", "return value.startswith(\"NOCL\")"), "compared after lower-casing with an upper-case literal", "marker-literal")
V("C17", "line-of-first-header-token", "fire", (SU, "s.header.name_token.location.line not in nocl_comment_lines", "tokens_line(s) not in nocl_comment_lines"),
  "line of another token decides", "rule=R")
VARIANTS[-1]["edits"].append((SU, "def has_name_prefix(", "def tokens_line(s):\n    return s.header.token_range.start\n\n\ndef has_name_prefix("))
V("C17", "markers-from-filtered", "fire", (SU, "    nocl_comment_tokens = filter_nocl_comment_tokens(tokens)", "    nocl_comment_tokens = filter_nocl_comment_tokens(code_tokens)"),
  "markers searched in the comment-free list", "rule=R")
V("C17", "filter-after-nesting", "fire", (SU, "    if language.allow_nested_functions:\n        return fold_scopes(filtered_scopes)", "    if language.allow_nested_functions:\n        return fold_scopes(scopes)"),
  "marked functions reported for nesting languages", "rule=R")
V("C17", "casefold-silent", "silent", (SRC, "            value = token.value.lower()\n", "            value = token.value.casefold()\n"), "casefold instead of lower")
V("C17", "set-of-lines-silent", "silent", (SU, "    nocl_comment_lines = [t.location.line for t in nocl_comment_tokens]", "    nocl_comment_lines = {t.location.line for t in nocl_comment_tokens}"), "set instead of list")

# ------------------------------------------------------------------ C04 / C16
TOK = "codelimit/common/Token.py"
LEX = "codelimit/common/lexer_utils.py"
V("C04", "empty-text-is-code", "fire", (TOK, "        ) and not self.value.strip()", "        ) and self.value.isspace()"), "pre-fix: zero-length Text token counted", "blank-text-kept")
V("C04", "scan-file-raw-tokens", "fire", (SCN, "            length = count_lines(scope, code_tokens)", "            length = count_lines(scope, tokens)"), "lines counted on the raw list", "rule=R")
V("C04", "build-scopes-keep-comments", "fire", (SU, "    code_tokens = filter_tokens(tokens)\n    nocl_comment_tokens", "    code_tokens = filter_tokens(tokens, keep_comments=True)\n    nocl_comment_tokens"),
  "comments take part in header matching", "build_scopes")
V("C04", "count-lines-span", "fire", (SU, "    return len(set([t.location.line for t in _scope_tokens(scope, tokens)]))",
                                      "    ts = _scope_tokens(scope, tokens)\n    return ts[-1].location.line - ts[0].location.line + 1"), "span-based count includes comment lines", "rule=R")
V("C04", "count-lines-no-dedup", "fire", (SU, "    return len(set([t.location.line for t in _scope_tokens(scope, tokens)]))", "    return len([t.location.line for t in _scope_tokens(scope, tokens)])"),
  "counts tokens, not lines", "rule=R")
V("C04", "count-lines-setcomp-silent", "silent", (SU, "    return len(set([t.location.line for t in _scope_tokens(scope, tokens)]))", "    return len({t.location.line for t in _scope_tokens(scope, tokens)})"), "set comprehension")
V("C04", "is-comment-exact", "fire", (TOK, "        return self.token_type in Comment", "        return self.token_type == Comment"), "only the bare Comment type is filtered", "comment-kept")
V("C16", "lex-keeps-comments-always", "fire", (LEX, "    if filter_comments:\n        return filter_tokens(tokens)\n    else:\n        return filter_tokens(tokens, keep_comments=True)", "    return filter_tokens(tokens, keep_comments=True)"),
  "comments kept although filtering requested", "comments")
V("C16", "lex-keeps-whitespace", "fire", (LEX, "        return filter_tokens(tokens, keep_comments=True)", "        return filter_tokens(tokens, keep_whitespace=True, keep_comments=True)"), "whitespace tokens kept", "whitespace")
V("C16", "lex-ge-boundary", "fire", (LEX, "t[0] > indices[newline_index]", "t[0] >= indices[newline_index]"), "token at a newline offset moves to the next line", "newline-boundary")
V("C16", "column-zero-based", "fire", (LEX, "Token(Location(newline_index + 1, t[0] - line_start + 1), t[1], t[2])", "Token(Location(newline_index + 1, t[0] - line_start), t[1], t[2])"),
  "0-based column after the first line only", "lex/column")
V("C16", "special-case-col", "fire", (LEX, "tokens = [Token(Location(1, t[0] + 1), t[1], t[2]) for t in lexer_tokens]", "tokens = [Token(Location(1, t[0]), t[1], t[2]) for t in lexer_tokens]"),
  "single-line inputs get 0-based columns", "branches-disagree")
V("C16", "newline-table-splitlines", "fire", (SRC, "    for index, c in enumerate(code):\n        if c == \"\\n\":\n            result.append(index)\n",
                                             "    offset = 0\n    for line in code.splitlines(keepends=True):\n        offset += len(line)\n        result.append(offset - 1)\n"),
  "form feed starts a line", "splitlines")
V("C16", "lex-sorted", "fire", (LEX, "        return filter_tokens(tokens)\n", "        return filter_tokens(sorted(tokens, key=lambda t: t.value))\n"), "order lost", "reorders")

# ------------------------------------------------------------------ C01 / C05
HDR = "codelimit/common/scope/Header.py"
V("C01", "scope-tokens-gt-end", "fire", (SU, "index >= children_token_ranges[0].end", "index > children_token_ranges[0].end"), "pre-fix: parent token after a nested function dropped", "rule=R")
V("C01", "scope-tokens-le-start", "fire", (SU, "index < children_token_ranges[0].start", "index <= children_token_ranges[0].start"), "child's first token counted for the parent", "rule=R")
V("C01", "span-end-at-block-end", "fire", (SCN, "            last_token = code_tokens[scope.block.end - 1]", "            last_token = code_tokens[min(scope.block.end, len(code_tokens) - 1)]"),
  "span ends at the token after the body", "span-end")
V("C01", "span-end-no-length", "fire", (SCN, "                last_token.location.column + len(last_token.value),", "                last_token.location.column,"), "span ends before the last token", "span-end")
V("C01", "span-start-name-token", "fire", (SCN, "            start_location = code_tokens[scope.header.token_range.start].location", "            start_location = scope.header.name_token.location"),
  "span starts at the name instead of the header's first token", "span-start")
V("C01", "span-on-raw-tokens", "fire", (SCN, "            last_token = code_tokens[scope.block.end - 1]", "            last_token = tokens[scope.block.end - 1]"), "index into the raw list", "scan_file")
V("C01", "locals-renamed-silent", "silent", (SCN, "last_token", "final_tok", 4), "local renamed")
V("C05", "no-re-reverse", "fire", (SU, "    result.reverse()\n    return result", "    return result"), "measurements in reverse source order", "rule=R")
V("C05", "sort-by-name", "fire", (HDR, "        key=lambda h: (tokens[h.token_range.start].location.line, tokens[h.token_range.start].location.column),", "        key=lambda h: h.name(),"),
  "headers ordered by name", "rule=R")
V("C05", "sort-ignores-reverse", "fire", (HDR, "        reverse=reverse,\n", ""), "direction parameter ignored: scopes come out reversed", "rule=R")
V("C05", "name-from-other-tokens", "fire", (SU, "        name_token = next(t for t in pattern.tokens if t.is_name())", "        name_token = next(t for t in tokens[pattern.start - 1:] if t.is_name())"),
  "name may precede the span", "get_headers/name-token")
V("C05", "cached-loc-other", "fire", (SCN, "            cached_entry.loc,\n", "            len(cached_entry.measurements()),\n"), "reused entry's total is the number of functions", "_scan_file/SourceFileEntry")
V("C05", "unfold-children-first", "fire", (SU, "        result.append(scope)\n        result.extend(unfold_scopes(scope.children))", "        result.extend(unfold_scopes(scope.children))\n        result.append(scope)"),
  "nested functions listed before their parent", "rule=R")

# ------------------------------------------------------------------ C11
CONF = "codelimit/common/Configuration.py"
MAIN = "codelimit/__main__.py"
V("C11", "dirs-rebound", "fire", (SCN, "        dirs[:] = [d for d in dirs if not d[0] == \".\"]", "        dirs = [d for d in dirs if not d[0] == \".\"]"), "hidden directories are walked", "rule=R")
V("C11", "dirs-startswith-silent", "silent", (SCN, "        dirs[:] = [d for d in dirs if not d[0] == \".\"]", "        dirs[:] = [d for d in dirs if not d.startswith(\".\")]"), "same predicate")
V("C11", "files-not-filtered", "fire", (SCN, "        files = [f for f in files if not f[0] == \".\"]\n", ""), "hidden files analysed", "rule=R")
V("C11", "dirs-underscore-too", "fire", (SCN, "        dirs[:] = [d for d in dirs if not d[0] == \".\"]", "        dirs[:] = [d for d in dirs if not d[0] in \"._\"]"), "underscore directories pruned as well", "rule=R")
V("C11", "excluded-absolute-path", "fire", (SCN, "            if is_excluded(rel_path, excludes_spec):", "            if is_excluded(Path(os.path.join(root, file)), excludes_spec):"),
  "absolute path tested against root-relative patterns", "rule=R")
V("C11", "exclusion-after-analysis", "fire", (SCN, "            if is_excluded(rel_path, excludes_spec):\n                continue\n            try:", "            try:"),
  "excluded files analysed", "rule=R")
V("C11", "spec-without-gitignore", "fire", (SCN, "    if gitignore_excludes:\n        excludes.extend(gitignore_excludes)\n", ""), ".gitignore ignored", "rule=R")
V("C11", "spec-without-config", "fire", (SCN, "    excludes.extend(Configuration.exclude)\n", ""), "configured exclusions ignored", "rule=R")
V("C11", "spec-gitignore-from-cwd", "fire", (SCN, "    gitignore_excludes = _read_gitignore(root)", "    gitignore_excludes = _read_gitignore(Path.cwd())"), ".gitignore of the working directory used", "rule=R")
V("C11", "cli-exclude-replaces-silent", "silent", (MAIN, "    if exclude:\n        Configuration.exclude.extend(exclude)\n    if verbose:\n        Configuration.verbose = True\n    Configuration.load(path)",
                                          "    if exclude:\n        Configuration.exclude = list(exclude)\n    if verbose:\n        Configuration.verbose = True\n    Configuration.load(path)"),
  "before Configuration.load the configured list is still empty in a command-line run: rebinding it to the --exclude values "
  "and then extending it with the file's values gives the same list (the first-generation shape rule 'never rebound' demanded more than the property)")
V("C11", "entry-key-absolute", "fire", (SCN, "    rel_path = relpath(path, root)\n    cached_entry = None", "    rel_path = path\n    cached_entry = None"), "files keyed by absolute path", "_scan_file")
V("C11", "checksum-of-name", "fire", (SCN, "    checksum = calculate_checksum(path)\n", "    checksum = calculate_checksum(path) if False else str(hash(path))\n"), "checksum not of the bytes", "checksum")
V("C11", "is-excluded-negated", "fire", (SCN, "    return spec.match_file(path)", "    return not spec.match_file(path)"), "selection inverted", "rule=R")
V("C11", "new-caller-of-analyze-silent", "silent", (SCN, "def generate_exclude_spec(root: Path) -> PathSpec:", "def analyze_one(path, lexer):\n    return _analyze_file(path, path, calculate_checksum(path), lexer)\n\n\ndef generate_exclude_spec(root: Path) -> PathSpec:"),
  "a new function that analyses a file without the guards, called by nothing: the files scan analyses are the same (the who-may-call table is a "
  "complement of the evaluated walk and reports nothing when that passes)")
V("C01", "block-end-inclusive", "fire", (SU, "TokenRange(bt[0], bt[1] + 1)", "TokenRange(bt[0], bt[1])"), "closing brace outside the block: spans end one token early", "get_blocks/exclusive-end")
V("C01", "python-indent-ge", "fire", (PYL, "                elif line_indentation > header_indentation:", "                elif line_indentation >= header_indentation:"), "sibling function swallowed into the body", "Python.extract_blocks/indentation")
V("C01", "python-headerline-lt", "fire", (PYL, "                if line_nr <= header_line_nr:", "                if line_nr < header_line_nr:"), "function loses its body", "Python.extract_blocks/header-line")
V("C01", "python-end-inclusive", "fire", (PYL, "end = tokens.index(scope_tokens[-1]) + 1", "end = tokens.index(scope_tokens[-1])"), "last token outside the suite", "Python.extract_blocks/exclusive-end")
V("C01", "balanced-swapped", "fire", ("codelimit/common/token_utils.py", "                    result.append((start_index, index))", "                    result.append((index, start_index))"), "pair reversed", "get_balanced_symbol_token_indices/pair")
V("C01", "balanced-nesting-and", "fire", ("codelimit/common/token_utils.py", "                if extract_nested or len(block_starts) == 0:\n                    result.append((start_index, index))", "                if extract_nested and len(block_starts) == 0:\n                    result.append((start_index, index))"),
  "inner blocks never extracted", "rule=R")
# ------------------------------------------------------------------ round-4 rules (memo keys, shared automaton, set order of patterns, stale summary ...)
V("C06", "memo-complete-key-silent", "silent", (TOK, "    def is_comment(self):\n        return self.token_type in Comment\n",
                                               "    def is_comment(self):\n        return _is_comment_type(self.token_type)\n"),
  "a memo whose key is the only input of the stored value: results still depend on the content alone")
VARIANTS[-1]["edits"].append((TOK, "class Token:\n", "_comment_types: dict = {}\n\n\ndef _is_comment_type(token_type):\n    try:\n        return _comment_types[token_type]\n    except KeyError:\n"
                                   "        result = _comment_types[token_type] = token_type in Comment\n        return result\n\n\nclass Token:\n"))
V("C06", "memo-key-misses-input", "fire", (TOK, "    def is_whitespace(self):\n        return (\n            self.token_type == Text or self.token_type == Whitespace\n        ) and not self.value.strip()\n",
                                          "    def is_whitespace(self):\n        if self.value not in _blank_values:\n            _blank_values[self.value] = (\n                self.token_type == Text or self.token_type == Whitespace\n"
                                          "            ) and not self.value.strip()\n        return _blank_values[self.value]\n"),
  "memo keyed by the text only: the stored answer also depends on the token type", "_blank_values")
VARIANTS[-1]["edits"].append((TOK, "class Token:\n", "_blank_values: dict = {}\n\n\nclass Token:\n"))
V("C06", "memo-key-is-len", "fire", (SCN, "def scan_file(tokens: list[Token], language: Language) -> list[Measurement]:\n    scopes = build_scopes(tokens, language)\n",
                                    "_scopes_memo: dict = {}\n\n\ndef scan_file(tokens: list[Token], language: Language) -> list[Measurement]:\n    if len(tokens) not in _scopes_memo:\n"
                                    "        _scopes_memo[len(tokens)] = build_scopes(tokens, language)\n    scopes = _scopes_memo[len(tokens)]\n"),
  "memo keyed by a function of the input (its length), not the input", "_scopes_memo")
V("C06", "exclude-patterns-through-set", "fire", (CONF, "            cls.exclude.extend(d[\"exclude\"])", "            cls.exclude.extend(set(d[\"exclude\"]) - set(cls.exclude))"),
  "exclusion patterns appended in set order: with a negation the set of analysed files depends on the hash seed", "Configuration.load/set-order")
V("C06", "exclude-patterns-dedup-ordered-silent", "silent", (CONF, "            cls.exclude.extend(d[\"exclude\"])", "            cls.exclude.extend(p for p in d[\"exclude\"] if p not in cls.exclude)"),
  "duplicates dropped, order kept")
V("C15", "open-group-memo-on-automaton", "fire", (PAT, "        open_transitions = [t for t in transitions if self._predicate(t[0]).is_open()]\n        if open_transitions:\n            transitions = open_transitions\n",
                                                 "        if self.state.id not in self.automata.__dict__.setdefault(\"plain\", set()):\n            open_transitions = [t for t in transitions if self._predicate(t[0]).is_open()]\n"
                                                 "            if open_transitions:\n                transitions = open_transitions\n            else:\n                self.automata.plain.add(self.state.id)\n"),
  "what one attempt learns about a state is kept on the automaton all attempts share", "history-dependent")
V("C19", "all-measurements-memo-by-count", "fire", (COB, "    def all_measurements(self) -> list[Measurement]:\n        result = []\n",
                                                   "    def all_measurements(self) -> list[Measurement]:\n        memo = self.__dict__.get(\"_memo\")\n        if memo and memo[0] == len(self.files):\n            return memo[1]\n        result = []\n"),
  "flattened measurements validated by the number of files only", "quality_profile/stale")
VARIANTS[-1]["edits"].append((COB, "            result.extend(entry.measurements())\n        return result\n", "            result.extend(entry.measurements())\n        self._memo = (len(self.files), result)\n        return result\n"))
V("C13", "identity-eq-any-class-silent", "silent", ("codelimit/common/gsm/predicate/Identity.py", "        if not isinstance(other, Identity):\n            return False\n        return self.item == other.item",
                                          "        return getattr(other, \"item\", other) == self.item"),
  "an Identity also equals the bare item; no other predicate class carries an `item`, and the engine never compares a predicate with a bare "
  "item: every pair of predicate instances compares as before (the first-generation shape rule 'restricted by isinstance' demanded more)")
V("C13", "tokenvalue-eq-by-attribute", "fire", (PRD + "TokenValue.py", "        if not isinstance(other, TokenValue):\n            return False\n        return self.value == other.value",
                                               "        return getattr(other, \"value\", None) == self.value or getattr(other, \"symbol\", None) == self.value"),
  "a TokenValue equals a Symbol / Operator of the same text although they accept different tokens", "eq-own-class")
V("C13", "identity-eq-match-statement-silent", "silent", ("codelimit/common/gsm/predicate/Identity.py", "        if not isinstance(other, Identity):\n            return False\n        return self.item == other.item",
                                                         "        match other:\n            case Identity():\n                return self.item == other.item\n            case _:\n                return False"),
  "the same class restriction written as a class pattern")
V("C18", "language-totals-falsy-when-empty", "fire", (LT, "    def is_equal(self, other: LanguageTotals) -> bool:", "    def __bool__(self) -> bool:\n        return self.functions > 0\n\n    def is_equal(self, other: LanguageTotals) -> bool:"),
  "a language without functions in the previous report counts as absent: its figures are diffed against nothing", "rule=R6")
V("C08", "repository-falsy-when-incomplete", "fire", ("codelimit/common/GithubRepository.py", "    def __str__(self) -> str:", "    def __bool__(self) -> bool:\n        return bool(self.owner)\n\n    def __str__(self) -> str:"),
  "a repository with an empty owner is dropped from the document", "roundtrip/repository")
V("C07", "entry-name-normalised", "fire", ("codelimit/common/CodebseEntry.py", "        self.name = get_basename(path)", "        self.name = unicodedata.normalize(\"NFC\", get_basename(path))"),
  "listed names no longer agree with the tree's keys for decomposed names", "rule=R7")
VARIANTS[-1]["edits"].append(("codelimit/common/CodebseEntry.py", "from abc import ABC, abstractmethod\n", "import unicodedata\nfrom abc import ABC, abstractmethod\n"))
V("C04", "sort-key-flattened", "fire", ("codelimit/common/TokenRange.py", "key=lambda tr: (tokens[tr.start].location.line, tokens[tr.start].location.column)", "key=lambda tr: tokens[tr.start].location.line * 1000 + tokens[tr.start].location.column"),
  "blocks that open beyond column 1000 sort after blocks of the next line", "scan_file/")
V("C03", "report-commonprefix", "fire", (CR, "                if cwd_path in file.parents:\n                    file_path = str(relpath(file, cwd_path))", "                if os.path.commonprefix([str(file), str(cwd_path)]) == str(cwd_path):\n                    file_path = str(file.relative_to(cwd_path))"),
  "a sibling directory whose name extends the working directory's passes the string-prefix test and relative_to raises", "ValueError")
V("C10", "location-interned-by-equality", "fire", (RR, "def _location(d: dict) -> Location:\n    return Location(_typed(d[\"line\"], int), _typed(d[\"column\"], int))",
                                                  "@lru_cache(maxsize=None)\ndef _mk(line, column) -> Location:\n    return Location(_typed(line, int), _typed(column, int))\n\n\ndef _location(d: dict) -> Location:\n    return _mk(d[\"line\"], d[\"column\"])"),
  "true / 1.0 hit the memo entry of 1 and skip validation", "rule=R5")
VARIANTS[-1]["edits"].append((RR, "from json import loads\n", "from functools import lru_cache\nfrom json import loads\n"))
