"""Self-test variants: one-construct edits of /repo/codelimit (see selftest.py).

fire   = breaks the property, still parses and passes the repo's test-suite;
         the property's check must exit 1 and name the instance.
silent = behaviour-preserving rewrite; the check must stay at exit 0.
"""

VARIANTS = []

U = "codelimit/common/utils.py"
CHK = "codelimit/commands/check.py"
CR = "codelimit/common/CheckResult.py"
REP = "codelimit/common/report/Report.py"
FT = "codelimit/common/report/format_text.py"
FM = "codelimit/common/report/format_markdown.py"
LT = "codelimit/common/LanguageTotals.py"


def V(prop, vid, expect, edits, why="", names=None):
    if isinstance(edits, tuple):
        edits = [edits]
    VARIANTS.append(dict(prop=prop, id=f"{prop}-{vid}", expect=expect, edits=edits, why=why, names=names))


# ------------------------------------------------------------------ C02
MP = """        if m.value <= 15:
            result[0] += m.value
        elif m.value <= 30:
            result[1] += m.value
        elif m.value <= 60:
            result[2] += m.value
        else:
            result[3] += m.value
"""
V("C02", "profile-lt15", "fire", (U, MP, MP.replace("m.value <= 15", "m.value < 15")), "15 becomes verbose", "make_profile")
V("C02", "profile-le31", "fire", (U, MP, MP.replace("m.value <= 30", "m.value <= 31")), "31 becomes verbose", "make_profile")
V("C02", "profile-swap23", "fire", (U, MP, MP.replace("result[2] += m.value", "result[3] += m.value", 1).replace(
    "else:\n            result[3]", "else:\n            result[2]")), "hard and unmaintainable cells swapped", "make_profile")
V("C02", "profile-plus1", "fire", (U, MP, MP.replace("result[1] += m.value", "result[1] += 1")), "LOC profile counts functions in one cell", "make_profile")
V("C02", "profile-equiv-lt16", "silent", (U, MP, MP.replace("m.value <= 15", "m.value < 16").replace("m.value <= 60", "m.value < 61")),
  "same partition written with strict comparisons")
V("C02", "profile-equiv-reordered", "silent", (U, MP, """        if m.value > 60:
            result[3] += m.value
        elif m.value > 30:
            result[2] += m.value
        elif 15 < m.value:
            result[1] = result[1] + m.value
        else:
            result[0] += m.value
"""), "same partition, branches reordered, x = x + t form")
MCP = """        if m.value <= 15:
            result[0] += 1
        elif m.value <= 30:
            result[1] += 1
        elif m.value <= 60:
            result[2] += 1
"""
V("C02", "count-lt60", "fire", (U, MCP, MCP.replace("m.value <= 60", "m.value < 60")), "60 counted unmaintainable", "make_count_profile")
V("C02", "style-ge60", "fire", (U, "    if value > 60:\n        return Style(color=\"red\")", "    if value >= 60:\n        return Style(color=\"red\")"),
  "60 shown red", "get_style_for_measurement")
V("C02", "style-colour-swap", "fire", (U, "    elif value > 15:\n        return Style(color=\"yellow\")", "    elif value > 15:\n        return Style(color=\"green\")"),
  "verbose shown green", "get_style_for_measurement")
V("C02", "emoji-gt31", "fire", (U, "    elif value > 30:\n        return \"\\u26A0\"", "    elif value > 31:\n        return \"\\u26A0\""),
  "31 shown with a check mark", "get_emoji_for_measurement")
V("C02", "format-unit-16", "fire", (U, "    elif length > 15:\n        color = \"yellow\"", "    elif length > 16:\n        color = \"yellow\""),
  "16 shown green", "format_unit")
V("C02", "format-unit-width-silent", "silent", (U, "if length < 1000 else", "if length < 10000 else"), "column width, not a category")
V("C02", "checkresult-lt60", "fire", (CR, "if 30 < m.value <= 60]", "if 30 < m.value < 60]"), "60 not counted at all", "CheckResult.add")
V("C02", "checkresult-ge60", "fire", (CR, "if m.value > 60]", "if m.value >= 60]"), "60 counted twice", "CheckResult.add")
V("C02", "checkresult-equiv", "silent", (CR, "if 30 < m.value <= 60]", "if m.value >= 31 and not m.value > 60]"), "same region")
V("C02", "checkfile-ge30", "fire", (CHK, "[m for m in measurements if m.value > 30]", "[m for m in measurements if m.value >= 30]"),
  "30 listed by check", "check_file")
V("C02", "checkfile-asc", "fire", (CHK, "                reverse=True,\n", "                reverse=False,\n"), "shortest first", "check_file/order")
V("C02", "checkfile-nosort", "fire", (CHK, """            risks = sorted(
                [m for m in measurements if m.value > 30],
                key=lambda measurement: measurement.value,
                reverse=True,
            )
""", "            risks = [m for m in measurements if m.value > 30]\n"), "source order instead of longest first", "check_file/order")
V("C02", "checkfile-negkey-silent", "silent", (CHK, """                key=lambda measurement: measurement.value,
                reverse=True,
""", "                key=lambda measurement: -measurement.value,\n"), "descending via negated key")
V("C02", "exit-on-hard", "fire", (CHK, "exit_code = 1 if check_result.unmaintainable > 0 else 0",
                                   "exit_code = 1 if check_result.hard_to_maintain > 0 else 0"), "alarm on hard-to-maintain", "exit-status")
V("C02", "exit-ge0", "fire", (CHK, "exit_code = 1 if check_result.unmaintainable > 0 else 0",
                               "exit_code = 1 if check_result.unmaintainable >= 0 else 0"), "always alarms", "exit-status")
V("C02", "exit-gt1", "fire", (CHK, "exit_code = 1 if check_result.unmaintainable > 0 else 0",
                               "exit_code = 1 if check_result.unmaintainable > 1 else 0"), "one unmaintainable function tolerated", "exit-status")
V("C02", "quiet-and", "fire", (CHK, "            not quiet\n            or check_result.hard_to_maintain > 0\n",
                                "            not quiet\n            and check_result.hard_to_maintain > 0\n"), "quiet logic", "report-guard")
V("C02", "quiet-drops-hard", "fire", (CHK, "            or check_result.hard_to_maintain > 0\n", ""), "quiet hides hard-to-maintain", "report-guard")
V("C02", "exit-equiv-silent", "silent", (CHK, "exit_code = 1 if check_result.unmaintainable > 0 else 0",
                                          "exit_code = 0 if check_result.unmaintainable == 0 else 1"), "same decision")
V("C02", "summary-count-hard-only", "fire", (CR, "{self.hard_to_maintain + self.unmaintainable} functions need",
                                              "{self.hard_to_maintain} functions need"), "summary count", "summary-count")
V("C02", "summary-guard", "fire", (CR, "if self.hard_to_maintain > 0 or self.unmaintainable > 0:", "if self.unmaintainable > 0:"),
  "summary guard", "summary-guard")
V("C02", "findings-threshold-31", "fire", (FT, "all_report_units_sorted_by_length_asc(30)", "all_report_units_sorted_by_length_asc(31)"),
  "text findings drop 31", "print_findings")
V("C02", "findings-threshold-md-29", "fire", (FM, "all_report_units_sorted_by_length_asc(30)", "all_report_units_sorted_by_length_asc(29)"),
  "markdown findings include 30", "print_findings")
V("C02", "findings-ge-threshold", "fire", (REP, "if m.value > threshold:", "if m.value >= threshold:"), "30 is a finding", "all_report_units")
V("C02", "findings-asc", "fire", (REP, "key=lambda unit: unit.measurement.value, reverse=True)", "key=lambda unit: unit.measurement.value)"),
  "findings shortest first", "order")
V("C02", "md-symbol-59", "fire", (FM, '        type = "\\u274C" if unit.measurement.value > 60 else "\\u26A0"',
                                   '        type = "\\u274C" if unit.measurement.value > 59 else "\\u26A0"'), "60 shown as unmaintainable", "_print_findings_without_repository")
V("C02", "langtotals-swap", "fire", (LT, "self.hard_to_maintain += profile[2]\n        self.unmaintainable += profile[3]",
                                      "self.hard_to_maintain += profile[3]\n        self.unmaintainable += profile[2]"), "counters swapped", "LanguageTotals.add")
V("C02", "langtotals-profile1", "fire", (LT, "self.hard_to_maintain += profile[2]", "self.hard_to_maintain += profile[1]"),
  "verbose counted as hard", "LanguageTotals.add")
V("C02", "new-filter-site", "fire", (FT, "    total_findings = len(functions)\n    if not full and total_findings > 10:\n        functions = functions[:10]\n    for function in functions:",
                                      "    functions = [f for f in functions if f.measurement.value > 35]\n    total_findings = len(functions)\n    if not full and total_findings > 10:\n        functions = functions[:10]\n    for function in functions:"),
  "extra filter at a non-threshold boundary", "print_findings")

# ------------------------------------------------------------------ C15
PAT = "codelimit/common/gsm/Pattern.py"
BAL = "codelimit/common/token_matching/predicate/Balanced.py"
JAVA = "codelimit/languages/Java.py"
JS = "codelimit/languages/JavaScript.py"
TS = "codelimit/languages/TypeScript.py"
PYL = "codelimit/languages/Python.py"
V("C15", "no-open-priority", "fire", (PAT, "        if open_transitions:\n            transitions = open_transitions\n", ""),
  "pre-fix behaviour: '=>' inside the parameter list is ambiguous", ["JavaScript.extract_headers/pattern#1", "TypeScript.extract_headers/pattern#1"])
V("C15", "is-open-gt1", "fire", (BAL, "    def is_open(self) -> bool:\n        return self.depth > 0", "    def is_open(self) -> bool:\n        return self.depth > 1"),
  "priority only from depth 2", "pattern#1")
V("C15", "java-follow-not", "fire", (JAVA, "ZeroOrMore(And(Not(';'), Not('{')))", "ZeroOrMore(Not(';'))"),
  "'{' accepted by the throws-list and by the block symbol", "Java.extract_headers/pattern#0/follow-up")
V("C15", "js-function-tokenvalue", "fire", (JS, "[Optional(Keyword(\"function\")), Name(), OneOrMore(Balanced(\"(\", \")\"))]",
                                            "[Optional(TokenValue(\"function\")), Name(), OneOrMore(Balanced(\"(\", \")\"))]"),
  "value-only test overlaps Name (needs import, variant adds it)", "JavaScript.extract_headers/pattern#0")
VARIANTS[-1]["edits"].append((JS, "from codelimit.common.token_matching.predicate.Symbol import Symbol\n",
                              "from codelimit.common.token_matching.predicate.Symbol import Symbol\nfrom codelimit.common.token_matching.predicate.TokenValue import TokenValue\n"))
V("C15", "ts-arrow-optional-name", "fire", (TS, "                Optional(Keyword(\"const\")),\n                Name(),\n                Operator(\"=\"),",
                                            "                Optional(Name()),\n                Name(),\n                Operator(\"=\"),"),
  "two Name transitions are merged by equality: stays deterministic?  No: Optional(Name) then Name - same predicate, DFA merges; "
  "kept as a silent control", None)
VARIANTS[-1]["expect"] = "silent"
V("C15", "keyword-ignores-kind", "fire", ("codelimit/common/token_matching/predicate/Keyword.py",
                                          "if token.is_keyword() and token.value == self.keyword:", "if token.value == self.keyword:"),
  "Keyword('function') now also accepts a Name token spelled 'function'", "JavaScript.extract_headers/pattern#0")
V("C15", "consume-renamed-silent", "silent", (PAT, "open_transitions", "still_open", 3), "local renamed")
V("C15", "python-pattern-equiv-silent", "silent", (PYL, "[Keyword(\"def\"), Name(), OneOrMore(Balanced(\"(\", \")\"))]",
                                                   "[Keyword(\"def\"), Name(), OneOrMore([Balanced(\"(\", \")\")])]"), "list-wrapped operand")
