"""A small abstract interpreter for a Python subset, used where a rule needs the *meaning* of a short function
independently of how it is written (helpers, loops, early returns, comprehensions ...):

  * constant evaluation of pure helpers on constant arguments (folding of table-driven classifiers),
  * exhaustive evaluation of a function over a finite abstract domain supplied by the client
    (symbolic objects `Sym` whose method results are chosen by an oracle the client enumerates).

Nothing of the analysed package is imported or executed by CPython: the interpreter walks the syntax trees and only
understands the constructs below; anything else raises `Unknown` and the client decides (usually ANALYSIS-ERROR).
"""
from __future__ import annotations

import ast
import bisect as _bisect
import re as _re
from typing import Callable, Optional

from .core import FuncInfo, Project, attr_chain, unparse


class Unknown(Exception):
    pass


class PyRaise(Exception):
    def __init__(self, name: str, node=None):
        super().__init__(name)
        self.name = name
        self.node = node


class _Ret(Exception):
    def __init__(self, v):
        self.v = v


class _Brk(Exception):
    pass


class _Cont(Exception):
    pass


class Sym:
    """symbolic object: identity + named fields; method calls go to the client's hook"""
    _n = 0

    def __init__(self, name_: str, /, _open: bool = False, _cls=None, **fields):
        Sym._n += 1
        self.uid = Sym._n
        self.name = name_
        self.fields = dict(fields)
        self.open = _open      # unknown attributes / subscripts yield child terms named by their access path
        self.cls = _cls        # ClassInfo when the object is an instance of a project class
        self.parent = None     # (parent Sym, attribute) for children of open terms
        self.items = {}

    def __repr__(self):
        return f"<{self.name}>"


class Lin:
    """linear form over symbolic terms: sum(coef * term) + const"""

    def __init__(self, terms=None, const=0):
        self.terms = {k: v for k, v in (terms or {}).items() if v != 0}
        self.const = const

    @staticmethod
    def of(v):
        if isinstance(v, Lin):
            return v
        if isinstance(v, Sym):
            return Lin({v.name: 1})
        if isinstance(v, bool):
            return Lin({}, int(v))
        if isinstance(v, (int, float)):
            return Lin({}, v)
        raise Unknown("arithmetic on this value")

    def add(self, o, sign=1):
        t = dict(self.terms)
        for k, v in o.terms.items():
            t[k] = t.get(k, 0) + sign * v
        return Lin(t, self.const + sign * o.const)

    def scale(self, c):
        return Lin({k: v * c for k, v in self.terms.items()}, self.const * c)

    def simplify(self):
        return self.const if not self.terms else self

    def key(self):
        return (tuple(sorted(self.terms.items())), self.const)

    def __repr__(self):
        parts = [(f"{v}*" if v != 1 else "") + k for k, v in sorted(self.terms.items())]
        if self.const or not parts:
            parts.append(str(self.const))
        return " + ".join(parts)


class ISet:
    """a set whose membership uses the interpreted __eq__ of its elements; iteration in insertion order"""

    def __init__(self):
        self.xs: list = []

    def __repr__(self):
        return "{" + ", ".join(map(repr, self.xs)) + "}"


NOTIMPL = Sym("NotImplemented")


PURE_LIBRARY = {
    "unicodedata.normalize", "unicodedata.category", "unicodedata.name", "unicodedata.is_normalized", "unicodedata.east_asian_width",
    "math.ceil", "math.floor", "math.sqrt", "math.log", "math.log2", "math.log10", "math.isinf", "math.isnan", "math.fsum", "math.gcd", "math.trunc",
    "textwrap.dedent", "textwrap.indent", "textwrap.shorten", "html.escape", "html.unescape", "shlex.quote", "string.capwords",
    "fnmatch.fnmatchcase", "fnmatch.translate", "urllib.parse.quote", "urllib.parse.unquote", "posixpath.normpath", "posixpath.basename",
    "posixpath.dirname", "posixpath.split", "posixpath.splitext", "posixpath.commonprefix", "posixpath.isabs",
}


class T(tuple):
    """internal marker value (class object, builtin, external, bound native / symbolic method ...): a tuple for the
    interpreter's own dispatch, but never a Python tuple of the interpreted program"""
    __slots__ = ()

    def __new__(cls, *items):
        return super().__new__(cls, items)


class Closure:
    def __init__(self, node, env, fi):
        self.node, self.env, self.fi = node, env, fi


PYG_ALIAS = {"Whitespace": "Text.Whitespace", "String": "Literal.String", "Number": "Literal.Number", "Token": ""}


class PygT:
    """a pygments token type (Token.Comment.Single ...): equality is by name, `t in Parent` is the sub-type test"""

    def __init__(self, name: str):
        first = name.split(".")[0]
        self.name = (PYG_ALIAS[first] + name[len(first):]) if first in PYG_ALIAS else name
        self.name = self.name.strip(".")

    def __repr__(self):
        return "Token." + self.name

    def __eq__(self, other):
        return isinstance(other, PygT) and other.name == self.name

    def __hash__(self):
        return hash(("pyg", self.name))

    def within(self, parent: "PygT") -> bool:
        return parent.name == "" or self.name == parent.name or self.name.startswith(parent.name + ".")


def as_pygt(v):
    """PygT for a PygT or for the external marker of a name imported from pygments.token, else None"""
    if isinstance(v, PygT):
        return v
    if isinstance(v, T) and v[0] == "external":
        full = v[1].replace(":", ".")
        if full.startswith("pygments.token."):
            return PygT(full[len("pygments.token."):])
    return None


class HashV:
    """a hashlib object fed with the (model) bytes the program feeds it"""

    def __init__(self, h):
        self.h = h


class Deque(list):
    """collections.deque as a list with the deque methods"""


class SymDict(dict):
    """an instance of a project class that derives from dict: a dictionary that also has the class' methods and own attributes"""

    def __init__(self, cls):
        super().__init__()
        Sym._n += 1
        self.uid = Sym._n
        self.cls = cls
        self.fields = {}
        self.name = cls.name + "()"

    def __repr__(self):
        return f"<{self.name} {dict.__repr__(self)}>"

    def __hash__(self):
        return id(self)

    def __eq__(self, other):
        return self is other


class EnumInt(int):
    """a member of an IntEnum / IntFlag of the project: an int (indexing, comparison, hashing as Python does) that also knows its
    class and name, so that properties and methods of the enum class can be called on it"""
    cls = None
    name = ""

    def __repr__(self):
        return f"<{self.cls.name if self.cls else 'IntEnum'}.{self.name}: {int(self)}>"


class DefaultDict(dict):
    """collections.defaultdict / Counter: a dictionary whose missing keys are produced by `factory` (a callable of the interpreter,
    or None for Counter's 0)"""
    factory = None
    counter = False


class PyFn:
    """a callable of the standard library built from interpreted pieces (attrgetter, partial, ...)"""

    def __init__(self, name, fn):
        self.name, self.fn = name, fn

    def __repr__(self):
        return f"<{self.name}>"


class BoundFunc:
    def __init__(self, fi: FuncInfo, self_obj=None):
        self.fi, self.self_obj = fi, self_obj


SAFE_METHODS = {
    list: {"append", "extend", "pop", "insert", "index", "copy", "count", "reverse", "sort", "remove", "clear"},
    Deque: {"append", "extend", "pop", "insert", "index", "copy", "count", "reverse", "remove", "clear"},
    dict: {"get", "items", "keys", "values", "pop", "setdefault", "update", "copy"},
    DefaultDict: {"get", "items", "keys", "values", "pop", "setdefault", "update", "copy", "most_common", "elements", "total"},
    set: {"add", "update", "discard", "remove", "copy", "union", "intersection", "difference", "issubset"},
    bytes: {"startswith", "endswith", "decode", "split", "splitlines", "strip", "count", "find", "hex", "join"},
    str: {"startswith", "endswith", "strip", "lstrip", "rstrip", "lower", "upper", "casefold", "isspace", "split", "join", "replace",
          "find", "format", "rpartition", "partition", "count", "splitlines", "isdigit", "removeprefix", "removesuffix", "rfind",
          "index", "isalpha", "isalnum", "title", "capitalize", "rsplit", "zfill", "ljust", "rjust", "center", "expandtabs", "isprintable", "isidentifier", "isascii", "isupper", "islower", "isnumeric", "isdecimal", "istitle", "swapcase", "encode", "translate", "rindex", "format_map", "maketrans"},
    _re.Pattern: {"match", "search", "fullmatch", "sub", "findall", "split"},
    _re.Match: {"group", "groups", "start", "end", "span"},
    tuple: {"index", "count"},
}
EXC_OF = {KeyError: "KeyError", IndexError: "IndexError", ValueError: "ValueError", TypeError: "TypeError",
          ZeroDivisionError: "ZeroDivisionError", StopIteration: "StopIteration", AttributeError: "AttributeError"}


class MiniInterp:
    def __init__(self, prj: Project, hook: Optional[Callable] = None, max_steps: int = 50000, max_depth: int = 12):
        self.prj, self.hook = prj, hook
        self.steps, self.max_steps, self.max_depth = 0, max_steps, max_depth
        import threading
        self._tl = threading.local()
        self.terms: dict = {}      # uninterpreted terms by name (linear forms refer to them by name)
        self.class_state: dict = {}    # (class qualname, attribute) -> value written through the class during evaluation

    @property
    def depth(self):
        return getattr(self._tl, "depth", 0)

    @depth.setter
    def depth(self, v):
        self._tl.depth = v

    # ------------------------------------------------------------------ entry
    def call(self, fi: FuncInfo, args: list, kwargs: dict | None = None, self_obj=None):
        kwargs = kwargs or {}
        fi = self.prj.funcs.get(fi.qual, fi)      # the function as written (not the view with helpers inlined): every call is followed and seen by the hook
        if not self.__dict__.get("_imported"):
            self.import_time()
        if fi.qual in self.__dict__.get("_wrapped_methods", ()):
            raise Unknown(f"{fi.local} is wrapped by a project decorator")
        if fi.module.name in self.__dict__.get("_poisoned", ()):
            raise Unknown(f"module {fi.module.name} applies a decorator that is not modelled")
        memo_key = None
        if any((attr_chain(d.func if isinstance(d, ast.Call) else d) or "").split(".")[-1] in ("lru_cache", "cache") for d in fi.node.decorator_list):
            typed = any(isinstance(d, ast.Call) and any(k.arg == "typed" and isinstance(k.value, ast.Constant) and k.value.value for k in d.keywords)
                        for d in fi.node.decorator_list)

            def kk(v):
                # the memo looks arguments up as a dictionary does: by hash and ==, so 1, 1.0 and True are one key (unless typed=True)
                if isinstance(v, Sym):
                    return ("sym", self.key(v).uid if v.cls is not None and v.cls.find_method("__eq__") is not None else v.uid)
                if v is None or isinstance(v, (bool, int, float, str, bytes)):
                    return (type(v).__name__, v) if typed else v
                if type(v) is tuple:
                    return tuple(kk(x) for x in v)
                if isinstance(v, (list, dict, set, ISet)) and not isinstance(v, frozenset):
                    raise PyRaise("TypeError")          # unhashable argument of a memoised function
                return ("repr", repr(v))
            memo_key = (fi.qual, tuple(kk(a) for a in args), tuple(sorted((k, kk(v)) for k, v in kwargs.items())), kk(self_obj) if self_obj is not None else None)
            store = self.__dict__.setdefault("_memo", {})
            if memo_key in store:
                return store[memo_key]
        self.depth += 1
        if self.depth > self.max_depth:
            self.depth -= 1
            raise Unknown("call depth")
        try:
            params = fi.params()
            env = {}
            pos = list(args)
            if fi.is_method() and not fi.is_static() and params:
                env[params[0]] = self_obj
                params = params[1:]
            va, kwa = fi.node.args.vararg, fi.node.args.kwarg
            npos = len(fi.node.args.posonlyargs) + len(fi.node.args.args) - (1 if fi.is_method() and not fi.is_static() else 0)
            if va is not None:
                env[va.arg] = tuple(pos[npos:])
                pos = pos[:npos]
                params = [p for p in params if p != va.arg]
            if kwa is not None:
                params = [p for p in params if p != kwa.arg]
                env[kwa.arg] = {k: v for k, v in kwargs.items() if k not in params}
                kwargs = {k: v for k, v in kwargs.items() if k in params}
            if len(pos) > len(params):
                raise Unknown(f"too many arguments for {fi.local}")
            for p, a in zip(params, pos):
                env[p] = a
            for k, v in kwargs.items():
                if k not in params:
                    raise Unknown(f"unexpected keyword {k}")
                env[k] = v
            for p in params:
                if p not in env:
                    d = fi.param_default(p)
                    if d is None:
                        raise Unknown(f"missing argument {p} of {fi.local}")
                    # a default is evaluated once, when the function is defined: every call that omits the argument
                    # receives the same object
                    dk = (fi.qual, p)
                    store = self.__dict__.setdefault("_defaults", {})
                    if dk not in store:
                        store[dk] = self.ev(d, {}, fi)
                    env[p] = store[dk]
            is_gen = _is_generator(fi.node)
            result = None
            if is_gen:
                # the body runs only as far as the consumer pulls (a consumer that stops early leaves the rest unexecuted)
                holder = {}

                def body(sink, env=env, fi=fi, holder=holder):
                    env["__yield__"] = sink
                    try:
                        self.block(fi.node.body, env, fi)
                    except _Ret as r:
                        holder["ret"] = r.v          # the value of `yield from <this generator>`
                g, close = thread_generator(body)
                result = LazyIter(g, close)
                result.holder = holder
                if any((attr_chain(d) or "").split(".")[-1] == "contextmanager" for d in fi.node.decorator_list):
                    result = CtxGen(result)        # @contextmanager: the generator is driven by a with statement
            else:
                try:
                    self.block(fi.node.body, env, fi)
                except _Ret as r:
                    result = r.v
            if memo_key is not None:
                self._memo[memo_key] = result
            return result
        finally:
            self.depth -= 1

    # --------------------------------------------------------------- statements
    def tick(self):
        self.steps += 1
        if self.steps > self.max_steps:
            raise Unknown("step budget exceeded")

    def block(self, stmts, env, fi):
        for st in stmts:
            self.stmt(st, env, fi)

    def stmt(self, st, env, fi):
        self.tick()
        if isinstance(st, ast.Return):
            raise _Ret(self.ev(st.value, env, fi) if st.value is not None else None)
        if isinstance(st, ast.Expr):
            if not isinstance(st.value, ast.Constant):
                self.ev(st.value, env, fi)
            return
        if isinstance(st, ast.Assign):
            v = self.ev(st.value, env, fi)
            for t in st.targets:
                self.assign(t, v, env, fi)
            return
        if isinstance(st, ast.AnnAssign):
            if st.value is not None:
                self.assign(st.target, self.ev(st.value, env, fi), env, fi)
            return
        if isinstance(st, ast.AugAssign):
            cur = self.ev(_as_load(st.target), env, fi)
            val = self.ev(st.value, env, fi)
            r = self.operator_method(st.op, cur, val, st, inplace=True)
            self.assign(st.target, r if r is not NOTIMPL else self.binop(st.op, cur, val, st), env, fi)
            return
        if isinstance(st, ast.If):
            self.block(st.body if self.truth(self.ev(st.test, env, fi)) else st.orelse, env, fi)
            return
        if isinstance(st, ast.For):
            src = self.ev(st.iter, env, fi)
            # iterators are pulled one element at a time: a loop that is left early leaves the rest in the iterator
            it = self.loop_source(src)
            broke = False
            try:
                for x in it:
                    self.tick()
                    self.assign(st.target, x, env, fi)
                    try:
                        self.block(st.body, env, fi)
                    except _Brk:
                        broke = True
                        break
                    except _Cont:
                        continue
            except BaseException:
                if isinstance(src, LazyIter):
                    src.close()
                raise
            if broke and isinstance(src, LazyIter):
                src.close()
            if not broke:
                self.block(st.orelse, env, fi)
            return
        if isinstance(st, ast.While):
            while self.truth(self.ev(st.test, env, fi)):
                self.tick()
                try:
                    self.block(st.body, env, fi)
                except _Brk:
                    break
                except _Cont:
                    continue
            return
        if isinstance(st, ast.Break):
            raise _Brk()
        if isinstance(st, ast.Continue):
            raise _Cont()
        if isinstance(st, ast.Pass):
            return
        if isinstance(st, ast.Raise):
            if st.exc is None:
                cur = env.get("__exc__")
                if isinstance(cur, PyRaise):
                    raise cur                      # bare `raise` inside a handler: the exception being handled
                raise PyRaise("RuntimeError", st)
            e = st.exc
            name = (attr_chain(e.func if isinstance(e, ast.Call) else e) or "Exception").split(".")[-1]
            value = None
            if isinstance(e, ast.Name) and isinstance(env.get(e.id), Sym) and getattr(env[e.id], "caught", None) is not None:
                raise env[e.id].caught             # `raise err` of the name bound by `except ... as err`
            try:
                value = self.ev(e, env, fi)
            except Unknown:
                value = None
            if isinstance(value, Sym) and value.cls is not None:
                name = value.cls.name              # an exception class of the project
            ex = PyRaise(name, st)
            ex.value = value
            raise ex
        if isinstance(st, ast.Try):
            try:
                self.block(st.body, env, fi)
            except PyRaise as ex:
                for h in st.handlers:
                    names = ["BaseException"] if h.type is None else \
                        [attr_chain(x) or "?" for x in (h.type.elts if isinstance(h.type, ast.Tuple) else [h.type])]
                    if h.type is not None and any(isinstance(x, ast.Name) and x.id in env for x in (h.type.elts if isinstance(h.type, ast.Tuple) else [h.type])):
                        # `except <variable>`: the classes the variable holds (a tuple handed to a decorator factory ...)
                        def exc_names(v):
                            if isinstance(v, T) and v and v[0] in ("external", "builtin"):
                                return [str(v[1]).replace(":", ".").split(".")[-1]]
                            if isinstance(v, T) and v and v[0] == "class":
                                return [v[1].name]
                            if isinstance(v, (tuple, list)) and not isinstance(v, T):
                                return [n_ for x in v for n_ in exc_names(x)]
                            raise Unknown("except clause over a value that is not an exception class")
                        names = exc_names(self.ev(h.type, env, fi))
                    from .core import exc_is_caught
                    if exc_is_caught(ex.name, names):
                        if h.name:
                            bound = getattr(ex, "value", None)
                            if not isinstance(bound, Sym):
                                bound = Sym("exc:" + ex.name)
                            bound.caught = ex
                            env[h.name] = bound
                        prev = env.get("__exc__")
                        env["__exc__"] = ex
                        try:
                            self.block(h.body, env, fi)
                        finally:
                            env["__exc__"] = prev
                        break
                else:
                    raise
            else:
                self.block(st.orelse, env, fi)
            finally:
                self.block(st.finalbody, env, fi)
            return
        if isinstance(st, (ast.FunctionDef,)):
            env[st.name] = self.decorated(Closure(st, env, fi), st, env, fi)
            return
        if isinstance(st, ast.With):
            suppressed = []
            managers = []
            gens = []
            for it in st.items:
                ce = it.context_expr
                if isinstance(ce, ast.Call) and (attr_chain(ce.func) or "").endswith("suppress"):
                    suppressed += [(attr_chain(a) or "?").split(".")[-1] for a in ce.args]
                    continue
                # any other context manager: the value itself is bound (open files, locks, Live displays ...); __exit__
                # is not modelled (no exception is swallowed by it)
                v = self.ev(ce, env, fi)
                if isinstance(v, CtxGen):
                    END = object()
                    g_ = v.lazy.lazy()
                    first = next(g_, END)
                    if first is END:
                        raise PyRaise("RuntimeError", st)      # generator didn't yield
                    gens.append((v, g_))
                    v = first
                elif isinstance(v, Sym) and v.cls is not None and v.cls.find_method("__enter__") is not None:
                    # a context manager of the project: __enter__ gives what `as` binds, __exit__ runs when the block is left
                    managers.append(v)
                    v = self.call(self.prj.func(v.cls.find_method("__enter__").qual, raw=True), [], {}, v)
                if it.optional_vars is not None:
                    self.assign(it.optional_vars, v, env, fi)

            def leave(exc):
                """run the __exit__ methods, innermost first; True when one of them swallows the exception"""
                swallowed = False
                for cg, g_ in reversed(gens):
                    if exc is None:
                        for _ in g_:
                            raise PyRaise("RuntimeError", st)  # generator didn't stop
                    else:
                        # the exception is raised at the yield: without a handler there, the rest of the generator is skipped
                        cg.lazy.close()
                for mgr in reversed(managers):
                    ex_m = mgr.cls.find_method("__exit__")
                    if ex_m is None:
                        continue
                    a = [None, None, None] if exc is None or swallowed else [T("builtin", exc.name), getattr(exc, "value", None) or Sym("exc:" + exc.name), None]
                    if self.truth(self.call(self.prj.func(ex_m.qual, raw=True), a, {}, mgr)) and exc is not None:
                        swallowed = True
                return swallowed
            try:
                self.block(st.body, env, fi)
            except PyRaise as ex:
                from .core import exc_is_caught
                if (managers or gens) and leave(ex):
                    return
                if not (suppressed and exc_is_caught(ex.name, suppressed)):
                    raise
                return
            except (_Ret, _Brk, _Cont):
                if managers or gens:
                    leave(None)
                raise
            if managers or gens:
                leave(None)
            return
        if isinstance(st, ast.Match):
            subj = self.ev(st.subject, env, fi)
            for case in st.cases:
                binds = {}
                if self.match_pattern(case.pattern, subj, binds, env, fi):
                    env.update(binds)
                    if case.guard is None or self.truth(self.ev(case.guard, env, fi)):
                        self.block(case.body, env, fi)
                        return
            return
        if isinstance(st, (ast.Import, ast.ImportFrom, ast.Global, ast.Nonlocal)):
            return
        if isinstance(st, ast.Assert):
            return
        if isinstance(st, ast.Delete):
            for t in st.targets:
                if isinstance(t, ast.Name):
                    if t.id not in env:
                        raise PyRaise("NameError", st)
                    del env[t.id]
                elif isinstance(t, ast.Attribute):
                    obj = self.ev(t.value, env, fi)
                    if not isinstance(obj, Sym):
                        raise Unknown("del of an attribute of this value")
                    if t.attr not in obj.fields:
                        raise PyRaise("AttributeError", st)
                    del obj.fields[t.attr]
                elif isinstance(t, ast.Subscript):
                    obj = self.ev(t.value, env, fi)
                    if not isinstance(obj, (list, dict)):
                        raise Unknown("del of an item of this value")
                    if isinstance(t.slice, ast.Slice):
                        lo = self.ev(t.slice.lower, env, fi) if t.slice.lower is not None else None
                        hi = self.ev(t.slice.upper, env, fi) if t.slice.upper is not None else None
                        stp = self.ev(t.slice.step, env, fi) if t.slice.step is not None else None
                        if not isinstance(obj, list) or not all(x is None or isinstance(x, int) for x in (lo, hi, stp)):
                            raise Unknown("del of this slice")
                        del obj[lo:hi:stp]
                    else:
                        k = self.ev(t.slice, env, fi)
                        try:
                            del obj[self.key(k) if isinstance(obj, dict) else k]
                        except (KeyError, IndexError, TypeError) as e:
                            raise PyRaise(EXC_OF.get(type(e), "Exception"), st)
                else:
                    raise Unknown("del target")
            return
        raise Unknown(f"statement {type(st).__name__} at line {getattr(st, 'lineno', '?')}")

    def match_pattern(self, p, v, binds, env, fi) -> bool:
        if isinstance(p, ast.MatchValue):
            return self.equal(v, self.ev(p.value, env, fi))
        if isinstance(p, ast.MatchSingleton):
            return v is p.value
        if isinstance(p, ast.MatchAs):
            if p.pattern is not None and not self.match_pattern(p.pattern, v, binds, env, fi):
                return False
            if p.name is not None:
                binds[p.name] = v
            return True
        if isinstance(p, ast.MatchOr):
            for q in p.patterns:
                b2 = {}
                if self.match_pattern(q, v, b2, env, fi):
                    binds.update(b2)
                    return True
            return False
        if isinstance(p, ast.MatchSequence):
            if isinstance(v, Sym) and getattr(v, "tuple_order", None):
                v = tuple(v.fields[k] for k in v.tuple_order)          # a named tuple is a sequence
            elif isinstance(v, Deque):
                v = list(v)
            if not isinstance(v, (list, tuple)) or isinstance(v, T):
                if isinstance(v, Sym) and (v.open or v.cls is None or v.cls.external_bases()):
                    raise Unknown("sequence pattern on a symbolic value")
                if isinstance(v, (Sym, Lin, str, dict, SymDict)) or v is None or isinstance(v, (int, float)):
                    return False
                raise Unknown("sequence pattern on this value")
            stars = [i for i, q in enumerate(p.patterns) if isinstance(q, ast.MatchStar)]
            if not stars:
                return len(v) == len(p.patterns) and all(self.match_pattern(q, x, binds, env, fi) for q, x in zip(p.patterns, v))
            i = stars[0]
            after = len(p.patterns) - i - 1
            if len(v) < len(p.patterns) - 1:
                return False
            if not all(self.match_pattern(q, x, binds, env, fi) for q, x in zip(p.patterns[:i], v[:i])):
                return False
            if p.patterns[i].name is not None:
                binds[p.patterns[i].name] = list(v[i:len(v) - after])
            return all(self.match_pattern(q, x, binds, env, fi) for q, x in zip(p.patterns[i + 1:], v[len(v) - after:]))
        if isinstance(p, ast.MatchMapping):
            if not isinstance(v, dict):
                return False
            for k, q in zip(p.keys, p.patterns):
                kk = self.ev(k, env, fi)
                if kk not in v or not self.match_pattern(q, v[kk], binds, env, fi):
                    return False
            if p.rest is not None:
                used = [self.ev(k, env, fi) for k in p.keys]
                binds[p.rest] = {k: x for k, x in v.items() if k not in used}
            return True
        if isinstance(p, ast.MatchClass):
            c = self.ev(p.cls, env, fi)
            if not self.isinstance_(v, c):
                return False
            if p.patterns:
                if isinstance(c, T) and c[0] == "builtin" and len(p.patterns) == 1:
                    return self.match_pattern(p.patterns[0], v, binds, env, fi)      # int(x), str(x) capture the value
                names = None
                if isinstance(c, T) and c[0] == "class":
                    fl = c[1].dataclass_fields()
                    names = [n for n, _ in fl] if fl else None
                if names is None or len(p.patterns) > len(names):
                    raise Unknown("positional class pattern")
                for nm, q in zip(names, p.patterns):
                    if not self.match_pattern(q, self.getattr(v, nm, fi, p), binds, env, fi):
                        return False
            for nm, q in zip(p.kwd_attrs, p.kwd_patterns):
                if not self.match_pattern(q, self.getattr(v, nm, fi, p), binds, env, fi):
                    return False
            return True
        raise Unknown(f"pattern {type(p).__name__}")

    def assign(self, t, v, env, fi):
        if isinstance(t, ast.Name):
            env[t.id] = v
            outer = env.get("__nonlocal__")
            if outer and t.id in outer:
                outer[t.id][t.id] = v          # `nonlocal x`: the assignment is to the enclosing function's variable
        elif isinstance(t, (ast.Tuple, ast.List)):
            vals = list(self.iterate(v))
            stars = [i for i, e in enumerate(t.elts) if isinstance(e, ast.Starred)]
            if stars:
                i = stars[0]
                after = len(t.elts) - i - 1
                if len(stars) > 1 or len(vals) < len(t.elts) - 1:
                    raise PyRaise("ValueError", t)
                for e, x in zip(t.elts[:i], vals[:i]):
                    self.assign(e, x, env, fi)
                self.assign(t.elts[i].value, list(vals[i:len(vals) - after]), env, fi)
                for e, x in zip(t.elts[i + 1:], vals[len(vals) - after:]):
                    self.assign(e, x, env, fi)
                return
            if len(vals) != len(t.elts):
                raise PyRaise("ValueError", t)
            for e, x in zip(t.elts, vals):
                self.assign(e, x, env, fi)
        elif isinstance(t, ast.Attribute):
            obj = self.ev(t.value, env, fi)
            if isinstance(obj, (Sym, SymDict)):
                st = obj.cls.find_setter(t.attr) if getattr(obj, "cls", None) is not None else None
                if st is not None:
                    self.call(self.prj.func(st.qual, raw=True), [v], {}, obj)
                    return
                if getattr(obj, "cls", None) is not None:
                    gm = obj.cls.find_method(t.attr)
                    if gm is not None and gm.is_property() and not any(isinstance(d, ast.Attribute) and d.attr == "cached_property" or
                                                                       isinstance(d, ast.Name) and d.id == "cached_property" for d in gm.node.decorator_list):
                        raise PyRaise("AttributeError", t)      # a property without setter
                obj.fields[t.attr] = v
            elif isinstance(obj, tuple) and obj and obj[0] == "class":
                owner = next((c for c in obj[1].mro() if t.attr in c.class_attrs), obj[1])
                self.class_state[(owner.qual, t.attr)] = v
            elif isinstance(obj, Closure):
                obj.__dict__.setdefault("attrs", {})[t.attr] = v
            else:
                raise Unknown(f"attribute store on {type(obj).__name__}")
        elif isinstance(t, ast.Subscript):
            obj = self.ev(t.value, env, fi)
            if isinstance(t.slice, ast.Slice):
                lo = self.ev(t.slice.lower, env, fi) if t.slice.lower is not None else None
                hi = self.ev(t.slice.upper, env, fi) if t.slice.upper is not None else None
                if isinstance(obj, list):
                    obj[lo:hi] = list(self.iterate(v))
                    return
                raise Unknown("slice store")
            k = self.ev(t.slice, env, fi)
            if isinstance(obj, (list, dict)):
                try:
                    obj[self.key(k)] = v
                except (IndexError, KeyError, TypeError) as e:
                    raise PyRaise(EXC_OF.get(type(e), "Exception"), t)
            else:
                raise Unknown("subscript store")
        else:
            raise Unknown(f"assignment target {type(t).__name__}")

    @staticmethod
    def plain(v, depth=0) -> bool:
        """a value made of Python data only (no symbolic part): an error of a native operation on it is the program's"""
        if v is None or isinstance(v, (bool, int, float, str, bytes)):
            return True
        if depth > 6:
            return False
        if type(v) in (list, tuple):
            return all(MiniInterp.plain(x, depth + 1) for x in v)
        if type(v) is dict:
            return all(MiniInterp.plain(k, depth + 1) and MiniInterp.plain(x, depth + 1) for k, x in v.items())
        return False

    # -------------------------------------------------------------- expressions
    def key(self, k):
        """dictionary key: symbolic objects are keyed by identity (a project class with its own __eq__ as a
        dictionary key is outside the fragment)"""
        if isinstance(k, Sym) and k.cls is not None and k.cls.find_method("__eq__") is not None:
            # keys that define their own equality: the first key of every class of equal keys represents the class (Python looks
            # keys up by __hash__/__eq__; for a coherent pair that is the same as looking up the representative). Valid while
            # the objects used as keys are not modified in between, which is also what Python requires of dictionary keys.
            if k.cls.find_method("__hash__") is None:
                raise PyRaise("TypeError")      # __eq__ without __hash__: unhashable
            reps = self.__dict__.setdefault("_keyreps", [])
            for r in reps:
                if r is k or (r.cls is k.cls and self.equal(r, k)):
                    return r
            reps.append(k)
            return k
        if isinstance(k, tuple) and type(k) is tuple and any(isinstance(x, Sym) and x.cls is not None for x in k):
            return tuple(self.key(x) for x in k)
        return k

    # ----------------------------------------------------------------- equality / sets
    def equal(self, a, b) -> bool:
        if a is b:
            return True
        if isinstance(a, PygT) or isinstance(b, PygT):
            pa, pb = as_pygt(a), as_pygt(b)
            return pa is not None and pb is not None and pa.name == pb.name
        for x, y in ((a, b), (b, a)):
            if isinstance(x, Sym) and x.cls is not None:
                m = x.cls.find_method("__eq__")
                if m is not None:
                    r = self.call(self.prj.func(m.qual, raw=True), [y], {}, x)
                    if r is NOTIMPL:
                        continue
                    return self.truth(r)
        if isinstance(a, (Sym, Closure, BoundFunc)) or isinstance(b, (Sym, Closure, BoundFunc)):
            return False
        if isinstance(a, Lin) or isinstance(b, Lin):
            try:
                return Lin.of(a).key() == Lin.of(b).key()
            except Unknown:
                return False
        if isinstance(a, ISet) or isinstance(b, ISet):
            return isinstance(a, ISet) and isinstance(b, ISet) and len(a.xs) == len(b.xs) and all(self.contains(b, x) for x in a.xs)
        if isinstance(a, (list, tuple)) and isinstance(b, (list, tuple)) and type(a) is type(b):
            return len(a) == len(b) and all(self.equal(x, y) for x, y in zip(a, b))
        if type(a) is dict and type(b) is dict and not (self.plain(a) and self.plain(b)):
            if len(a) != len(b):
                return False
            for k, v in a.items():
                hit = [k2 for k2 in b if self.equal(k, k2)]
                if not hit or not self.equal(v, b[hit[0]]):
                    return False
            return True
        try:
            return bool(a == b)
        except Exception:
            raise Unknown("equality")

    def class_protocol(self, cls_marker, name):
        """the method `name` of the metaclass of a project class (Languages[...], x in Languages, for l in Languages), or None"""
        mc = cls_marker[1].metaclass(self.prj)
        if mc is None:
            return None
        m = mc.find_method(name)
        return self.prj.func(m.qual, raw=True) if m is not None else None

    def contains(self, coll, a) -> bool:
        if isinstance(a, PygT) and as_pygt(coll) is not None:
            return a.within(as_pygt(coll))
        if isinstance(coll, T):
            if coll and coll[0] == "class":
                m = self.class_protocol(coll, "__contains__")
                if m is not None:
                    return self.truth(self.call(m, [a], {}, coll))
                ms = self.enum_members(coll[1])
                if ms is not None:
                    return any(self.equal(v, a) for _, v in ms)
                mi = self.class_protocol(coll, "__iter__")
                if mi is not None:
                    return any(self.equal(x, a) for x in self.iterate(self.call(mi, [], {}, coll)))
                raise PyRaise("TypeError")
            raise Unknown(f"membership in {coll[0] if coll else 'marker'}")
        if isinstance(coll, ISet):
            return any(self.equal(x, a) for x in coll.xs)
        if isinstance(coll, dict):
            try:
                return self.key(a) in coll
            except TypeError:
                if self.plain(a):
                    raise PyRaise("TypeError")        # unhashable key
                raise Unknown("membership of this value in a dictionary")
        if isinstance(coll, str):
            if not isinstance(a, str):
                raise PyRaise("TypeError")
            return a in coll
        if isinstance(coll, (list, tuple, range)):
            return any(self.equal(x, a) for x in coll)
        if isinstance(coll, (_Iter, LazyIter)):
            for x in self.pull(coll):          # membership consumes the iterator up to the first hit
                if self.equal(x, a):
                    return True
            return False
        if isinstance(coll, (set, frozenset)):
            try:
                return self.key(a) in coll
            except TypeError:
                raise PyRaise("TypeError")
        if isinstance(coll, (Sym, SymDict)) and getattr(coll, "cls", None) is not None:
            cm = coll.cls.find_method("__contains__")
            if cm is not None:
                return self.truth(self.call(self.prj.func(cm.qual, raw=True), [a], {}, coll))
            if coll.cls.find_method("__iter__") is not None or (coll.cls.find_method("__getitem__") is not None and coll.cls.find_method("__len__") is not None):
                return any(self.equal(x, a) for x in self.iterate(coll))
            if not coll.cls.external_bases() and not getattr(coll, "open", False) and not getattr(coll, "tuple_order", None):
                raise PyRaise("TypeError")
        if isinstance(coll, Sym) and getattr(coll, "tuple_order", None):
            return any(self.equal(coll.fields[k], a) for k in coll.tuple_order)
        raise Unknown(f"membership in {type(coll).__name__}")

    def mkset(self, xs) -> "ISet":
        out = ISet()
        for x in xs:
            if not self.contains(out, x):
                out.xs.append(x)
        return out

    def truth(self, v):
        if isinstance(v, (Sym, Lin)) and self.hook:
            r = self.hook(self, "truth", v, None, None, None, None)
            if r is not NotImplemented:
                return r
        if isinstance(v, Lin):
            raise Unknown("truth value of a symbolic number")
        if isinstance(v, Sym) and v.cls is not None:
            for nm in ("__bool__", "__len__"):
                m = v.cls.find_method(nm)
                if m is not None:
                    r = self.call(self.prj.func(m.qual, raw=True), [], {}, v)
                    return bool(r) if isinstance(r, (bool, int)) else self.truth(r)
        if isinstance(v, (Sym, Closure, BoundFunc)):
            return True
        if isinstance(v, ISet):
            return bool(v.xs)
        try:
            return bool(v)
        except Exception:
            raise Unknown("truth value")

    def enum_members(self, ci):
        """members of an Enum class in definition order: ints for IntEnum, symbolic objects (cached) otherwise"""
        cache = self.__dict__.setdefault("_enum_cache", {})
        if ci.qual in cache:
            return cache[ci.qual]
        bases = {(attr_chain(b) or "").split(".")[-1] for c in ci.mro() for b in c.base_exprs}
        if not bases & {"Enum", "IntEnum", "StrEnum", "Flag", "IntFlag"}:
            return None
        out, nxt = [], 1
        f0 = next(iter(ci.methods.values()), None)
        for st in ci.node.body:
            if isinstance(st, ast.Assign) and len(st.targets) == 1 and isinstance(st.targets[0], ast.Name) and not st.targets[0].id.startswith("_"):
                v = st.value
                if isinstance(v, ast.Call) and (attr_chain(v.func) or "").split(".")[-1] == "auto":
                    val = nxt
                else:
                    val = self.ev(v, {}, f0 or self.prj.func(next(iter(self.prj.funcs))))
                if isinstance(val, int):
                    nxt = val + 1
                if bases & {"IntEnum", "IntFlag"} and isinstance(val, int):
                    m = EnumInt(val)
                    m.cls, m.name = ci, st.targets[0].id
                    out.append((st.targets[0].id, m))
                elif "StrEnum" in bases and isinstance(val, str):
                    out.append((st.targets[0].id, val))
                else:
                    m = Sym(f"{ci.name}.{st.targets[0].id}", _cls=ci)
                    m.fields.update(name=st.targets[0].id, value=val)
                    # a data mixin (class X(SomeNamedTuple / dataclass, Enum)): the member's value supplies the mixin's fields
                    mix = next((b for b in ci.mro()[1:] if b.dataclass_fields() is not None), None)
                    if mix is not None and isinstance(val, tuple):
                        names = [f for f, _ in mix.dataclass_fields()]
                        if len(names) == len(val):
                            for fn_, fv in zip(names, val):
                                m.fields[fn_] = fv
                            if any(c.is_namedtuple() for c in mix.mro()):
                                m.tuple_order = names
                    out.append((st.targets[0].id, m))
        cache[ci.qual] = out
        return out

    def iterate(self, v):
        if isinstance(v, T):
            if v[0] == "class":
                ms = self.enum_members(v[1])
                if ms is not None:
                    return [m for _, m in ms]
                mi = self.class_protocol(v, "__iter__")
                if mi is not None:
                    return self.iterate(self.call(mi, [], {}, v))
            raise Unknown(f"iteration over {v[0]}")
        if isinstance(v, (set, frozenset)):
            # a model order (never CPython's hash order, which varies with PYTHONHASHSEED); reversed on request
            try:
                xs = sorted(v, key=lambda x: (type(x).__name__, x))
            except TypeError:
                xs = sorted(v, key=repr)
            return xs[::-1] if getattr(self, "reverse_sets", False) else xs
        if isinstance(v, (list, tuple, str, range)):
            return list(v)
        if isinstance(v, dict):
            return list(v.keys())
        if isinstance(v, (_Iter, LazyIter)):
            return v.rest()
        if isinstance(v, ISet):
            return list(v.xs)[::-1] if getattr(self, "reverse_sets", False) else list(v.xs)
        if isinstance(v, Sym) and getattr(v, "tuple_order", None):
            return [v.fields[k] for k in v.tuple_order]
        if isinstance(v, Sym) and v.cls is not None:
            it_m = v.cls.find_method("__iter__")
            if it_m is not None:
                r = self.call(self.prj.func(it_m.qual, raw=True), [], {}, v)
                if r is v or (isinstance(r, Sym) and r.cls is not None and r.cls.find_method("__next__") is not None and r.cls.find_method("__iter__") is not None
                              and not isinstance(r, (_Iter, LazyIter))):
                    nx = r.cls.find_method("__next__")
                    if nx is None:
                        raise PyRaise("TypeError")
                    out = []
                    while True:
                        self.tick()
                        try:
                            out.append(self.call(self.prj.func(nx.qual, raw=True), [], {}, r))
                        except PyRaise as e:
                            if e.name == "StopIteration":
                                break
                            raise
                    return out
                return self.iterate(r)
            gi = v.cls.find_method("__getitem__")
            if gi is not None and v.cls.find_method("__len__") is not None:
                n = self.call(self.prj.func(v.cls.find_method("__len__").qual, raw=True), [], {}, v)
                if isinstance(n, int):
                    return [self.call(self.prj.func(gi.qual, raw=True), [i], {}, v) for i in range(n)]
        if v is None or isinstance(v, (bool, int, float)):
            raise PyRaise("TypeError")               # not iterable
        raise Unknown(f"iteration over {type(v).__name__}")

    LIBRARY_DECORATORS = {"staticmethod", "classmethod", "property", "abstractmethod", "cached_property", "lru_cache", "cache", "total_ordering",
                          "dataclass", "override", "final", "overload", "setter", "deleter", "getter", "unique", "runtime_checkable",
                          "contextmanager"}

    @classmethod
    def project_decorators(cls, node) -> list:
        """the decorators of a definition that are not the library's declarative ones (those are modelled where they matter)"""
        out = []
        for d in getattr(node, "decorator_list", []):
            nm = (attr_chain(d.func if isinstance(d, ast.Call) else d) or "?").split(".")[-1]
            if nm not in cls.LIBRARY_DECORATORS:
                out.append(d)
        return out

    def decorated(self, value, node, env, fi):
        """`@d1 @d2 def f` binds d1(d2(f)): the decorators are evaluated and applied, innermost first"""
        for d in reversed(self.project_decorators(node)):
            nm = (attr_chain(d.func if isinstance(d, ast.Call) else d) or "?").split(".")[-1]
            if nm == "wraps":
                continue                      # functools.wraps(f): copies names, returns the function
            if nm in ("singledispatch", "singledispatchmethod"):
                raise Unknown(f"decorator {nm}")
            dec = self.ev(d, env, fi)
            value = self.apply2(dec, [value], {})
        return value

    def import_time(self):
        """what importing the package executes besides definitions: decorators of module-level functions and classes and of
        methods (registries filled by decorators).  Run once per interpreter, before the first call."""
        if self.__dict__.get("_imported"):
            return
        self._imported = True
        todo = self.prj.__dict__.get("_decorated_defs")
        if todo is None:
            todo = []
            for m in self.prj.modules.values():
                for name, f in m.functions.items():
                    if self.project_decorators(f.node):
                        todo.append(("func", m, name, f))
                for ci in m.classes.values():
                    for name, f in ci.methods.items():
                        if self.project_decorators(f.node):
                            todo.append(("method", m, name, f))
                    if self.project_decorators(ci.node):
                        todo.append(("class", m, ci.name, ci))
            self.prj.__dict__["_decorated_defs"] = todo
        cache = self.__dict__.setdefault("_globals", {})
        for kind, m, name, obj in todo:
            try:
                self._import_one(kind, m, name, obj, cache)
            except (Unknown, PyRaise):
                # a decorator that is not modelled (a command-line framework ...): what it makes of the definition, and what it
                # registers where, is not known - nothing of that module is evaluated
                self.__dict__.setdefault("_poisoned", set()).add(m.name)
                if kind != "class":
                    self.__dict__.setdefault("_wrapped_methods", set()).add(obj.qual)

    def _import_one(self, kind, m, name, obj, cache):
        if True:
            if kind == "func":
                anchor = self.prj.func(obj.qual, raw=True)
                cache[(m.name, name)] = self.decorated(BoundFunc(anchor), obj.node, {}, anchor)
            elif kind == "method":
                anchor = self.prj.func(obj.qual, raw=True)
                r = self.decorated(BoundFunc(anchor, None), obj.node, self.class_namespace(obj.cls, obj.node), anchor)
                if not (isinstance(r, BoundFunc) and r.fi.qual == anchor.qual):
                    self.__dict__.setdefault("_wrapped_methods", set()).add(anchor.qual)
            else:
                anchor = next(iter(obj.methods.values()), None) or self.module_anchor(m, None)
                if anchor is None:
                    raise Unknown(f"decorated class {name} in a module without functions")
                anchor = self.prj.func(anchor.qual, raw=True)
                r = self.decorated(T("class", obj), obj.node, {}, anchor)
                if not (isinstance(r, T) and r and r[0] == "class" and r[1] is obj):
                    raise Unknown(f"class {name} replaced by its decorator")

    OPNAMES = {ast.Add: "add", ast.Sub: "sub", ast.Mult: "mul", ast.FloorDiv: "floordiv", ast.Mod: "mod", ast.Div: "truediv", ast.BitOr: "or",
               ast.BitAnd: "and", ast.BitXor: "xor", ast.LShift: "lshift", ast.RShift: "rshift", ast.MatMult: "matmul", ast.Pow: "pow"}

    def operator_method(self, op, a, b, node, inplace=False):
        """a + b where an operand is an instance of a project class that defines the operator: __iadd__ (for +=), __add__, then the
        right operand's __radd__, as Python does; NOTIMPL when no operand defines it"""
        nm = self.OPNAMES.get(type(op))
        if nm is None:
            return NOTIMPL
        tries = []
        if isinstance(a, (Sym, SymDict)) and getattr(a, "cls", None) is not None:
            if inplace:
                tries.append((a, f"__i{nm}__", b))
            tries.append((a, f"__{nm}__", b))
        if isinstance(b, (Sym, SymDict)) and getattr(b, "cls", None) is not None:
            tries.append((b, f"__r{nm}__", a))
        defined = False
        for obj, meth, other in tries:
            m = obj.cls.find_method(meth)
            if m is None:
                continue
            defined = True
            r = self.apply2(BoundFunc(self.prj.func(m.qual, raw=True), obj), [other], {})     # seen by the hooks like any other call
            if r is not NOTIMPL:
                return r
        if defined:
            raise PyRaise("TypeError", node)
        for x in (a, b):
            # an instance of a project class without the operator, combined with a plain value: Python's TypeError
            if isinstance(x, Sym) and x.cls is not None and not x.open and not x.cls.external_bases() and \
                    (self.plain(a) or self.plain(b) or (isinstance(a, Sym) and isinstance(b, Sym) and a.cls is not None and b.cls is not None)) \
                    and not getattr(x, "tuple_order", None) and self.enum_members(x.cls) is None:
                raise PyRaise("TypeError", node)
        return NOTIMPL

    def binop(self, op, a, b, node):
        if isinstance(a, ISet) and isinstance(b, ISet):
            if isinstance(op, ast.BitOr):
                return self.iset_method(a, "union", [b], node)
            if isinstance(op, ast.BitAnd):
                return self.iset_method(a, "intersection", [b], node)
            if isinstance(op, ast.Sub):
                return self.iset_method(a, "difference", [b], node)
            raise Unknown("operator on sets")
        if self.hook and isinstance(op, ast.Div) and not all(isinstance(x, (int, float, Sym, Lin)) for x in (a, b)):
            r = self.hook(self, "binop_div", a, b, None, node, None)
            if r is not NotImplemented:
                return r
        r = self.operator_method(op, a, b, node)
        if r is not NOTIMPL:
            return r
        if isinstance(a, (Sym, Lin)) or isinstance(b, (Sym, Lin)):
            if isinstance(op, (ast.Add, ast.Sub)):
                return Lin.of(a).add(Lin.of(b), 1 if isinstance(op, ast.Add) else -1).simplify()
            if isinstance(op, ast.Mult):
                la, lb = Lin.of(a), Lin.of(b)
                if not la.terms:
                    return lb.scale(la.const).simplify()
                if not lb.terms:
                    return la.scale(lb.const).simplify()
            return self.opaque(type(op).__name__, a, b)
        try:
            if isinstance(op, ast.Add):
                return a + b
            if isinstance(op, ast.Sub):
                return a - b
            if isinstance(op, ast.Mult):
                return a * b
            if isinstance(op, ast.FloorDiv):
                return a // b
            if isinstance(op, ast.Mod):
                return a % b
            if isinstance(op, ast.Div):
                return a / b
            if isinstance(op, ast.BitOr):
                return a | b
            if isinstance(op, ast.BitAnd):
                return a & b
        except ZeroDivisionError:
            raise PyRaise("ZeroDivisionError", node)
        except TypeError:
            if self.plain(a) and self.plain(b):
                raise PyRaise("TypeError", node)
            raise Unknown("binary operator on these operands")
        raise Unknown(f"operator {type(op).__name__}")

    def opaque(self, op, a, b=None, *more):
        """uninterpreted term for arithmetic outside the linear fragment; same structure -> same name"""
        def nm(x):
            return x.name if isinstance(x, Sym) else repr(x)
        args = [a] + ([b] if b is not None else []) + list(more)
        name = f"{op}({', '.join(nm(x) for x in args)})"
        t = Sym(name)
        t.fields.update(op=op, a=a, b=b, args=args)
        self.terms[name] = t
        return t

    def ev(self, n, env, fi):
        self.tick()
        if n is None:
            return None
        if isinstance(n, ast.Constant):
            return n.value
        if isinstance(n, ast.Name):
            if n.id in env:
                return env[n.id]
            return self.global_name(n.id, fi)
        if isinstance(n, (ast.Tuple, ast.List, ast.Set)):
            xs = []
            for e in n.elts:
                if isinstance(e, ast.Starred):
                    xs.extend(self.iterate(self.ev(e.value, env, fi)))
                else:
                    xs.append(self.ev(e, env, fi))
            return tuple(xs) if isinstance(n, ast.Tuple) else xs if isinstance(n, ast.List) else self.mkset(xs)
        if isinstance(n, ast.Dict):
            d = {}
            for k, v in zip(n.keys, n.values):
                if k is None:
                    m = self.ev(v, env, fi)
                    if not isinstance(m, dict):
                        raise Unknown("** of a non-dictionary in a display")
                    d.update(m)
                else:
                    d[self.key(self.ev(k, env, fi))] = self.ev(v, env, fi)
            return d
        if isinstance(n, ast.BoolOp):
            v = None
            for x in n.values:
                v = self.ev(x, env, fi)
                t = self.truth(v)
                if isinstance(n.op, ast.And) and not t:
                    return v
                if isinstance(n.op, ast.Or) and t:
                    return v
            return v
        if isinstance(n, ast.UnaryOp):
            v = self.ev(n.operand, env, fi)
            if isinstance(n.op, ast.Not):
                return not self.truth(v)
            if isinstance(n.op, ast.USub):
                if isinstance(v, (Sym, Lin)):
                    return Lin.of(v).scale(-1).simplify()
                return -v
            if isinstance(n.op, ast.UAdd) and isinstance(v, (int, float, Sym, Lin)):
                return v
            if isinstance(n.op, ast.Invert) and isinstance(v, int):
                return ~v
            raise Unknown("unary operator")
        if isinstance(n, ast.BinOp):
            return self.binop(n.op, self.ev(n.left, env, fi), self.ev(n.right, env, fi), n)
        if isinstance(n, ast.IfExp):
            return self.ev(n.body if self.truth(self.ev(n.test, env, fi)) else n.orelse, env, fi)
        if isinstance(n, ast.Compare):
            left = self.ev(n.left, env, fi)
            for op, c in zip(n.ops, n.comparators):
                right = self.ev(c, env, fi)
                if not self.compare(op, left, right):
                    return False
                left = right
            return True
        if isinstance(n, ast.Subscript):
            obj = self.ev(n.value, env, fi)
            if isinstance(n.slice, ast.Slice):
                lo = self.ev(n.slice.lower, env, fi) if n.slice.lower is not None else None
                hi = self.ev(n.slice.upper, env, fi) if n.slice.upper is not None else None
                st = self.ev(n.slice.step, env, fi) if n.slice.step is not None else None
                if isinstance(obj, (list, tuple, str)):
                    return obj[lo:hi:st]
                raise Unknown("slice of this value")
            k = self.ev(n.slice, env, fi)
            if isinstance(obj, T):
                if obj and obj[0] == "class":
                    mg = self.class_protocol(obj, "__getitem__")
                    if mg is not None:
                        return self.call(mg, [k], {}, obj)
                    ms = self.enum_members(obj[1])
                    if ms is not None and isinstance(k, str):
                        for nm, val in ms:
                            if nm == k:
                                return val
                        raise PyRaise("KeyError", n)
                raise Unknown(f"subscript of {obj[0] if obj else 'marker'}")
            if isinstance(obj, (list, tuple, str, dict, range)):
                try:
                    return obj[self.key(k) if isinstance(obj, dict) else k]
                except (KeyError, IndexError, TypeError) as e:
                    if isinstance(e, KeyError) and isinstance(obj, SymDict) and obj.cls.find_method("__missing__") is not None:
                        return self.call(self.prj.func(obj.cls.find_method("__missing__").qual, raw=True), [k], {}, obj)
                    if isinstance(e, KeyError) and isinstance(obj, DefaultDict):
                        if obj.counter:
                            return 0
                        if obj.factory is not None:
                            v = self.apply2(obj.factory, [], {})
                            obj[self.key(k)] = v
                            return v
                    raise PyRaise(EXC_OF.get(type(e), "Exception"), n)
            if isinstance(obj, Sym) and getattr(obj, "tuple_order", None) and isinstance(k, int):
                return obj.fields[obj.tuple_order[k]]
            if isinstance(obj, Sym) and obj.open:
                kk = repr(k)
                if kk not in obj.items:
                    obj.items[kk] = Sym(f"{obj.name}[{k.name if isinstance(k, Sym) else kk}]", _open=True)
                return obj.items[kk]
            if isinstance(obj, Sym) and obj.cls is not None and not obj.open:
                gi = obj.cls.find_method("__getitem__")
                if gi is not None:
                    return self.call(self.prj.func(gi.qual, raw=True), [k], {}, obj)
                if not obj.cls.external_bases():
                    raise PyRaise("TypeError", n)    # an instance of a project class without __getitem__ is not subscriptable
            if obj is None or isinstance(obj, (bool, int, float)):
                raise PyRaise("TypeError", n)        # None[...] / 3[...]: not subscriptable
            raise Unknown(f"subscript of {type(obj).__name__}")
        if isinstance(n, ast.Attribute):
            obj = self.ev(n.value, env, fi)
            return self.getattr(obj, n.attr, fi, n)
        if isinstance(n, ast.Call):
            return self.ev_call(n, env, fi)
        if isinstance(n, (ast.ListComp, ast.SetComp, ast.GeneratorExp, ast.DictComp)):
            return self.comp(n, env, fi)
        if isinstance(n, ast.Lambda):
            return Closure(n, env, fi)
        if isinstance(n, ast.JoinedStr):
            parts = []
            for v in n.values:
                if isinstance(v, ast.Constant):
                    parts.append(str(v.value))
                    continue
                x = self.ev(v.value, env, fi)
                spec = ""
                if v.format_spec is not None:
                    sp = self.ev(v.format_spec, env, fi)
                    if not isinstance(sp, str):
                        raise Unknown("format spec")
                    spec = sp
                def plain(v):
                    return isinstance(v, (int, float, str, bool, type(None))) or (isinstance(v, (list, tuple)) and all(plain(y) for y in v)) or \
                        (isinstance(v, dict) and all(plain(k) and plain(y) for k, y in v.items()))
                if not plain(x) and self.hook:
                    r = self.hook(self, "call", ("builtin", "str"), [x], {}, n, fi)
                    if isinstance(r, str):
                        x = r
                if isinstance(x, Sym) and x.cls is not None and v.conversion == -1 and \
                        any(x.cls.find_method(mn) is not None for mn in ("__format__", "__str__", "__repr__")):
                    # an object of the project in a replacement field: its own __format__ (or text form)
                    r = self.builtin("format", [x, spec], {}, n)
                    if isinstance(r, str):
                        parts.append(r)
                        continue
                if plain(x):
                    try:
                        if v.conversion == ord("r"):
                            x = repr(x)
                        elif v.conversion == ord("s"):
                            x = str(x)
                        parts.append(format(x, spec))
                    except (ValueError, TypeError):
                        raise PyRaise("ValueError", n)
                else:
                    parts.append(x)
            if all(isinstance(x, str) for x in parts):
                return "".join(parts)
            return Sym("fstring", parts=parts)
        if isinstance(n, ast.NamedExpr):
            v = self.ev(n.value, env, fi)
            env[n.target.id] = v
            return v
        if isinstance(n, ast.Yield):
            if "__yield__" not in env:
                raise Unknown("yield outside an interpreted generator")
            env["__yield__"].append(self.ev(n.value, env, fi) if n.value is not None else None)
            return None
        if isinstance(n, ast.YieldFrom):
            if "__yield__" not in env:
                raise Unknown("yield outside an interpreted generator")
            src = self.ev(n.value, env, fi)
            if isinstance(src, LazyIter) and isinstance(env["__yield__"], _YieldSink):
                for x in src.lazy():
                    env["__yield__"].append(x)
            else:
                env["__yield__"].extend(self.iterate(src))
            return getattr(src, "holder", {}).get("ret") if isinstance(src, LazyIter) else None
        if isinstance(n, ast.Starred):
            raise Unknown("starred expression")
        raise Unknown(f"expression {type(n).__name__}")

    def comp(self, n, env, fi):
        if isinstance(n, ast.GeneratorExp):
            return self.genexp(n, env, fi)
        out = []
        env2 = dict(env)

        def rec(i):
            if i == len(n.generators):
                if isinstance(n, ast.DictComp):
                    out.append((self.key(self.ev(n.key, env2, fi)), self.ev(n.value, env2, fi)))
                else:
                    out.append(self.ev(n.elt, env2, fi))
                return
            g = n.generators[i]
            src = self.ev(g.iter, env2, fi)
            # a lazily produced source (os.walk, a generator function) is pulled one element at a time: what the inner clauses do
            # with an element (pruning the walked directory list) happens before the next one is produced
            for x in (self.loop_source(src)):
                self.tick()
                self.assign(g.target, x, env2, fi)
                if all(self.truth(self.ev(c, env2, fi)) for c in g.ifs):
                    rec(i + 1)
        rec(0)
        if isinstance(n, ast.ListComp):
            return out
        if isinstance(n, ast.SetComp):
            return self.mkset(out)
        if isinstance(n, ast.DictComp):
            return dict(out)
        return _Iter(out)

    def loop_source(self, src, depth=0):
        """what a for loop (or a comprehension clause) draws from: iterators and generators one element at a time, lists by
        position in the live list, objects of the project through their __iter__ (whose result is drawn from in the same way)"""
        if isinstance(src, LazyIter):
            return src.lazy()
        if isinstance(src, _Iter):
            return src.pull()
        if type(src) is list:
            return _live_list(src)
        if isinstance(src, Sym) and src.cls is not None and not getattr(src, "tuple_order", None) and depth < 3:
            m = src.cls.find_method("__iter__")
            if m is not None:
                r = self.call(self.prj.func(m.qual, raw=True), [], {}, src)
                if r is src:
                    return iter(self.iterate(src))
                return self.loop_source(r, depth + 1)
        return iter(self.iterate(src))

    def genexp(self, n, env, fi):
        """a generator expression: the outermost iterable is evaluated now, everything else when the consumer asks for the next
        element (a consumer that stops early - next(), any(), a loop with break - leaves the rest unevaluated)"""
        env2 = dict(env)
        first = self.ev(n.generators[0].iter, env2, fi)

        def body(sink):
            def rec(i):
                if i == len(n.generators):
                    sink.append(self.ev(n.elt, env2, fi))
                    return
                g = n.generators[i]
                src = first if i == 0 else self.ev(g.iter, env2, fi)
                for x in (self.loop_source(src)):
                    self.tick()
                    self.assign(g.target, x, env2, fi)
                    if all(self.truth(self.ev(c, env2, fi)) for c in g.ifs):
                        rec(i + 1)
            rec(0)
        g_, close = thread_generator(body)
        return LazyIter(g_, close)

    @staticmethod
    def is_opaque(v) -> bool:
        """the result of a library call that is not modelled (recorded as an effect): nothing is known about its value"""
        return isinstance(v, Sym) and v.cls is None and (v.name.startswith("ext:") or v.name.startswith("ext."))

    def compare(self, op, a, b):
        if (self.is_opaque(a) or self.is_opaque(b)) and a is not b and not (isinstance(op, (ast.Is, ast.IsNot)) and (a is None or b is None)):
            # a decision that hangs on the value of an unmodelled library call is not decided here
            raise Unknown(f"comparison with the result of an unmodelled library call ({a if self.is_opaque(a) else b})")
        if isinstance(op, (ast.Is, ast.IsNot)):
            same = a is b or (a is None and b is None)
            if not same and isinstance(a, T) and isinstance(b, T) and a and b and a[0] in ("class", "builtin", "external") and a[0] == b[0]:
                same = tuple(a) == tuple(b)          # classes and builtin types are singletons: identity is equality of what they name
            if not same and isinstance(a, (bool, EnumInt)) and isinstance(b, (bool, EnumInt)) and type(a) is type(b):
                same = a == b and getattr(a, "name", None) == getattr(b, "name", None)
            return same if isinstance(op, ast.Is) else not same
        if isinstance(op, (ast.In, ast.NotIn)):
            r = self.contains(b, a)
            return r if isinstance(op, ast.In) else not r
        if isinstance(op, (ast.Eq, ast.NotEq)) and ((isinstance(a, Sym) and a.cls is not None) or (isinstance(b, Sym) and b.cls is not None)
                                                  or isinstance(a, (ISet, PygT)) or isinstance(b, (ISet, PygT))):
            r = self.equal(a, b)
            return r if isinstance(op, ast.Eq) else not r
        if type(a) in (list, tuple, dict) and type(b) is type(a) and not (self.plain(a) and self.plain(b)):
            # containers of objects: Python compares them element by element with the elements' own comparison methods
            if isinstance(op, (ast.Eq, ast.NotEq)):
                r = self.equal(a, b)
                return r if isinstance(op, ast.Eq) else not r
            if type(a) is dict:
                raise PyRaise("TypeError")
            for x, y in zip(a, b):
                if not self.compare(ast.Eq(), x, y):
                    if isinstance(op, (ast.Lt, ast.LtE)):
                        return self.compare(ast.Lt(), x, y)
                    return self.compare(ast.Gt(), x, y)
            return {ast.Lt: len(a) < len(b), ast.LtE: len(a) <= len(b), ast.Gt: len(a) > len(b), ast.GtE: len(a) >= len(b)}[type(op)]
        if isinstance(op, (ast.Lt, ast.LtE, ast.Gt, ast.GtE)) and any(isinstance(x, Sym) and x.cls is not None for x in (a, b)):
            names = {ast.Lt: ("__lt__", "__gt__"), ast.LtE: ("__le__", "__ge__"), ast.Gt: ("__gt__", "__lt__"), ast.GtE: ("__ge__", "__le__")}[type(op)]
            for obj, meth, other in ((a, names[0], b), (b, names[1], a)):
                if isinstance(obj, Sym) and obj.cls is not None:
                    m = obj.cls.find_method(meth)
                    if m is None and any(isinstance(d, ast.Name) and d.id == "total_ordering" or isinstance(d, ast.Attribute) and d.attr == "total_ordering"
                                         for c in obj.cls.mro() for d in c.node.decorator_list):
                        raise Unknown("functools.total_ordering")
                    if m is not None:
                        r = self.call(self.prj.func(m.qual, raw=True), [other], {}, obj)
                        if r is not NOTIMPL:
                            return self.truth(r)
        if isinstance(a, (Sym, Lin)) or isinstance(b, (Sym, Lin)):
            if self.hook:
                r = self.hook(self, "compare", op, (a, b), None, None, None)
                if r is not NotImplemented:
                    return r
            if isinstance(a, Lin) or isinstance(b, Lin):
                raise Unknown("comparison of symbolic numbers")
            if isinstance(op, ast.Eq):
                return a is b
            if isinstance(op, ast.NotEq):
                return a is not b
            raise Unknown("ordering of symbolic objects")
        try:
            return {ast.Eq: lambda: a == b, ast.NotEq: lambda: a != b, ast.Lt: lambda: a < b, ast.LtE: lambda: a <= b,
                    ast.Gt: lambda: a > b, ast.GtE: lambda: a >= b}[type(op)]()
        except TypeError:
            if self.plain(a) and self.plain(b):
                raise PyRaise("TypeError")
            raise Unknown("comparison")
        except KeyError:
            raise Unknown("comparison")

    def getattr(self, obj, attr, fi, node):
        if attr == "__dict__" and isinstance(obj, Sym) and obj.cls is not None and not isinstance(obj, SymDict):
            return obj.fields            # the instance's own attribute dictionary (live)
        if attr == "__class__" and not (isinstance(obj, Sym) and ("__class__" in obj.fields or obj.cls is None)):
            return self.type_of(obj)
        if isinstance(obj, SymDict):
            if attr in obj.fields:
                return obj.fields[attr]
            m = obj.cls.find_method(attr)
            if m is not None:
                if m.is_property():
                    return self.call(self.prj.func(m.qual, raw=True), [], {}, obj)
                return BoundFunc(m, T("class", obj.cls) if m.is_classmethod() else obj)
            if attr in SAFE_METHODS[dict]:
                return T("native", obj, attr)
            raise PyRaise("AttributeError", node)
        if isinstance(obj, EnumInt) and obj.cls is not None:
            if attr == "name":
                return obj.name
            if attr == "value":
                return int(obj)
            m = obj.cls.find_method(attr)
            if m is not None:
                if m.is_property():
                    return self.call(self.prj.func(m.qual, raw=True), [], {}, obj)
                if m.is_classmethod():
                    return BoundFunc(m, T("class", obj.cls))
                return BoundFunc(m, obj)
            for nm, val in self.enum_members(obj.cls) or []:
                if nm == attr:
                    return val
        if isinstance(obj, Sym):
            if attr in obj.fields:
                return obj.fields[attr]
            if self.hook:
                r = self.hook(self, "getattr", obj, attr, None, node, fi)
                if r is not NotImplemented:
                    return r
            if obj.cls is not None:
                m = obj.cls.find_method(attr)
                if m is not None:
                    if m.is_property():
                        v_ = self.call(self.prj.func(m.qual, raw=True), [], {}, obj)
                        if any((attr_chain(d) or "").split(".")[-1] == "cached_property" for d in m.node.decorator_list):
                            obj.fields[attr] = v_          # computed once per instance, then an ordinary attribute
                        return v_
                    if m.is_classmethod():
                        return BoundFunc(m, T("class", obj.cls))
                    return BoundFunc(m, obj)
                for c in obj.cls.mro():
                    if (c.qual, attr) not in self.class_state and attr in c.class_attrs and c.class_attrs[attr] is not None:
                        # the class body is executed once: every instance sees the same object
                        f0 = next(iter(c.methods.values()), fi)
                        self.class_state[(c.qual, attr)] = self.ev(c.class_attrs[attr], self.class_namespace(c, c.class_attrs[attr]), f0)
                    if (c.qual, attr) in self.class_state:
                        val = self.class_state[(c.qual, attr)]
                        if isinstance(val, T) and val[0] == "partialmethod":
                            return PyFn(f"bound {attr}", lambda a, k, val=val, obj=obj: self.call_callable(
                                val[1] if not (isinstance(val[1], BoundFunc) and val[1].fi.is_method()) else BoundFunc(val[1].fi, None),
                                [obj] + list(val[2]) + list(a), {**dict(val[3]), **dict(k)}))
                        if isinstance(val, Closure) or (isinstance(val, BoundFunc) and val.self_obj is None and not val.fi.is_method()):
                            # a function stored in the class body is a method: bound to the instance on access
                            return PyFn(f"bound {attr}", lambda a, k, val=val, obj=obj: self.call_callable(val, [obj] + list(a), dict(k)))
                        return val
            if getattr(obj, "tuple_order", None) and attr in ("_replace", "_asdict", "_fields", "count", "index"):
                if attr == "_fields":
                    return tuple(obj.tuple_order)
                if attr == "_asdict":
                    return PyFn("_asdict", lambda a, k, obj=obj: {f: obj.fields[f] for f in obj.tuple_order})
                if attr == "_replace":
                    def _rep(a, k, obj=obj):
                        new = Sym(obj.name, _cls=obj.cls, **{f: k.get(f, obj.fields[f]) for f in obj.tuple_order})
                        new.tuple_order = list(obj.tuple_order)
                        return new
                    return PyFn("_replace", _rep)
                vals = [obj.fields[f] for f in obj.tuple_order]
                return T("native", tuple(vals), attr)
            if obj.open:
                ch = Sym(f"{obj.name}.{attr}", _open=True)
                ch.parent = (obj, attr)
                obj.fields[attr] = ch
                return ch
            return T("method", obj, attr)
        if isinstance(obj, tuple) and obj and obj[0] == "module":
            m = obj[1]
            if attr in m.functions:
                return BoundFunc(m.functions[attr])
            if attr in m.assigns:
                return self.ev(m.assigns[attr], {}, self.module_anchor(m, fi))
            raise Unknown(f"module attribute {attr}")
        if isinstance(obj, tuple) and obj and obj[0] == "class":
            ci = obj[1]
            if self.hook:
                r = self.hook(self, "getattr", obj, attr, None, node, fi)
                if r is not NotImplemented:
                    return r
            ms = self.enum_members(ci)
            if ms is not None:
                for nm, val in ms:
                    if nm == attr:
                        return val
            m = ci.find_method(attr)
            if m is not None:
                return BoundFunc(m, obj if m.is_classmethod() else None)
            for c in ci.mro():
                if (c.qual, attr) in self.class_state:
                    return self.class_state[(c.qual, attr)]
            for c in ci.mro():
                if attr in c.class_attrs and c.class_attrs[attr] is not None:
                    f0 = next(iter(c.methods.values()), fi)
                    self.class_state[(c.qual, attr)] = self.ev(c.class_attrs[attr], self.class_namespace(c, c.class_attrs[attr]), f0)
                    return self.class_state[(c.qual, attr)]
            if any(c.is_namedtuple() for c in ci.mro()):
                if attr == "_make":
                    return PyFn("_make", lambda a, k, ci=ci, obj=obj: self.construct(ci, list(self.iterate(a[0])), {}, node, fi))
                if attr == "_fields":
                    return tuple(f for f, _ in (ci.dataclass_fields() or []))
            raise Unknown(f"class attribute {attr}")
        if isinstance(obj, tuple) and obj and obj[0] == "external":
            if (obj[1], attr) in (("os.path", "sep"), ("os", "sep")):
                return "/"
            if obj[1] == "re" and attr in ("IGNORECASE", "I", "MULTILINE", "M", "DOTALL", "S", "VERBOSE", "X", "ASCII", "A"):
                return int(getattr(_re, attr))
            if obj[1] == "os" and (attr.startswith("O_") or attr in ("linesep", "pathsep", "curdir", "pardir", "extsep", "SEEK_SET", "SEEK_END", "SEEK_CUR")):
                import os as _os
                if hasattr(_os, attr):
                    return getattr(_os, attr)
            if obj[1] == "stat" and attr.startswith("S_I"):
                import stat as _stat
                if isinstance(getattr(_stat, attr, None), int):
                    return getattr(_stat, attr)
            if obj[1] == "math" and attr in ("inf", "pi", "e"):
                import math as _math
                return getattr(_math, attr)
            if obj[1] == "sys" and attr == "maxsize":
                import sys as _sys
                return _sys.maxsize
            return T("external", f"{obj[1]}.{attr}")
        if isinstance(obj, tuple) and obj and obj[0] == "super":
            _, me, cls_ = obj
            for b in cls_.bases:
                m = b.find_method(attr)
                if m is not None:
                    return BoundFunc(m, me)
            if isinstance(me, SymDict):
                # a class derived from dict: super() reaches the dictionary's own methods
                if attr == "__init__":
                    def dinit(a, k, me=me):
                        if a:
                            src = a[0]
                            for kk, vv in (src.items() if isinstance(src, dict) else [tuple(self.iterate(x)) for x in self.iterate(src)]):
                                dict.__setitem__(me, self.key(kk), vv)
                        for kk, vv in k.items():
                            dict.__setitem__(me, kk, vv)
                        return None
                    return PyFn("dict.__init__", dinit)
                if attr in ("__getitem__", "__setitem__", "__contains__", "__delitem__", "__len__"):
                    def dm(a, k, me=me, attr=attr):
                        try:
                            return getattr(dict, attr)(me, *([self.key(a[0])] + list(a[1:]) if a else []))
                        except KeyError:
                            raise PyRaise("KeyError", node)
                    return PyFn("dict." + attr, dm)
                if attr in SAFE_METHODS[dict]:
                    return T("native", me, attr)
            if attr in ("__init__", "__post_init__", "__init_subclass__", "__del__") and not cls_.external_bases():
                return PyFn("object." + attr, lambda a, k: None)       # object's own: nothing to do
            return T("method", Sym("ext:super", _open=True), attr)
        if isinstance(obj, HashV) and attr in ("update", "hexdigest", "digest", "copy"):
            def hm(a, k, obj=obj, attr=attr):
                if attr == "update":
                    if not isinstance(a[0], (bytes, bytearray)):
                        raise Unknown("hash update with a non-bytes value")
                    obj.h.update(a[0])
                    return None
                if attr == "copy":
                    return HashV(obj.h.copy())
                return getattr(obj.h, attr)()
            return PyFn("hash." + attr, hm)
        if isinstance(obj, Deque) and attr in ("appendleft", "popleft", "extendleft"):
            def dq(a, k, obj=obj, attr=attr):
                if attr == "appendleft":
                    obj.insert(0, a[0])
                elif attr == "extendleft":
                    for x in self.iterate(a[0]):
                        obj.insert(0, x)
                else:
                    if not obj:
                        raise PyRaise("IndexError", node)
                    return obj.pop(0)
            return PyFn("deque." + attr, dq)
        if isinstance(obj, ISet):
            if attr in ("add", "update", "discard", "remove", "copy", "union", "intersection", "difference", "issubset", "isdisjoint",
                        "pop", "clear", "issuperset"):
                return T("iset", obj, attr)
            raise Unknown(f"set method {attr}")
        if isinstance(obj, T) and obj[0] == "builtin" and obj[1] in ("str", "list", "dict", "tuple", "bytes", "set", "frozenset"):
            # unbound method of a builtin type (map(str.rstrip, xs), sorted(key=str.lower))
            def unbound(a, k, attr=attr):
                if not a:
                    raise PyRaise("TypeError", node)
                return self.dispatch_marker(self.getattr(a[0], attr, fi, node), list(a[1:]), dict(k), node)
            return PyFn(f"{obj[1]}.{attr}", unbound)
        if isinstance(obj, BoundFunc) and attr in ("__name__", "__qualname__"):
            return obj.fi.name
        if isinstance(obj, Closure) and attr in getattr(obj, "attrs", {}):
            return obj.attrs[attr]
        if isinstance(obj, Closure) and attr == "__name__":
            return getattr(obj.node, "name", "<lambda>")
        if isinstance(obj, slice):
            if attr in ("start", "stop", "step"):
                return getattr(obj, attr)
            if attr == "indices":
                def ind(a, k, obj=obj):
                    if len(a) != 1 or not isinstance(a[0], int):
                        raise Unknown("slice.indices of a non-integer")
                    return obj.indices(int(a[0]))
                return PyFn("slice.indices", ind)
        t = type(obj)
        if self.hook and t not in SAFE_METHODS:
            r = self.hook(self, "getattr", obj, attr, None, node, fi)
            if r is not NotImplemented:
                return r
        if t in SAFE_METHODS and attr in SAFE_METHODS[t]:
            return T("native", obj, attr)
        if attr in ("__add__", "__radd__", "__sub__", "__rsub__", "__mul__", "__rmul__", "__floordiv__", "__mod__", "__or__", "__and__") and \
                (self.plain(obj) or isinstance(obj, Lin)) and not isinstance(obj, dict):
            op2 = {"add": ast.Add, "sub": ast.Sub, "mul": ast.Mult, "floordiv": ast.FloorDiv, "mod": ast.Mod, "or": ast.BitOr, "and": ast.BitAnd}[attr.strip("_").lstrip("r") if attr.startswith("__r") and attr not in ("__rshift__",) else attr.strip("_")]()
            refl = attr.startswith("__r") and attr != "__rshift__"
            return PyFn(attr, lambda a, k, obj=obj, op2=op2, refl=refl: self.binop(op2, a[0], obj, node) if refl else self.binop(op2, obj, a[0], node))
        if attr in ("__eq__", "__ne__", "__lt__", "__le__", "__gt__", "__ge__") and (self.plain(obj) or isinstance(obj, (list, tuple, dict))):
            op_ = {"__eq__": ast.Eq, "__ne__": ast.NotEq, "__lt__": ast.Lt, "__le__": ast.LtE, "__gt__": ast.Gt, "__ge__": ast.GtE}[attr]()
            return PyFn(attr, lambda a, k, obj=obj, op_=op_: self.compare(op_, obj, a[0]))
        if isinstance(obj, (list, tuple, dict, str)) and attr in ("__getitem__", "__contains__", "__len__"):
            if attr == "__getitem__":
                return PyFn("__getitem__", lambda a, k, obj=obj: self.ev(
                    ast.Subscript(value=ast.Name(id="__o", ctx=ast.Load()), slice=ast.Name(id="__k", ctx=ast.Load()), ctx=ast.Load()), {"__o": obj, "__k": a[0]}, fi))
            if attr == "__contains__":
                return PyFn("__contains__", lambda a, k, obj=obj: self.contains(obj, a[0]))
            return PyFn("__len__", lambda a, k, obj=obj: len(obj))
        if (obj is None or t in (int, float, bool, str, bytes, list, dict, tuple, set)) and not hasattr(t, attr):
            raise PyRaise("AttributeError", node)        # e.g. None.items(), "text".keys(): the program's error, not the model's
        raise Unknown(f"attribute {attr} of {t.__name__}")

    @staticmethod
    def module_anchor(mm, default):
        """a function of module mm in whose context a module-level expression of mm is evaluated (names resolve as in mm)"""
        f0 = next(iter(mm.functions.values()), None)
        if f0 is None:
            f0 = next((m for c in mm.classes.values() for m in c.methods.values()), None)
        return f0 if f0 is not None else default

    def global_name(self, name, fi: FuncInfo):
        o = fi.outer
        m = fi.module
        if name in m.assigns:
            # a module-level name is one object for the whole evaluation (sentinels, registries, compiled patterns)
            cache = self.__dict__.setdefault("_globals", {})
            key = (m.name, name)
            if key not in cache:
                cache[key] = self.ev(m.assigns[name], {}, fi)
            return cache[key]
        if name in m.functions:
            dv = self.__dict__.get("_globals", {}).get((m.name, name))
            return dv if dv is not None else BoundFunc(m.functions[name])
        if name in m.classes:
            return T("class", m.classes[name])
        if name in m.imports:
            tgt = self.prj._resolve_import(m.imports[name])
            from .core import ClassInfo, Module
            if isinstance(tgt, FuncInfo):
                dv = self.__dict__.get("_globals", {}).get((tgt.module.name, tgt.name)) if tgt.cls is None and tgt.outer is None else None
                return dv if dv is not None else BoundFunc(tgt)
            if isinstance(tgt, ClassInfo):
                return T("class", tgt)
            if isinstance(tgt, Module):
                return T("module", tgt)
            if isinstance(tgt, tuple) and tgt[0] == "modattr":
                mm = tgt[1]
                f0 = self.module_anchor(mm, fi)
                cache = self.__dict__.setdefault("_globals", {})
                key = (mm.name, tgt[2])
                if key not in cache:
                    cache[key] = self.ev(mm.assigns[tgt[2]], {}, f0)
                return cache[key]
            if isinstance(tgt, tuple) and tgt[0] == "external":
                if ":" in tgt[1] or "." in tgt[1]:
                    # `from math import inf`, `from os import sep`: a constant of a library module is the value it names
                    mod_, _, attr_ = tgt[1].rpartition(":" if ":" in tgt[1] else ".")
                    v = self.getattr(T("external", mod_), attr_, fi, None)
                    if not isinstance(v, T):
                        return v
                return T("external", tgt[1])
        if name in ("True", "False", "None"):
            return {"True": True, "False": False, "None": None}[name]
        if name == "NotImplemented":
            return NOTIMPL
        return T("builtin", name)

    def ev_call(self, n: ast.Call, env, fi):
        f = self.ev(n.func, env, fi)
        args = []
        for a in n.args:
            if isinstance(a, ast.Starred):
                args.extend(self.iterate(self.ev(a.value, env, fi)))
            else:
                args.append(self.ev(a, env, fi))
        kwargs = {}
        for k in n.keywords:
            if k.arg is None:
                d = self.ev(k.value, env, fi)
                if isinstance(d, Sym) and d.cls is not None and d.cls.find_method("keys") is None:
                    raise PyRaise("TypeError", n)       # argument after ** must be a mapping
                if not isinstance(d, dict) or not all(isinstance(x, str) for x in d):
                    raise Unknown("** of a non-dictionary")
                kwargs.update(d)
            else:
                kwargs[k.arg] = self.ev(k.value, env, fi)
        if isinstance(f, Sym) and f.parent is not None:
            f.parent[0].fields.pop(f.parent[1], None)
            f = T("method", f.parent[0], f.parent[1])
        if isinstance(f, T) and f and f[0] == "external" and f[1].replace(":", ".") in PURE_LIBRARY and not kwargs \
                and all(self.plain(a) for a in args):
            # a pure function of the standard library on plain values: the library's own result
            mod_, _, fn_ = f[1].replace(":", ".").rpartition(".")
            import importlib
            try:
                return getattr(importlib.import_module(mod_), fn_)(*args)
            except (TypeError, ValueError, KeyError, IndexError, OverflowError) as e:
                raise PyRaise(type(e).__name__, n)
        if self.hook:
            r = self.hook(self, "call", f, args, kwargs, n, fi)
            if r is not NotImplemented:
                return r
        if isinstance(f, tuple):
            return self.dispatch_marker(f, args, kwargs, n, env, fi)
        r = self.call_callable(f, args, kwargs)
        if r is not NotImplemented:
            return r
        raise Unknown(f"call of {type(f).__name__}")

    def dispatch_marker(self, f, args, kwargs, n, env=None, fi=None):
        env = env if env is not None else {}
        if isinstance(f, tuple) and f and f[0] == "iset":
            return self.iset_method(f[1], f[2], args, n)
        if isinstance(f, tuple) and f and f[0] == "native":
            _, obj, attr = f
            if isinstance(obj, str) and attr in ("format", "format_map"):
                return self.format_str(obj, args if attr == "format" else [], kwargs if attr == "format" else (args[0] if args else {}), n)
            if isinstance(obj, DefaultDict) and attr in ("most_common", "total", "elements"):
                if attr == "total":
                    return sum(obj.values())
                if attr == "elements":
                    return _Iter([k for k, v in obj.items() for _ in range(max(v, 0))])
                items = sorted(obj.items(), key=lambda kv: -kv[1])
                return items[:args[0]] if args and args[0] is not None else items
            if isinstance(obj, list) and attr == "sort":
                obj[:] = self.builtin("sorted", [list(obj)], dict(kwargs), n)
                return None
            if isinstance(obj, (list, tuple)) and attr in ("index", "count", "remove") and args and any(isinstance(x, Sym) for x in list(obj) + args[:1]):
                hits = [i for i, x in enumerate(obj) if self.equal(x, args[0])]
                if attr == "count":
                    return len(hits)
                if not hits:
                    raise PyRaise("ValueError", n)
                if attr == "index":
                    return hits[0]
                del obj[hits[0]]
                return None
            if attr in ("join", "extend", "update", "fromkeys"):
                args = [a.rest() if isinstance(a, (_Iter, LazyIter)) else list(self.iterate(a)) if isinstance(a, ISet)
                        else list(self.iterate(a)) if isinstance(a, Sym) and not isinstance(obj, dict) else a for a in args]
            try:
                if isinstance(obj, dict) and attr in ("get", "pop", "setdefault") and args:
                    args = [self.key(args[0])] + args[1:]
                if isinstance(obj, set) and attr in ("add", "discard", "remove") and args:
                    args = [self.key(args[0])]
                r = getattr(obj, attr)(*args, **kwargs)
                if attr in ("items", "keys", "values"):
                    return list(r)
                return r
            except TypeError as e:
                # most often the model (a symbolic value handed to a native method), not the program
                raise Unknown(f"native {type(obj).__name__}.{attr}: {e}")
            except (KeyError, IndexError, ValueError) as e:
                raise PyRaise(EXC_OF.get(type(e), "Exception"), n)
            except (Unknown, PyRaise):
                raise
            except Exception as e:
                raise Unknown(f"native {type(obj).__name__}.{attr}: {type(e).__name__}: {e}")
        if isinstance(f, tuple) and f and f[0] == "builtin":
            if f[1] == "super" and not args and fi is not None and fi.cls is not None and "self" in env:
                return T("super", env["self"], fi.cls)
            return self.builtin(f[1], args, kwargs, n)
        if isinstance(f, tuple) and f and f[0] == "external":
            base = f[1].replace(":", ".").split(".")[-1]
            if base in ("bisect", "bisect_left", "bisect_right", "insort", "insort_left", "insort_right") and f[1].replace(":", ".").split(".")[0] == "bisect":
                seq, x = args[0], args[1]
                if not isinstance(seq, (list, tuple)) or (base.startswith("insort") and not isinstance(seq, list)):
                    raise Unknown("bisect on a non-list")
                keyf = kwargs.get("key")
                lo = kwargs.get("lo", args[2] if len(args) > 2 else 0)
                hi = kwargs.get("hi", args[3] if len(args) > 3 else None)
                hi = len(seq) if hi is None else hi
                insert = base.startswith("insort")
                kx = self.apply2(keyf, [x], {}) if (keyf is not None and insert) else x
                left = base.endswith("_left")
                while lo < hi:
                    self.tick()
                    mid = (lo + hi) // 2
                    km = self.apply2(keyf, [seq[mid]], {}) if keyf is not None else seq[mid]
                    go_right = self.compare(ast.Lt(), km, kx) if left else not self.compare(ast.Lt(), kx, km)
                    if go_right:
                        lo = mid + 1
                    else:
                        hi = mid
                if insert:
                    seq.insert(lo, x)
                    return None
                return lo
            if base == "deepcopy" and len(args) == 1:
                return self.deepcopy(args[0])
            mod = f[1].replace(":", ".").split(".")[0]
            full = f[1].replace(":", ".")
            r = self.stdlib(full, base, args, kwargs, n)
            if r is not NotImplemented:
                return r
            if mod == "hashlib" and base in ("md5", "sha1", "sha256", "blake2b"):
                import hashlib as _hl
                h = HashV(getattr(_hl, base)())
                if args:
                    if not isinstance(args[0], (bytes, bytearray)):
                        raise Unknown("hash of a non-bytes value")
                    h.h.update(args[0])
                return h
            if mod == "json" and base in ("dumps", "loads"):
                import json as _json

                def plain(v):
                    if isinstance(v, (str, int, float, bool)) or v is None:
                        return v
                    if isinstance(v, (list, tuple)):
                        return [plain(x) for x in v]
                    if isinstance(v, dict):
                        return {plain(k): plain(x) for k, x in v.items()}
                    raise Unknown(f"json.{base} of a symbolic value")
                try:
                    return getattr(_json, base)(plain(args[0]), **{k: plain(v) for k, v in kwargs.items()})
                except (ValueError, TypeError) as e:
                    raise PyRaise(type(e).__name__ if type(e).__name__ != "JSONDecodeError" else "ValueError", n)
            if mod == "re" and base in ("compile", "match", "search", "fullmatch", "sub", "findall", "escape") and \
                    all(isinstance(a, (str, int, _re.Pattern)) for a in args) and all(isinstance(v, (str, int)) for v in kwargs.values()):
                try:
                    return getattr(_re, base)(*args, **kwargs)
                except _re.error:
                    raise PyRaise("error", n)
            raise Unknown(f"external call {f[1]}")
        if isinstance(f, tuple) and f and f[0] == "class":
            return self.construct(f[1], args, kwargs, n, fi)
        if isinstance(f, tuple) and f and f[0] == "method":
            cands = [m for m in self.prj.methods_named(f[2])]
            if len(cands) == 1 and f[1].cls is None:
                return self.call(self.prj.func(cands[0].qual, raw=True), args, kwargs, f[1])
            raise Unknown(f"method {f[2]} of {f[1]}")
        raise Unknown(f"call of marker {f[0]}")

    def stdlib(self, full, base, args, kwargs, node):
        """operator / functools / itertools / collections helpers, interpreted"""
        mod = full.split(".")[0]
        if full in ("dataclasses.astuple", "dataclasses.asdict", "dataclasses.replace", "dataclasses.fields") and args and isinstance(args[0], Sym) \
                and args[0].cls is not None and args[0].cls.dataclass_fields() is not None and not args[0].cls.is_namedtuple():
            names = [n_ for n_, _ in args[0].cls.dataclass_fields()]

            def deep(v, as_dict):
                if isinstance(v, Sym) and v.cls is not None and v.cls.dataclass_fields() is not None and not v.cls.is_namedtuple() and any(c.is_dataclass() for c in v.cls.mro()):
                    ns = [n_ for n_, _ in v.cls.dataclass_fields()]
                    return {n_: deep(v.fields[n_], True) for n_ in ns} if as_dict else tuple(deep(v.fields[n_], False) for n_ in ns)
                if type(v) in (list, tuple):
                    return type(v)(deep(x, as_dict) for x in v)
                if type(v) is dict:
                    return {k: deep(x, as_dict) for k, x in v.items()}
                return v
            if base == "astuple":
                return deep(args[0], False)
            if base == "asdict":
                return deep(args[0], True)
            if base == "replace":
                if any(k not in names for k in kwargs):
                    raise PyRaise("TypeError", node)
                return self.construct(args[0].cls, [], {n_: kwargs.get(n_, args[0].fields[n_]) for n_ in names}, node, self.prj.func(next(iter(self.prj.funcs))))
            if base == "fields":
                return tuple(Sym("field", name=n_) for n_ in names)
        if full == "dataclasses.field" and not args:
            extra = set(kwargs) - {"default", "default_factory", "init", "repr", "compare", "hash", "kw_only", "metadata"}
            if extra:
                raise Unknown(f"dataclasses.field({', '.join(sorted(extra))})")
            return T("dcfield", kwargs.get("default", T("missing")), kwargs.get("default_factory"), kwargs.get("init", True))
        if mod == "operator":
            if base == "attrgetter" and args and all(isinstance(a, str) for a in args):
                def get(obj, path):
                    for part in path.split("."):
                        obj = self.getattr(obj, part, None, node)
                    return obj
                names = list(args)
                return PyFn("attrgetter", lambda a, k: get(a[0], names[0]) if len(names) == 1 else tuple(get(a[0], x) for x in names))
            if base == "itemgetter" and args:
                keys = list(args)

                def item(obj, key):
                    # the interpreter's own subscript semantics (named tuples, instances with __getitem__, dictionaries ...)
                    return self.ev(ast.Subscript(value=ast.Name(id="__o", ctx=ast.Load()), slice=ast.Name(id="__k", ctx=ast.Load()), ctx=ast.Load()),
                                   {"__o": obj, "__k": key}, None)
                return PyFn("itemgetter", lambda a, k: item(a[0], keys[0]) if len(keys) == 1 else tuple(item(a[0], x) for x in keys))
            if base == "methodcaller" and args and isinstance(args[0], str):
                mname, margs, mkw = args[0], list(args[1:]), dict(kwargs)

                def callm(a, k):
                    fm = self.getattr(a[0], mname, None, node)
                    if isinstance(fm, Sym) and fm.parent is not None:
                        fm = T("method", fm.parent[0], fm.parent[1])
                    r = NotImplemented
                    if self.hook:
                        r = self.hook(self, "call", fm, margs, mkw, node, None)
                    return r if r is not NotImplemented else self.apply2(fm, margs, mkw)
                return PyFn("methodcaller", callm)
            ops = {"add": ast.Add, "sub": ast.Sub, "mul": ast.Mult, "floordiv": ast.FloorDiv, "mod": ast.Mod, "truediv": ast.Div}
            if base in ops and len(args) == 2:
                return self.binop(ops[base](), args[0], args[1], node)
            cmps = {"lt": ast.Lt, "le": ast.LtE, "gt": ast.Gt, "ge": ast.GtE, "eq": ast.Eq, "ne": ast.NotEq, "contains": None}
            if base in cmps and len(args) == 2:
                if base == "contains":
                    return self.contains(args[0], args[1])
                return self.compare(cmps[base](), args[0], args[1])
            if base in ("not_", "truth") and len(args) == 1:
                return (not self.truth(args[0])) if base == "not_" else self.truth(args[0])
            if base == "neg" and len(args) == 1:
                return self.binop(ast.Sub(), 0, args[0], node)
            arith = {"add": ast.Add, "sub": ast.Sub, "mul": ast.Mult, "floordiv": ast.FloorDiv, "mod": ast.Mod, "truediv": ast.Div,
                     "or_": ast.BitOr, "and_": ast.BitAnd, "iadd": ast.Add, "isub": ast.Sub, "concat": ast.Add}
            if base in arith and len(args) == 2:
                return self.binop(arith[base](), args[0], args[1], node)
            if base in ("is_", "is_not") and len(args) == 2:
                return self.compare(ast.Is() if base == "is_" else ast.IsNot(), args[0], args[1])
            if base == "getitem" and len(args) == 2:
                return self.ev(ast.Subscript(value=ast.Name(id="__o", ctx=ast.Load()), slice=ast.Name(id="__k", ctx=ast.Load()), ctx=ast.Load()),
                               {"__o": args[0], "__k": args[1]}, None)
            if base == "index" and len(args) == 1 and isinstance(args[0], int):
                return args[0]
        if mod == "functools":
            if base == "partial" and args:
                f0, a0, k0 = args[0], list(args[1:]), dict(kwargs)
                return PyFn("partial", lambda a, k: self.apply2(f0, a0 + list(a), {**k0, **k}))
            if base == "partialmethod" and args:
                return T("partialmethod", args[0], tuple(args[1:]), tuple(sorted(kwargs.items())))
            if base == "reduce" and len(args) >= 2:
                xs = self.iterate(args[1])
                if len(args) > 2:
                    acc = args[2]
                elif xs:
                    acc, xs = xs[0], xs[1:]
                else:
                    raise PyRaise("TypeError", node)
                for x in xs:
                    self.tick()
                    acc = self.apply2(args[0], [acc, x], {})
                return acc
        if mod == "itertools":
            if base == "chain":
                return LazyIter((x for a in args for x in self.pull(a)))
            if full.endswith("chain.from_iterable") or base == "from_iterable":
                return LazyIter((x for a in self.pull(args[0]) for x in self.pull(a)))
            if base == "takewhile" and len(args) == 2:
                import itertools as _it
                fn0 = args[0]
                return LazyIter(_it.takewhile(lambda x: self.truth(self.apply2(fn0, [x], {})), self.pull(args[1])))
            if base == "dropwhile" and len(args) == 2:
                import itertools as _it
                fn0 = args[0]
                return LazyIter(_it.dropwhile(lambda x: self.truth(self.apply2(fn0, [x], {})), self.pull(args[1])))
            if base == "accumulate" and args:
                fn = args[1] if len(args) > 1 else kwargs.get("func")
                init = kwargs.get("initial")

                def acc_gen(src=args[0], fn=fn, init=init):
                    have, cur = False, None
                    if init is not None:
                        have, cur = True, init
                        yield cur
                    for x in self.pull(src):
                        self.tick()
                        if not have:
                            have, cur = True, x
                        else:
                            cur = self.apply2(fn, [cur, x], {}) if fn is not None else self.binop(ast.Add(), cur, x, node)
                        yield cur
                return LazyIter(acc_gen())
            if base == "starmap" and len(args) == 2:
                fn0 = args[0]
                return LazyIter((self.apply2(fn0, list(self.iterate(t)), {}) for t in self.pull(args[1])))
            if base == "islice" and len(args) >= 2:
                import itertools as _it
                return LazyIter(_it.islice(self.pull(args[0]), *args[1:]))
            if base == "repeat" and len(args) == 2:
                return _Iter([args[0]] * args[1])
            if base == "repeat" and len(args) == 1:
                import itertools as _it
                return LazyIter(_it.repeat(args[0]))
            if base == "zip_longest":
                xs = [self.iterate(a) for a in args]
                n = max((len(x) for x in xs), default=0)
                fill = kwargs.get("fillvalue")
                return _Iter([tuple(x[i] if i < len(x) else fill for x in xs) for i in range(n)])
            if base == "groupby" and args:
                keyf = args[1] if len(args) > 1 else kwargs.get("key")
                groups = []
                for x in self.iterate(args[0]):
                    k = self.apply(keyf, [x]) if keyf is not None else x
                    if groups and self.equal(groups[-1][0], k):
                        groups[-1][1].append(x)
                    else:
                        groups.append((k, [x]))
                return _Iter([(k, _Iter(g)) for k, g in groups])
            if base == "compress" and len(args) == 2:
                return LazyIter((x for x, sel in zip(self.pull(args[0]), self.pull(args[1])) if self.truth(sel)))
            if base == "filterfalse" and len(args) == 2:
                fn0 = args[0]
                return LazyIter((x for x in self.pull(args[1]) if not self.truth(x if fn0 is None else self.apply(fn0, [x]))))
            if base == "count":
                import itertools as _it
                start = args[0] if args else kwargs.get("start", 0)
                step = args[1] if len(args) > 1 else kwargs.get("step", 1)
                if not all(isinstance(v, (int, float)) for v in (start, step)):
                    raise Unknown("itertools.count of symbolic numbers")
                return LazyIter(_it.count(start, step))
            if base == "product":
                import itertools as _it
                cols = [self.iterate(a) for a in args] * int(kwargs.get("repeat", 1))
                return _Iter([tuple(c) for c in _it.product(*cols)])
            if base in ("permutations", "combinations") and args:
                import itertools as _it
                return _Iter([tuple(c) for c in getattr(_it, base)(self.iterate(args[0]), *args[1:])])
            if base == "tee" and args:
                xs = self.iterate(args[0])
                return tuple(_Iter(list(xs)) for _ in range(args[1] if len(args) > 1 else 2))
            if base == "pairwise" and len(args) == 1:
                import itertools as _it
                return LazyIter(_it.pairwise(self.pull(args[0])))
        if mod == "heapq" and base in ("nlargest", "nsmallest") and len(args) >= 2:
            keyf = kwargs.get("key", args[2] if len(args) > 2 else None)
            xs = self.builtin("sorted", [self.iterate(args[1])], {"key": keyf, "reverse": base == "nlargest"} if keyf is not None else {"reverse": base == "nlargest"}, node)
            return list(xs)[:args[0]]
        if mod == "collections" and base == "deque":
            return Deque(self.iterate(args[0]) if args else [])
        if mod == "collections" and base == "defaultdict":
            d = DefaultDict()
            d.factory = args[0] if args else None
            if len(args) > 1:
                src = args[1]
                for k, v in (src.items() if isinstance(src, dict) else [tuple(self.iterate(x)) for x in self.iterate(src)]):
                    d[self.key(k)] = v
            for k, v in kwargs.items():
                d[k] = v
            return d
        if mod == "collections" and base == "Counter":
            d = DefaultDict()
            d.counter = True
            if args:
                src = args[0]
                if isinstance(src, dict):
                    for k, v in src.items():
                        d[k] = v
                else:
                    for x in self.iterate(src):
                        k = self.key(x)
                        try:
                            d[k] = d.get(k, 0) + 1
                        except TypeError:
                            raise Unknown("Counter of unhashable symbolic values")
            return d
        if mod == "collections" and base == "OrderedDict":
            d = {}
            if args:
                src = args[0]
                for k, v in (src.items() if isinstance(src, dict) else [tuple(self.iterate(x)) for x in self.iterate(src)]):
                    d[self.key(k)] = v
            d.update(kwargs)
            return d
        return NotImplemented

    def apply2(self, f, args, kwargs):
        r = NotImplemented
        if self.hook:
            r = self.hook(self, "call", f, list(args), dict(kwargs), None, None)
        if r is NotImplemented:
            r = self.call_callable(f, list(args), dict(kwargs))
        if r is NotImplemented:
            raise Unknown("callable")
        return r

    def format_str(self, fmt: str, args, kwargs, node):
        """str.format with the field look-ups (attributes, indices) done by the interpreter"""
        import string
        out, auto = [], 0
        for lit, field, spec, conv in string.Formatter().parse(fmt):
            out.append(lit)
            if field is None:
                continue
            import re as _r
            m = _r.match(r"^([^.\[]*)(.*)$", field)
            head, rest = m.group(1), m.group(2)
            if head == "":
                v = args[auto] if auto < len(args) else None
                if auto >= len(args):
                    raise PyRaise("IndexError", node)
                auto += 1
            elif head.isdigit():
                if int(head) >= len(args):
                    raise PyRaise("IndexError", node)
                v = args[int(head)]
            else:
                if head not in kwargs:
                    raise PyRaise("KeyError", node)
                v = kwargs[head]
            for acc in _r.findall(r"\.[^.\[]+|\[[^\]]+\]", rest):
                if acc.startswith("."):
                    v = self.getattr(v, acc[1:], None, node)
                else:
                    k = acc[1:-1]
                    k = int(k) if k.lstrip("-").isdigit() else k
                    try:
                        v = v[k]
                    except (KeyError, IndexError) as e:
                        raise PyRaise(type(e).__name__, node)
                    except TypeError:
                        raise Unknown("index in a format field on this value")
            if spec and "{" in spec:
                spec = self.format_str(spec, args, kwargs, node)
            if isinstance(v, (Sym, Lin)) or (isinstance(v, tuple) and isinstance(v, T)):
                if self.hook:
                    r = self.hook(self, "call", T("builtin", "str"), [v], {}, node, None)
                    if isinstance(r, str):
                        v = r
                if not isinstance(v, str):
                    raise Unknown("symbolic value in str.format")
            if conv == "r":
                v = repr(v)
            elif conv == "s":
                v = str(v)
            try:
                out.append(format(v, spec or ""))
            except (ValueError, TypeError):
                raise PyRaise("ValueError", node)
        return "".join(out)

    def iset_method(self, st: ISet, name, args, node):
        if name == "add":
            if not self.contains(st, args[0]):
                st.xs.append(args[0])
            return None
        if name == "update":
            for a in args:
                for x in self.iterate(a):
                    if not self.contains(st, x):
                        st.xs.append(x)
            return None
        if name in ("discard", "remove"):
            hits = [i for i, x in enumerate(st.xs) if self.equal(x, args[0])]
            if not hits:
                if name == "remove":
                    raise PyRaise("KeyError", node)
                return None
            del st.xs[hits[0]]
            return None
        if name == "copy":
            return self.mkset(st.xs)
        if name == "union":
            return self.mkset(list(st.xs) + [x for a in args for x in self.iterate(a)])
        if name == "intersection":
            others = [self.iterate(a) for a in args]
            return self.mkset([x for x in st.xs if all(any(self.equal(x, y) for y in o) for o in others)])
        if name == "difference":
            others = [y for a in args for y in self.iterate(a)]
            return self.mkset([x for x in st.xs if not any(self.equal(x, y) for y in others)])
        if name == "issubset":
            o = self.iterate(args[0])
            return all(any(self.equal(x, y) for y in o) for x in st.xs)
        if name == "issuperset":
            return all(self.contains(st, y) for y in self.iterate(args[0]))
        if name == "isdisjoint":
            o = self.iterate(args[0])
            return not any(any(self.equal(x, y) for y in o) for x in st.xs)
        if name == "pop":
            if not st.xs:
                raise PyRaise("KeyError", node)
            return st.xs.pop()
        if name == "clear":
            st.xs.clear()
            return None
        raise Unknown(f"set method {name}")

    def isinstance_(self, v, c) -> bool:
        if isinstance(c, tuple) and c and c[0] == "builtin":
            ty = {"list": list, "tuple": tuple, "dict": dict, "str": str, "int": int, "bool": bool, "float": float}.get(c[1])
            if c[1] in ("set", "frozenset"):
                return isinstance(v, ISet)
            if ty is None:
                raise Unknown(f"isinstance(_, {c[1]})")
            if isinstance(v, (Sym, Lin)):
                return False
            if ty is int and isinstance(v, bool):
                return True
            return isinstance(v, ty)
        if isinstance(c, tuple) and c and c[0] == "class":
            return isinstance(v, (Sym, SymDict, EnumInt)) and v.cls is not None and v.cls.is_subclass_of(c[1])
        if isinstance(c, tuple) and c and c[0] == "external":
            if isinstance(v, Sym):
                return False if v.cls is not None else (_ for _ in ()).throw(Unknown("isinstance of an open term"))
            base = c[1].replace(":", ".").split(".")[-1]
            if base in ("Iterable", "Sequence", "Collection"):
                return isinstance(v, (list, tuple, dict, str, ISet, _Iter, LazyIter))
            return False
        if isinstance(c, tuple):
            return any(self.isinstance_(v, x) for x in c)
        raise Unknown("isinstance with this class argument")

    def deepcopy(self, v, memo=None):
        memo = memo if memo is not None else {}
        if id(v) in memo:
            return memo[id(v)]
        if isinstance(v, Sym):
            c = Sym(v.name, _open=v.open, _cls=v.cls)
            memo[id(v)] = c
            for k, x in v.fields.items():
                c.fields[k] = self.deepcopy(x, memo)
            if getattr(v, "tuple_order", None):
                c.tuple_order = list(v.tuple_order)
            return c
        if isinstance(v, list):
            c = []
            memo[id(v)] = c
            c.extend(self.deepcopy(x, memo) for x in v)
            return c
        if isinstance(v, tuple):
            return tuple(self.deepcopy(x, memo) for x in v)
        if isinstance(v, dict):
            c = {}
            memo[id(v)] = c
            for k, x in v.items():
                c[self.deepcopy(k, memo) if not isinstance(k, Sym) else k] = self.deepcopy(x, memo)
            return c
        if isinstance(v, ISet):
            c = ISet()
            memo[id(v)] = c
            c.xs = [self.deepcopy(x, memo) for x in v.xs]
            return c
        return v

    def construct(self, ci, args, kwargs, node, fi):
        ms = self.enum_members(ci)
        if ms is not None:
            if len(args) != 1:
                raise Unknown(f"enum {ci.name} called with {len(args)} arguments")
            for nm, val in ms:
                if (isinstance(val, Sym) and self.equal(val.fields.get("value"), args[0])) or (not isinstance(val, Sym) and val == args[0]):
                    return val
            raise PyRaise("ValueError", node)
        ext = ci.external_bases()
        if "dict" in ext or "OrderedDict" in ext:
            obj = SymDict(ci)
            init = ci.find_method("__init__")
            if init is not None:
                self.call(self.prj.func(init.qual, raw=True), args, kwargs, obj)
            elif args or kwargs:
                src = args[0] if args else {}
                for k, v in (src.items() if isinstance(src, dict) else [tuple(self.iterate(x)) for x in self.iterate(src)]):
                    obj[self.key(k)] = v
                obj.update(kwargs)
            return obj
        obj = Sym(ci.name + "()", _cls=ci)
        init = ci.find_method("__init__")
        if init is not None:
            self.call(self.prj.func(init.qual, raw=True), args, kwargs, obj)
            return obj
        fields = ci.dataclass_fields() if hasattr(ci, "dataclass_fields") else None
        if fields is None:
            if args or kwargs:
                raise Unknown(f"construction of {ci.name}")
            return obj
        names = [f for f, _ in fields]
        if any(c.is_namedtuple() for c in ci.mro()):
            obj.tuple_order = names
        # defaults are evaluated in the class body, once; dataclasses.field(...) gives default / default_factory / init
        store = self.__dict__.setdefault("_defaults", {})
        spec = {}
        for nm, default in fields:
            if default is None:
                continue
            dk = (ci.qual, nm)
            if dk not in store:
                anchor = next(iter(ci.methods.values()), None) or fi
                store[dk] = self.ev(default, {}, self.prj.func(anchor.qual, raw=True) if hasattr(anchor, "qual") and anchor.qual in self.prj.funcs else anchor)
            spec[nm] = store[dk]
        init_names = [nm for nm in names if not (isinstance(spec.get(nm), T) and spec[nm][0] == "dcfield" and not spec[nm][3])]
        if len(args) > len(init_names):
            raise Unknown(f"too many arguments for {ci.name}")
        for nm, a in zip(init_names, args):
            obj.fields[nm] = a
        for k, v in kwargs.items():
            if k not in init_names:
                raise PyRaise("TypeError", node)
            obj.fields[k] = v
        for nm, default in fields:
            if nm not in obj.fields:
                if default is None:
                    raise Unknown(f"missing field {nm} of {ci.name}")
                d = spec[nm]
                if isinstance(d, T) and d[0] == "dcfield":
                    if not (isinstance(d[1], T) and d[1][0] == "missing"):
                        d = d[1]
                    elif d[2] is not None:
                        d = self.apply2(d[2], [], {})
                    else:
                        raise Unknown(f"missing field {nm} of {ci.name}")
                obj.fields[nm] = d
        post = ci.find_method("__post_init__")
        if post is not None:
            self.call(self.prj.func(post.qual, raw=True), [], {}, obj)
        return obj

    def model_hash(self, v, node=None, depth=0):
        """hash(v) in a model where the hash is injective on values: T("hash", canonical form).  Equal canonical forms are equal
        values (equal real hashes); different canonical forms stand for different real hashes (collisions are not modelled)."""
        if depth > 8:
            raise Unknown("hash of a deeply nested value")
        if isinstance(v, Sym) and v.cls is not None:
            m = v.cls.find_method("__hash__")
            if m is not None:
                r = self.call(self.prj.func(m.qual, raw=True), [], {}, v)
                if isinstance(r, T) and r and r[0] in ("hash", "id"):
                    return r
                if isinstance(r, int) and not isinstance(r, bool):
                    return T("hash", ("int", r))
                raise Unknown(f"__hash__ of {v.cls.name} returns {r!r}")
            if v.cls.find_method("__eq__") is not None and not v.cls.is_dataclass():
                raise PyRaise("TypeError", node)
            return T("hash", ("obj", v.uid))
        if isinstance(v, Sym):
            return T("hash", ("obj", v.uid))
        if isinstance(v, T):
            if v and v[0] in ("hash", "id"):
                return T("hash", ("int",) + tuple(v))
            return T("hash", ("marker",) + tuple(x if isinstance(x, (str, int)) else getattr(x, "qual", repr(x)) for x in v))
        if isinstance(v, bool) or v is None or isinstance(v, (int, float, str, bytes)):
            return T("hash", ("val", v))
        if type(v) is tuple:
            return T("hash", ("tuple",) + tuple(self.model_hash(x, node, depth + 1) for x in v))
        if isinstance(v, (list, dict, set, ISet)) and not isinstance(v, frozenset):
            raise PyRaise("TypeError", node)
        if isinstance(v, EnumInt):
            return T("hash", ("val", int(v)))
        raise Unknown(f"hash of {type(v).__name__}")

    def pull(self, v):
        """a Python generator that takes elements of v one at a time (iterators and generators are not drained in advance)"""
        if isinstance(v, LazyIter):
            return v.lazy()
        if isinstance(v, _Iter):
            return v.pull()
        return iter(self.iterate(v))

    def class_namespace(self, c, before=None) -> dict:
        """names visible in the body of class c: its functions (plain functions there) and the class attributes evaluated so far;
        with `before` (an expression of the class body), only what the body has bound above that line (the body runs top to bottom)"""
        line = getattr(before, "lineno", None)
        env = {nm: BoundFunc(m, None) for nm, m in c.methods.items() if line is None or m.node.lineno < line}
        if line is not None:
            # class attributes bound above that line exist by then (the body runs top to bottom): evaluate them now, in order
            for nm, expr in sorted(c.class_attrs.items(), key=lambda kv: getattr(kv[1], "lineno", 0)):
                if expr is not None and getattr(expr, "lineno", line) < line and (c.qual, nm) not in self.class_state:
                    f0 = next(iter(c.methods.values()), None) or self.module_anchor(c.module, None)
                    if f0 is not None:
                        self.class_state[(c.qual, nm)] = self.ev(expr, self.class_namespace(c, expr), self.prj.func(f0.qual, raw=True))
        for (q, nm), v in self.class_state.items():
            if q == c.qual:
                env[nm] = v
        return env

    def type_of(self, v):
        """the class of a value as a value of the interpreter"""
        if isinstance(v, (Sym, SymDict, EnumInt)) and getattr(v, "cls", None) is not None:
            return T("class", v.cls)
        if isinstance(v, PygT) or (isinstance(v, T) and as_pygt(v) is not None):
            return T("external", "pygments.token._TokenType")
        if isinstance(v, bool):
            return T("builtin", "bool")
        for ty in (int, float, str, bytes, list, tuple, dict):
            if type(v) is ty or (ty is dict and isinstance(v, dict) and not isinstance(v, SymDict)) or (ty is list and type(v) is Deque and False):
                return T("builtin", ty.__name__)
        if v is None:
            return T("builtin", "NoneType")
        if isinstance(v, ISet) or isinstance(v, (set, frozenset)):
            return T("builtin", "set")
        if isinstance(v, LazyIter):
            return T("external", "types.GeneratorType")
        if isinstance(v, _Iter):
            return T("external", "builtins.iterator")
        if isinstance(v, (BoundFunc, Closure, PyFn)):
            return T("external", "types.FunctionType" if not (isinstance(v, BoundFunc) and v.self_obj is not None) else "types.MethodType")
        raise Unknown(f"type of {type(v).__name__}")

    def has_attr(self, obj, name: str) -> bool:
        if isinstance(obj, Sym):
            if name in obj.fields:
                return True
            if obj.cls is not None:
                if obj.cls.find_method(name) is not None:
                    return True
                if any(name in c.class_attrs or (c.qual, name) in self.class_state for c in obj.cls.mro()):
                    return True
                if obj.cls.external_bases() or obj.open:
                    raise Unknown(f"hasattr({obj}, {name!r})")
                return False
            raise Unknown(f"hasattr({obj}, {name!r})")
        if isinstance(obj, T) and obj[0] == "class":
            ci = obj[1]
            return ci.find_method(name) is not None or any(name in c.class_attrs or (c.qual, name) in self.class_state for c in ci.mro()) \
                or any(nm == name for nm, _ in (self.enum_members(ci) or []))
        if obj is None or type(obj) in (int, float, bool, str, bytes, list, dict, tuple):
            return hasattr(obj, name)
        raise Unknown(f"hasattr on {type(obj).__name__}")

    def builtin(self, name, args, kwargs, node):
        try:
            if name in ("getattr", "hasattr") and len(args) >= 2 and isinstance(args[1], str) and not kwargs:
                if name == "hasattr" and len(args) == 2:
                    return self.has_attr(args[0], args[1])
                if name == "getattr" and len(args) in (2, 3):
                    obj = args[0]
                    known = True
                    if len(args) == 3 or (isinstance(obj, Sym) and obj.cls is not None and not obj.open):
                        try:
                            known = self.has_attr(obj, args[1])
                        except Unknown:
                            known = True
                    if not known:
                        if len(args) == 3:
                            return args[2]
                        raise PyRaise("AttributeError", node)
                    r = self.getattr(obj, args[1], None, node)
                    if isinstance(r, Sym) and r.parent is not None:
                        r.parent[0].fields.pop(r.parent[1], None)
                        r = T("method", r.parent[0], r.parent[1])
                    return r
            if name == "setattr" and len(args) == 3 and isinstance(args[1], str) and isinstance(args[0], Sym):
                args[0].fields[args[1]] = args[2]
                return None
            if name == "type" and len(args) == 1 and not kwargs:
                return self.type_of(args[0])
            if name == "format" and 1 <= len(args) <= 2 and not kwargs:
                spec_ = args[1] if len(args) > 1 else ""
                if not isinstance(spec_, str):
                    raise Unknown("format() with a symbolic specification")
                v_ = args[0]
                if isinstance(v_, Sym) and v_.cls is not None:
                    m_ = v_.cls.find_method("__format__")
                    if m_ is not None:
                        return self.call(self.prj.func(m_.qual, raw=True), [spec_], {}, v_)
                    if spec_ == "":
                        return self.builtin("str", [v_], {}, node)
                    raise PyRaise("TypeError", node)
                if self.plain(v_):
                    try:
                        return format(v_, spec_)
                    except (ValueError, TypeError) as e:
                        raise PyRaise(type(e).__name__, node)
                raise Unknown("format() of a symbolic value")
            if name == "slice" and 1 <= len(args) <= 3 and not kwargs:
                if not all(a is None or (isinstance(a, int) and not isinstance(a, bool)) for a in args):
                    raise Unknown("slice of non-integer bounds")
                return slice(*[None if a is None else int(a) for a in args])
            if name == "len":
                a0 = args[0]
                if isinstance(a0, T) and a0 and a0[0] == "class":
                    ml = self.class_protocol(a0, "__len__")
                    if ml is not None:
                        return self.call(ml, [], {}, a0)
                if isinstance(a0, (Sym, SymDict)) and getattr(a0, "cls", None) is not None:
                    lm = a0.cls.find_method("__len__")
                    if lm is not None:
                        return self.call(self.prj.func(lm.qual, raw=True), [], {}, a0)
                    if isinstance(a0, Sym) and getattr(a0, "tuple_order", None):
                        return len(a0.tuple_order)
                    if isinstance(a0, Sym) and not a0.open and not a0.cls.external_bases():
                        raise PyRaise("TypeError", node)
                if isinstance(a0, (_Iter, LazyIter)):
                    raise PyRaise("TypeError", node)       # iterators have no len()
                if isinstance(args[0], T):
                    return len(self.iterate(args[0]))
                if isinstance(args[0], ISet):
                    return len(args[0].xs)
                return len(args[0]) if not isinstance(args[0], _Iter) else len(args[0].rest())
            if name == "range":
                return range(*args)
            if name == "enumerate":
                start = args[1] if len(args) > 1 else kwargs.get("start", 0)
                return LazyIter(((i + start, x) for i, x in enumerate(self.pull(args[0]))))
            if name == "zip":
                if kwargs.get("strict"):
                    cols = [self.iterate(a) for a in args]
                    if len({len(c) for c in cols}) > 1:
                        raise PyRaise("ValueError", node)
                    return _Iter(list(zip(*cols)))
                return LazyIter(zip(*[self.pull(a) for a in args]))
            if name in ("any", "all") and len(args) == 1 and isinstance(args[0], (LazyIter, _Iter)):
                # short-circuit: elements behind the deciding one are never produced
                for x in self.pull(args[0]):
                    self.tick()
                    if self.truth(x) == (name == "any"):
                        if isinstance(args[0], LazyIter):
                            args[0].close()
                        return name == "any"
                return name == "all"
            if name in ("min", "max", "sum", "any", "all", "abs", "int", "bool", "str", "float", "round", "divmod"):
                a2 = [self.iterate(a) if isinstance(a, (_Iter, LazyIter)) else a for a in args]
                if name in ("any", "all"):
                    return {"any": any, "all": all}[name](self.truth(x) for x in self.iterate(a2[0]))
                if name in ("min", "max") and "key" in kwargs and kwargs["key"] is not None:
                    xs = self.iterate(a2[0]) if len(a2) == 1 else list(a2)
                    if not xs:
                        if "default" in kwargs:
                            return kwargs["default"]
                        raise PyRaise("ValueError", node)
                    keyed = [(self.apply(kwargs["key"], [x]), x) for x in xs]
                    best = keyed[0]
                    for kx in keyed[1:]:
                        if (name == "min" and self.compare(ast.Lt(), kx[0], best[0])) or (name == "max" and self.compare(ast.Gt(), kx[0], best[0])):
                            best = kx
                    return best[1]
                if name == "sum" and a2 and isinstance(a2[0], (list, tuple)) and \
                        any(isinstance(x, Sym) and x.cls is not None and not isinstance(x, Lin) for x in list(a2[0]) + a2[1:]):
                    # objects with their own + (or reflected +): the fold Python performs, start + x0 + x1 ...
                    acc = a2[1] if len(a2) > 1 else kwargs.get("start", 0)
                    for x in a2[0]:
                        acc = self.binop(ast.Add(), acc, x, node)
                    return acc
                if name == "sum" and a2 and isinstance(a2[0], (list, tuple)) and any(isinstance(x, (Sym, Lin)) for x in list(a2[0]) + a2[1:]):
                    acc = Lin.of(a2[1] if len(a2) > 1 else kwargs.get("start", 0))
                    for x in a2[0]:
                        acc = acc.add(Lin.of(x))
                    return acc.simplify()
                if name == "bool":
                    return self.truth(a2[0]) if a2 else False
                if name == "str" and a2 and as_pygt(a2[0]) is not None and not isinstance(a2[0], str):
                    return repr(as_pygt(a2[0]))
                if name in ("str", "repr") and a2 and isinstance(a2[0], Sym) and a2[0].cls is not None:
                    for mn in (("__str__", "__repr__") if name == "str" else ("__repr__",)):
                        m_ = a2[0].cls.find_method(mn)
                        if m_ is not None:
                            r_ = self.call(self.prj.func(m_.qual, raw=True), [], {}, a2[0])
                            if isinstance(r_, str):
                                return r_
                            break
                if name == "str" and a2 and isinstance(a2[0], (Sym, Lin)):
                    return Sym("fstring", parts=[a2[0]])
                if any(isinstance(x, (Sym, Lin)) for a in a2 for x in (a if isinstance(a, (list, tuple)) else [a])):
                    raise Unknown(f"builtin {name} on symbolic terms")
                return {"min": min, "max": max, "sum": sum, "abs": abs, "int": int, "bool": bool, "str": str, "float": float,
                        "round": round, "divmod": divmod}[name](*a2, **kwargs)
            if name in ("list", "tuple"):
                v = self.iterate(args[0]) if args else []
                return list(v) if name == "list" else tuple(v)
            if name in ("set", "frozenset"):
                return self.mkset(self.iterate(args[0]) if args else [])
            if name == "dict":
                if args and not isinstance(args[0], dict):
                    return {self.key(k): v for k, v in (tuple(self.iterate(p)) for p in self.iterate(args[0]))} | dict(kwargs)
                return (dict(args[0]) | dict(kwargs)) if args else dict(kwargs)
            if name == "sorted":
                xs = self.iterate(args[0])
                keyf = kwargs.get("key")
                rev = bool(kwargs.get("reverse", False))
                keys = list(xs) if keyf is None else [self.apply(keyf, [x]) for x in xs]
                if all(self.plain(k) for k in keys):
                    try:
                        order = sorted(range(len(xs)), key=lambda i: keys[i], reverse=rev)
                    except TypeError:
                        raise PyRaise("TypeError", node)
                    return [xs[i] for i in order]
                # keys that are objects: Python's sort asks only `<` of them (stable; reverse keeps the order of equal elements)
                import functools as _ft

                def cmp(i, j):
                    if self.compare(ast.Lt(), keys[i], keys[j]):
                        return -1
                    if self.compare(ast.Lt(), keys[j], keys[i]):
                        return 1
                    return 0
                idx = list(range(len(xs)))
                if rev:
                    idx.reverse()
                idx.sort(key=_ft.cmp_to_key(cmp))
                if rev:
                    idx.reverse()
                return [xs[i] for i in idx]
            if name == "reversed":
                return _Iter(list(reversed(self.iterate(args[0]))))
            if name == "filter":
                fn0 = args[0]
                return LazyIter((x for x in self.pull(args[1]) if self.truth(x if fn0 is None else self.apply(fn0, [x]))))
            if name == "map" and len(args) >= 2:
                fn0 = args[0]
                return LazyIter((self.apply(fn0, list(xs)) for xs in zip(*[self.pull(a) for a in args[1:]])))
            if name == "iter" and len(args) == 2:
                out = []
                while True:
                    self.tick()
                    v = self.apply(args[0], [])
                    if self.equal(v, args[1]):
                        break
                    out.append(v)
                return _Iter(out)
            if name == "iter" and len(args) == 1 and isinstance(args[0], (LazyIter, _Iter)):
                return args[0]
            if name == "iter":
                return _Iter(self.iterate(args[0]))
            if name in ("any", "all") and len(args) == 1 and isinstance(args[0], LazyIter):
                for x in args[0].lazy():
                    self.tick()
                    if self.truth(x) == (name == "any"):
                        args[0].close()
                        return name == "any"
                return name == "all"
            if name == "next":
                it = args[0]
                if isinstance(it, LazyIter):
                    END = object()
                    r = next(it.lazy(), END)
                    if r is END:
                        if len(args) > 1:
                            return args[1]
                        raise PyRaise("StopIteration", node)
                    return r
                if isinstance(it, _Iter):
                    r = it.next()
                    if r is _Iter.END:
                        if len(args) > 1:
                            return args[1]
                        raise PyRaise("StopIteration", node)
                    return r
                raise Unknown("next() of a non-iterator")
            if name == "id":
                return T("id", args[0].uid) if isinstance(args[0], Sym) else T("id", id(args[0]))
            if name == "hash" and len(args) == 1:
                return self.model_hash(args[0], node)
            if name == "object" and not args:
                return Sym("object()")
            if name == "super" and not args:
                raise Unknown("super() outside a method")
            if name == "getattr" and len(args) >= 2 and isinstance(args[1], str):
                try:
                    return self.getattr(args[0], args[1], None, node)
                except Unknown:
                    if len(args) > 2:
                        return args[2]
                    raise
            if name == "isinstance" and len(args) == 2:
                return self.isinstance_(args[0], args[1])
            if name == "print":
                return None
        except (TypeError, ValueError) as e:
            raise Unknown(f"builtin {name}: {e}")
        raise Unknown(f"builtin {name}")

    def call_callable(self, f, args, kwargs):
        if isinstance(f, PyFn):
            return f.fn(args, kwargs)
        if isinstance(f, (Sym, SymDict)) and getattr(f, "cls", None) is not None:
            cm = f.cls.find_method("__call__")
            if cm is not None:
                return self.call(self.prj.func(cm.qual, raw=True), list(args), dict(kwargs), f)
        if isinstance(f, T) and f[0] in ("builtin", "external", "native", "iset", "class", "method"):
            # a marker used as a first-class callable (sorted(key=len), map(str, ...), filter(Token.is_name, ...))
            fake = ast.Call(func=ast.Name(id="_", ctx=ast.Load()), args=[], keywords=[])
            return self.dispatch_marker(f, list(args), dict(kwargs), fake)
        if isinstance(f, BoundFunc):
            if f.self_obj is None and f.fi.is_method() and not f.fi.is_static() and not f.fi.is_classmethod() and args:
                # a plain function of a class body called with the instance as first argument (Class.method(obj, ...))
                return self.call(self.prj.func(f.fi.qual, raw=True), list(args[1:]), kwargs, args[0])
            return self.call(self.prj.func(f.fi.qual, raw=True), args, kwargs, f.self_obj)
        if isinstance(f, Closure):
            if isinstance(f.node, ast.Lambda):
                e2 = dict(f.env)
                ps = [x.arg for x in f.node.args.posonlyargs + f.node.args.args]
                for p, a in zip(ps, args):
                    e2[p] = a
                if f.node.args.vararg is not None:
                    e2[f.node.args.vararg.arg] = tuple(args[len(ps):])
                elif len(args) > len(ps):
                    raise PyRaise("TypeError", f.node)
                if f.node.args.kwarg is not None or f.node.args.kwonlyargs:
                    raise Unknown("lambda with keyword-only or ** parameters")
                for i, d in enumerate(reversed(f.node.args.defaults)):
                    pn = ps[len(ps) - 1 - i]
                    if pn not in e2 or len(args) <= ps.index(pn):
                        if pn not in kwargs and len(args) <= ps.index(pn):
                            e2[pn] = self.ev(d, f.env, f.fi)
                e2.update(kwargs)
                return self.ev(f.node.body, e2, f.fi)
            sub = f.fi.nested.get(f.node.name) or f.fi
            e2 = dict(f.env)
            nl = {nm: f.env for st_ in ast.walk(f.node) if isinstance(st_, ast.Nonlocal) for nm in st_.names}
            if nl:
                e2["__nonlocal__"] = nl
            else:
                e2.pop("__nonlocal__", None)
            aa = f.node.args
            ps = [x.arg for x in aa.posonlyargs + aa.args]
            defaults = dict(zip(ps[len(ps) - len(aa.defaults):], aa.defaults))
            for x, d in zip(aa.kwonlyargs, aa.kw_defaults):
                ps.append(x.arg)
                if d is not None:
                    defaults[x.arg] = d
            bound = set()
            npos = len(aa.posonlyargs + aa.args)
            for p, a in zip(ps[:npos], args):
                e2[p] = a
                bound.add(p)
            if aa.vararg is not None:
                e2[aa.vararg.arg] = tuple(args[npos:])
            elif len(args) > npos:
                raise PyRaise("TypeError", f.node)
            extra_kw = {}
            for k, v in kwargs.items():
                if k in ps:
                    e2[k] = v
                    bound.add(k)
                elif aa.kwarg is not None:
                    extra_kw[k] = v
                else:
                    raise PyRaise("TypeError", f.node)
            if aa.kwarg is not None:
                e2[aa.kwarg.arg] = extra_kw
            for p in ps:
                if p not in bound:
                    if p in defaults:
                        e2[p] = self.ev(defaults[p], f.env, f.fi)
                    else:
                        raise Unknown(f"missing argument {p}")
            is_gen = _is_generator(f.node)
            if is_gen:
                def body(sink, e2=e2, f=f, sub=sub):
                    e2["__yield__"] = sink
                    try:
                        self.block(f.node.body, e2, sub)
                    except _Ret:
                        pass
                g, close = thread_generator(body)
                return LazyIter(g, close)
            try:
                self.block(f.node.body, e2, sub)
            except _Ret as r:
                return r.v
            return None
        return NotImplemented

    def apply(self, f, args):
        return self.apply2(f, args, {})


def _is_generator(fn_node) -> bool:
    """does the function's own body (not a nested def / lambda / class) contain a yield?"""
    todo = list(fn_node.body)
    while todo:
        n = todo.pop()
        if isinstance(n, (ast.Yield, ast.YieldFrom)):
            return True
        if isinstance(n, (ast.FunctionDef, ast.AsyncFunctionDef, ast.Lambda, ast.ClassDef)):
            continue
        todo.extend(ast.iter_child_nodes(n))
    return False


def _live_list(lst):
    """iteration over a list as Python does it: by position in the live list (elements removed or added meanwhile shift what comes next)"""
    i = 0
    while i < len(lst):
        yield lst[i]
        i += 1


class CtxGen:
    """the context manager a @contextmanager generator function returns: entering runs it to its yield, leaving runs the rest"""

    def __init__(self, lazy):
        self.lazy = lazy


class LazyIter:
    """an iterator whose next element is computed when asked for (os.walk: the consumer prunes the yielded list; generator
    functions of the project: the body runs only as far as the consumer pulls)"""

    def __init__(self, gen, close=None):
        self.gen = gen
        self._close = close

    def lazy(self):
        return self.gen

    def rest(self):
        return list(self.gen)

    def close(self):
        if self._close is not None:
            self._close()


class _GenClose(BaseException):
    pass


class _YieldSink:
    """what `yield` writes to inside a lazily evaluated generator body: hands the value to the consumer and waits"""

    def __init__(self, put):
        self.put = put

    def append(self, v):
        self.put(v)

    def extend(self, vs):
        for v in vs:
            self.put(v)


def thread_generator(body):
    """-> (python generator, close): `body(sink)` is run on a helper thread, one step per next() of the consumer.  Exactly one
    of the two threads runs at any time (hand-over by semaphores), so the interpreter's state is never used concurrently."""
    import threading
    state = {"value": None, "done": False, "exc": None, "closed": False, "started": False}
    to_gen, to_consumer = threading.Semaphore(0), threading.Semaphore(0)

    def put(v):
        state["value"] = v
        to_consumer.release()
        to_gen.acquire()
        if state["closed"]:
            raise _GenClose()

    def target():
        to_gen.acquire()
        try:
            if not state["closed"]:
                body(_YieldSink(put))
        except _GenClose:
            pass
        except BaseException as e:      # handed to the consumer
            state["exc"] = e
        state["done"] = True
        to_consumer.release()

    th = threading.Thread(target=target, daemon=True)

    def close():
        if state["done"] or state["closed"]:
            return
        state["closed"] = True
        import sys as _sys
        if _sys.is_finalizing():
            return              # at interpreter exit the helper threads no longer run: nothing to wait for
        if not state["started"]:
            state["started"] = True
            th.start()
        to_gen.release()
        # the helper thread unwinds (its pending `finally` blocks run) before the consumer goes on; never wait for ever (two minutes: a busy machine is not a deadlock)
        to_consumer.acquire(timeout=120)

    def gen():
        try:
            while True:
                if state["done"] or state["closed"]:
                    return
                if not state["started"]:
                    state["started"] = True
                    th.start()
                to_gen.release()
                to_consumer.acquire()
                if state["done"]:
                    if state["exc"] is not None:
                        raise state["exc"]
                    return
                yield state["value"]
        finally:
            # the consumer dropped the generator before it was exhausted (or closed it): the helper thread is released
            if state["started"] and not state["done"] and not state["closed"]:
                close()
    return gen(), close


class _Iter:
    END = object()

    def __init__(self, xs):
        self.xs, self.i = list(xs), 0

    def next(self):
        if self.i >= len(self.xs):
            return _Iter.END
        self.i += 1
        return self.xs[self.i - 1]

    def rest(self):
        r = self.xs[self.i:]
        self.i = len(self.xs)
        return r

    def pull(self):
        while self.i < len(self.xs):
            self.i += 1
            yield self.xs[self.i - 1]


def _as_load(t):
    import copy
    t = copy.deepcopy(t)
    t.ctx = ast.Load()
    return t


def const_call(prj: Project, fi: FuncInfo, call: ast.Call, argvals: list):
    """Value of a call of a project function on constant arguments, or raises Unknown."""
    tg, kind = prj.resolve_call(fi, call)
    if kind != "direct" or len(tg) != 1:
        raise Unknown("callee not resolved")
    it = MiniInterp(prj, max_steps=20000)
    v = it.call(prj.func(tg[0].qual), argvals, {})
    if isinstance(v, (int, bool, str, tuple, type(None))):
        return v
    raise Unknown("non-constant result")


def make_token(it: "MiniInterp", prj: Project, kind: str, value: str, line: int = 1, column: int = 1):
    """an instance of the repo's Token (built by interpreting its constructor) with a pygments type of the given kind"""
    tc = prj.cls("codelimit.common.Token:Token")
    lc = prj.cls("codelimit.common.Location:Location")
    anchor = prj.func(tc.find_method("__init__").qual) if tc.find_method("__init__") else next(iter(prj.funcs.values()))
    loc = it.construct(lc, [line, column], {}, None, anchor)
    return it.construct(tc, [loc, PygT(kind), value], {}, None, anchor)
