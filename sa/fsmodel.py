"""A model of the file system, pathlib and os.path for the abstract interpreter: paths are values (`PathV`) over a virtual
tree; os.walk is lazy and honours in-place pruning of the yielded directory list; nothing touches the real disk."""
from __future__ import annotations

import posixpath

from .absint import LazyIter, PyRaise, Sym, Unknown


class PathV:
    def __init__(self, s: str):
        # as pathlib does: repeated separators and '.' components are dropped ('..' is kept), a trailing separator too
        absolute = s.startswith("/")
        parts = [x for x in s.split("/") if x not in ("", ".")]
        self.s = ("/" if absolute else "") + "/".join(parts) or ("/" if absolute else ".")

    def __repr__(self):
        return f"PathV({self.s!r})"


class FileV:
    """an open file of the virtual tree"""

    def __init__(self, path: str, mode: str, encoding, errors):
        self.path, self.mode, self.encoding, self.errors = path, mode, encoding, errors
        self.pos = 0


TOTAL_ENCODINGS = {"latin-1", "latin1", "iso-8859-1", "iso8859-1", "l1", "cp437", "cp850", "cp1252-replace"}


class VFS:
    def __init__(self, tree: dict, cwd: str):
        """tree: absolute directory -> (subdirectory names, file names)"""
        self.tree = tree
        self.cwd = cwd
        self.texts: dict = {}
        self.undecodable: set = set()      # absolute paths whose bytes are not valid UTF-8
        self.read_log: list = []
        self.bytes: dict = {}              # absolute path -> bytes content (binary reads)

    def read(self, f: "FileV", node=None):
        a = self.abs(f.path)
        if not self.is_file(a):
            raise PyRaise("FileNotFoundError", node)
        if "b" in f.mode:
            data = self.bytes.get(a, b"bytes:" + a.encode())
            n = getattr(f, "want", None)
            if n is None or n < 0:
                out, f.pos = data[f.pos:], len(data)
            else:
                out, f.pos = data[f.pos:f.pos + n], min(len(data), f.pos + n)
            return out
        self.read_log.append(a)
        enc = (f.encoding or "utf-8").lower().replace("_", "-")
        strict = f.errors in (None, "strict")
        if a in self.undecodable and strict and enc not in TOTAL_ENCODINGS:
            raise PyRaise("UnicodeDecodeError", node)
        return self.texts.get(a, "text of " + a)

    def abs(self, s: str) -> str:
        return posixpath.normpath(s if s.startswith("/") else posixpath.join(self.cwd, s))

    # ---- modifications (every one is appended to self.ops: the history a crash can cut short)
    def _ops(self):
        return self.__dict__.setdefault("ops", [])

    def write(self, path: str, data, mode: str = "w", node=None):
        a = self.abs(path)
        d, n = posixpath.split(a)
        if a in self.tree:
            raise PyRaise("IsADirectoryError", node)
        if d not in self.tree:
            raise PyRaise("FileNotFoundError", node)
        if "x" in mode and n in self.tree[d][1]:
            raise PyRaise("FileExistsError", node)
        if not isinstance(data, (str, bytes)):
            raise Unknown(f"write of a symbolic value to {a}")
        if n not in self.tree[d][1]:
            self.tree[d] = (self.tree[d][0], list(self.tree[d][1]) + [n])
        store = self.bytes if isinstance(data, bytes) else self.texts
        empty = "" if isinstance(data, str) else b""
        if "+" in mode and "w" not in mode and "a" not in mode:
            # written over the existing content from position `pos` on, without truncation (os.open without O_TRUNC, mode 'r+')
            cur = store.get(a, empty)
            pos = int(mode.split("@")[1]) if "@" in mode else 0
            store[a] = cur[:pos] + data + cur[pos + len(data):]
            self._ops().append(("overwrite", a, pos, data))
            return
        old = store.get(a, empty) if "a" in mode else empty
        store[a] = old + data
        self._ops().append(("write", a, mode, data))

    def mkdir(self, path: str, parents=False, exist_ok=False, node=None):
        a = self.abs(path)
        d, n = posixpath.split(a)
        if a in self.tree or self.is_file(a):
            if exist_ok and a in self.tree:
                return
            raise PyRaise("FileExistsError", node)
        if d not in self.tree:
            if not parents:
                raise PyRaise("FileNotFoundError", node)
            self.mkdir(d, True, True, node)
        self.tree[d] = (list(self.tree[d][0]) + [n], self.tree[d][1])
        self.tree[a] = ([], [])
        self._ops().append(("mkdir", a))

    def remove(self, path: str, missing_ok=False, node=None):
        a = self.abs(path)
        d, n = posixpath.split(a)
        if not self.is_file(a):
            if missing_ok:
                return
            raise PyRaise("IsADirectoryError" if a in self.tree else "FileNotFoundError", node)
        self.tree[d] = (self.tree[d][0], [x for x in self.tree[d][1] if x != n])
        self.texts.pop(a, None)
        self.bytes.pop(a, None)
        self._ops().append(("remove", a))

    def rename(self, src: str, dst: str, node=None):
        a, b = self.abs(src), self.abs(dst)
        if not self.is_file(a):
            raise PyRaise("FileNotFoundError", node) if a not in self.tree else Unknown("rename of a directory")
        bd, bn = posixpath.split(b)
        if b in self.tree:
            raise PyRaise("IsADirectoryError", node)
        if bd not in self.tree:
            raise PyRaise("FileNotFoundError", node)
        ad, an = posixpath.split(a)
        text, data = self.texts.pop(a, None), self.bytes.pop(a, None)
        self.tree[ad] = (self.tree[ad][0], [x for x in self.tree[ad][1] if x != an])
        if bn not in self.tree[bd][1]:
            self.tree[bd] = (self.tree[bd][0], list(self.tree[bd][1]) + [bn])
        self.texts.pop(b, None)
        self.bytes.pop(b, None)
        if text is not None:
            self.texts[b] = text
        if data is not None:
            self.bytes[b] = data
        self._ops().append(("rename", a, b))

    def is_dir(self, s):
        return self.abs(s) in self.tree

    def is_file(self, s):
        a = self.abs(s)
        d, n = posixpath.split(a)
        return d in self.tree and n in self.tree[d][1]

    def walk(self, top: str):
        def gen(d):
            if d not in self.tree:
                return
            dirs, files = list(self.tree[d][0]), list(self.tree[d][1])
            yield (d, dirs, files)
            for sub in list(dirs):          # read AFTER the consumer had its turn: in-place pruning is honoured
                yield from gen(posixpath.join(d, sub))
        return LazyIter(gen(self.abs(top)))


_CURRENT = [None]       # the interpreter on whose behalf the hook is running (for os.PathLike objects of the project)


def sval(x):
    if isinstance(x, PathV):
        return x.s
    if isinstance(x, str):
        return x
    it = _CURRENT[0]
    if it is not None and isinstance(x, Sym) and x.cls is not None:
        m = x.cls.find_method("__fspath__")
        if m is not None:
            return sval(it.call(it.prj.func(m.qual, raw=True), [], {}, x))
    raise Unknown(f"path argument {x!r}")


def fs_hook(vfs: VFS):
    """hook fragment: pathlib.Path, os.path.*, os.walk on the virtual tree"""
    PATH_METHODS = {"is_relative_to", "samefile", "open", "absolute", "resolve", "relative_to", "joinpath", "is_file", "is_dir", "exists", "is_absolute", "read_text", "read_bytes",
                    "as_posix", "__str__", "__fspath__", "with_suffix", "expanduser", "write_text", "write_bytes", "mkdir", "touch", "unlink", "rename", "replace",
                    "with_name", "with_stem"}
    PATH_ATTRS = {"name", "suffix", "parent", "parents", "parts", "stem"}

    def path_attr(p: PathV, attr):
        s = p.s
        if attr == "name":
            return posixpath.basename(s)
        if attr == "suffix":
            return posixpath.splitext(s)[1]
        if attr == "stem":
            return posixpath.splitext(posixpath.basename(s))[0]
        if attr == "parent":
            return PathV(posixpath.dirname(s) or ".")
        if attr == "parts":
            return tuple(x for x in s.split("/") if x) if not s.startswith("/") else ("/",) + tuple(x for x in s.split("/") if x)
        if attr == "parents":
            out, cur = [], s
            while True:
                nxt = posixpath.dirname(cur)
                if nxt == cur or not nxt:
                    if not s.startswith("/") and cur not in (".", ""):
                        out.append(PathV("."))
                    break
                out.append(PathV(nxt))
                cur = nxt
            return out
        raise Unknown(f"Path.{attr}")

    def path_method(it, p: PathV, name, args, kwargs, node):
        s = p.s
        if name in ("absolute", "resolve"):
            return PathV(vfs.abs(s))
        if name == "expanduser":
            return p
        if name == "is_absolute":
            return s.startswith("/")
        if name == "relative_to":
            o = sval(args[0])
            if s == o:
                return PathV(".")
            if (s.startswith("/") != o.startswith("/")) or not (s + "/").startswith(o.rstrip("/") + "/"):
                raise PyRaise("ValueError", node)
            return PathV(s[len(o.rstrip("/")) + 1:])
        if name == "is_relative_to":
            o = sval(args[0])
            return s == o or ((s.startswith("/") == o.startswith("/")) and (s + "/").startswith(o.rstrip("/") + "/"))
        if name == "samefile":
            return vfs.abs(s) == vfs.abs(sval(args[0]))
        if name == "joinpath":
            return PathV(posixpath.join(s, *[sval(a) for a in args]))
        if name == "is_file":
            return vfs.is_file(s)
        if name == "is_dir":
            return vfs.is_dir(s)
        if name == "exists":
            return vfs.is_file(s) or vfs.is_dir(s)
        if name in ("read_text", "read_bytes"):
            return vfs.read(FileV(s, "rb" if name == "read_bytes" else "r", kwargs.get("encoding", args[0] if args else None), kwargs.get("errors")), node)
        if name == "open":
            mode = args[0] if args else kwargs.get("mode", "r")
            fv = FileV(s, mode, kwargs.get("encoding"), kwargs.get("errors"))
            if "w" in mode or "x" in mode:
                vfs.write(s, b"" if "b" in mode else "", "x" if "x" in mode else "w", node)
                fv.written = True
            return fv
        if name in ("as_posix", "__str__", "__fspath__"):
            return s
        if name == "with_suffix":
            return PathV(posixpath.splitext(s)[0] + sval(args[0]))
        if name == "with_name":
            return PathV(posixpath.join(posixpath.dirname(s), sval(args[0])))
        if name == "with_stem":
            return PathV(posixpath.join(posixpath.dirname(s), sval(args[0]) + posixpath.splitext(s)[1]))
        if name in ("write_text", "write_bytes"):
            data = args[0] if args else kwargs.get("data")
            if name == "write_text" and not isinstance(data, str) or name == "write_bytes" and not isinstance(data, bytes):
                if isinstance(data, (str, bytes)):
                    raise PyRaise("TypeError", node)
                raise Unknown(f"Path.{name} of a symbolic value")
            vfs.write(s, data, "w", node)
            return len(data)
        if name == "mkdir":
            vfs.mkdir(s, bool(kwargs.get("parents", False)), bool(kwargs.get("exist_ok", False)), node)
            return None
        if name == "touch":
            if vfs.is_file(s):
                if kwargs.get("exist_ok", True) is False:
                    raise PyRaise("FileExistsError", node)
                return None
            vfs.write(s, "", "w", node)
            return None
        if name == "unlink":
            vfs.remove(s, bool(kwargs.get("missing_ok", args[0] if args else False)), node)
            return None
        if name in ("rename", "replace"):
            vfs.rename(s, sval(args[0]), node)
            return PathV(sval(args[0]))
        raise Unknown(f"Path.{name}")

    def hook(it, kind, f, args, kwargs, node, cur):
        _CURRENT[0] = it
        if kind == "getattr" and isinstance(f, FileV):
            if args in ("read", "readlines", "close", "__enter__", "__exit__", "readline", "write", "flush", "writelines"):
                return ("filem", f, args)
            if args == "name":
                return f.path
            raise Unknown(f"file.{args}")
        if kind == "call" and isinstance(f, tuple) and f and f[0] == "filem":
            if f[2] == "read":
                f[1].want = args[0] if args else kwargs.get("size")
                return vfs.read(f[1], node)
            if f[2] == "readlines":
                r = vfs.read(f[1], node)
                return r.splitlines(True)
            if f[2] == "__enter__":
                return f[1]
            if f[2] in ("write", "writelines"):
                data = args[0] if f[2] == "write" else "".join(args[0])
                if not any(c in f[1].mode for c in "wax+"):
                    raise PyRaise("UnsupportedOperation", node)
                if getattr(f[1], "notrunc", False):
                    vfs.write(f[1].path, data, f"r+@{f[1].pos}", node)
                    f[1].pos += len(data)
                    return len(data)
                first = not getattr(f[1], "written", False)
                vfs.write(f[1].path, data, ("w" if first and "a" not in f[1].mode else "a"), node)
                f[1].written = True
                return len(data)
            return None
        if kind == "call" and f == ("builtin", "open"):
            mode = args[1] if len(args) > 1 else kwargs.get("mode", "r")
            fv = FileV(sval(args[0]), mode, kwargs.get("encoding"), kwargs.get("errors"))
            if "w" in mode or "x" in mode:
                vfs.write(fv.path, b"" if "b" in mode else "", "x" if "x" in mode else "w", node)     # opening truncates / creates
                fv.written = True
            return fv
        if kind == "getattr" and isinstance(f, PathV):
            attr = args
            if attr in PATH_ATTRS:
                return path_attr(f, attr)
            if attr in PATH_METHODS:
                return ("pathm", f, attr)
            raise Unknown(f"Path.{attr}")
        if kind == "binop_div" and (isinstance(f, PathV) or isinstance(args, PathV)):
            return PathV(posixpath.join(sval(f), sval(args)))
        if kind != "call":
            return NotImplemented
        if isinstance(f, tuple) and f and f[0] == "pathm":
            return path_method(it, f[1], f[2], args, kwargs, node)
        if isinstance(f, tuple) and f and f[0] == "external" and args and isinstance(args[0], PathV):
            # the unbound form Path.write_text(p, text), Path.exists(p) ...: the method of the path handed first
            nm_ = f[1].replace(":", ".").split(".")
            if len(nm_) >= 2 and nm_[-2] in ("Path", "PurePath", "PosixPath", "PurePosixPath") and nm_[-1] in PATH_METHODS:
                return path_method(it, args[0], nm_[-1], list(args[1:]), kwargs, node)
        if isinstance(f, tuple) and f and f[0] == "external":
            name = f[1].replace(":", ".")
            base = name.split(".")[-1]
            if name.endswith("pathlib.Path") or name == "pathlib.Path" or base == "Path" and "pathlib" in name:
                return PathV(posixpath.join(*[sval(a) for a in args]) if args else ".")
            if name.endswith("Path.cwd"):
                return PathV(vfs.cwd)
            if name in ("os.walk",):
                return vfs.walk(sval(args[0]))
            if name in ("os.path.join",):
                return posixpath.join(*[sval(a) for a in args])
            if name in ("os.path.relpath",) or name.endswith("posixpath.relpath") or base == "relpath":
                return posixpath.relpath(vfs.abs(sval(args[0])), vfs.abs(sval(args[1])) if len(args) > 1 else vfs.cwd)
            if name in ("os.path.abspath", "os.path.realpath") or base in ("abspath", "realpath"):
                return vfs.abs(sval(args[0]))
            if name in ("os.path.basename",) or base == "basename":
                return posixpath.basename(sval(args[0]))
            if name in ("os.path.dirname",) or base == "dirname":
                return posixpath.dirname(sval(args[0]))
            if name in ("os.path.isfile",) or base == "isfile":
                return vfs.is_file(sval(args[0]))
            if name in ("os.path.isdir",) or base == "isdir":
                return vfs.is_dir(sval(args[0]))
            if name in ("os.path.exists",):
                return vfs.is_file(sval(args[0])) or vfs.is_dir(sval(args[0]))
            if name in ("os.path.splitext",) or base == "splitext":
                return posixpath.splitext(sval(args[0]))
            if name in ("os.getcwd",):
                return vfs.cwd
            if (name.startswith("os.path.") or name.startswith("posixpath.")) and base in ("commonprefix", "commonpath", "normpath", "split", "isabs", "normcase", "splitdrive"):
                # pure string functions of os.path: the library's own (POSIX) implementation on the plain values
                def plainv(a):
                    if isinstance(a, (list, tuple)):
                        return [plainv(x) for x in a]
                    if isinstance(a, (str, PathV)):
                        return sval(a)
                    raise Unknown(f"os.path.{base} of a symbolic value")
                try:
                    return getattr(posixpath, base)(*[plainv(a) for a in args])
                except ValueError:
                    raise PyRaise("ValueError", node)
            if name in ("os.fspath",):
                return sval(args[0])
            if name == "os.open":
                flags = args[1] if len(args) > 1 else kwargs.get("flags", 0)
                if not isinstance(flags, int):
                    raise Unknown("os.open with symbolic flags")
                import os as _os
                pth = sval(args[0])
                exists = vfs.is_file(pth)
                if flags & _os.O_EXCL and flags & _os.O_CREAT and exists:
                    raise PyRaise("FileExistsError", node)
                if not exists and not flags & _os.O_CREAT:
                    raise PyRaise("FileNotFoundError", node)
                acc = flags & (_os.O_WRONLY | _os.O_RDWR)
                fv = FileV(pth, "r+" if acc else "r", None, None)
                fv.notrunc = True
                if not exists:
                    vfs.write(pth, "", "w", node)
                elif flags & _os.O_TRUNC and acc:
                    vfs.write(pth, "", "w", node)
                if flags & _os.O_APPEND:
                    fv.notrunc = False
                    fv.mode = "a"
                    fv.written = True
                return fv
            if name == "os.fdopen" and args and isinstance(args[0], FileV):
                return args[0]
            if name == "os.write" and len(args) == 2 and isinstance(args[0], FileV):
                data = args[1].decode("utf-8", "replace") if isinstance(args[1], bytes) else args[1]
                if args[0].notrunc if hasattr(args[0], "notrunc") else False:
                    vfs.write(args[0].path, data, f"r+@{args[0].pos}", node)
                    args[0].pos += len(data)
                else:
                    vfs.write(args[0].path, data, "a", node)
                return len(args[1])
            if name in ("os.close", "os.fsync", "os.ftruncate") and args and isinstance(args[0], FileV):
                if name == "os.ftruncate":
                    cur = vfs.texts.get(vfs.abs(args[0].path), "")
                    vfs.write(args[0].path, cur[:args[1]], "w", node)
                return None
            if name in ("os.mkdir", "os.makedirs"):
                vfs.mkdir(sval(args[0]), name == "os.makedirs", bool(kwargs.get("exist_ok", False)), node)
                return None
            if name in ("os.remove", "os.unlink"):
                vfs.remove(sval(args[0]), False, node)
                return None
            if name in ("os.rename", "os.replace", "shutil.move"):
                vfs.rename(sval(args[0]), sval(args[1]), node)
                return None
            if name in ("os.fsync", "os.sync"):
                return None
            if name in ("os.listdir",):
                a = vfs.abs(sval(args[0]))
                if a not in vfs.tree:
                    raise PyRaise("FileNotFoundError", node)
                return list(vfs.tree[a][0]) + list(vfs.tree[a][1])
        if f == ("builtin", "str") and args and isinstance(args[0], PathV):
            return args[0].s
        return NotImplemented
    return hook
