"""Order typestate: in which order (relative to a sorted source or to a parameter) does a function return / emit its
list?  A small dataflow analysis over the statements of a function (its inlined view), independent of whether the code
uses append / insert(0) / reverse() / [::-1] / comprehensions / generators.

direction value:  (base, flipped)
    base = 'pos'                - ascending source position (result of a position sort)
           ('param', name)      - the order of the list parameter `name`
           'empty'              - an empty list (adopts the order of what is appended)
    flipped                     - reversed with respect to the base

Also: `sort_direction` - the meaning of a sorted(..., key=K, reverse=R) call with K evaluated to a symbolic term
(closures, key factories, helper methods included), and `emission_order` for recursive tree walks.
"""
from __future__ import annotations

import ast
from typing import Optional

from .core import AnalysisError, FuncInfo, Project, attr_chain, unparse

POS = "pos"


class OrderUnknown(Exception):
    pass


def flip(d):
    return None if d is None else (d[0], not d[1])


class OrderAnalysis:
    def __init__(self, prj: Project, sorters: dict | None = None):
        """sorters: qualname -> function(call) -> direction, for project functions known to sort by position"""
        self.prj = prj
        self.sorters = sorters or {}
        self.summaries: dict[str, Optional[set]] = {}

    # ------------------------------------------------------------------ API
    def returns(self, fi: FuncInfo, params: dict | None = None) -> set:
        """directions of all returned / emitted lists of fi; list parameters start as ('param', name)"""
        env = {p: (("param", p), False) for p in fi.params()}
        if params:
            env.update(params)
        self.rets: list = []
        self.fi = fi
        self.acc_yield = None
        st = _State(self, fi, env)
        st.block(fi.node.body)
        out = set(st.rets)
        if st.yield_dir is not None:
            out.add(st.yield_dir)
        return out

    def summary(self, qual: str) -> Optional[set]:
        if qual in self.summaries:
            return self.summaries[qual]
        self.summaries[qual] = None   # recursion guard
        try:
            r = self.returns(self.prj.func(qual))
        except OrderUnknown:
            r = None
        self.summaries[qual] = r
        return r


class _State:
    def __init__(self, oa: OrderAnalysis, fi: FuncInfo, env: dict):
        self.oa, self.fi, self.env = oa, fi, dict(env)
        self.rets: list = []
        self.yield_dir = None

    # -------------------------------------------------------------- expressions
    def dir_of(self, e) -> Optional[tuple]:
        """direction of expression e, None if e is not an ordered list we track"""
        prj, fi = self.oa.prj, self.fi
        if isinstance(e, ast.Name):
            return self.env.get(e.id)
        if isinstance(e, ast.Starred):
            return self.dir_of(e.value)
        if isinstance(e, (ast.List, ast.Tuple)):
            if not e.elts:
                return ("empty", False)
            if len(e.elts) == 1 and isinstance(e.elts[0], ast.Starred):
                return self.dir_of(e.elts[0].value)
            return None
        if isinstance(e, ast.Subscript) and isinstance(e.slice, ast.Slice):
            sl = e.slice
            d = self.dir_of(e.value)
            if sl.lower is None and sl.upper is None:
                if sl.step is None:
                    return d
                if isinstance(sl.step, ast.UnaryOp) and isinstance(sl.step.op, ast.USub) and isinstance(sl.step.operand, ast.Constant) and sl.step.operand.value == 1:
                    return flip(d)
            return d if sl.step is None else None
        if isinstance(e, (ast.ListComp, ast.GeneratorExp)):
            if len(e.generators) == 1:
                return self.dir_of(e.generators[0].iter)
            return None
        if isinstance(e, ast.IfExp):
            a, b = self.dir_of(e.body), self.dir_of(e.orelse)
            return a if a == b else None
        if isinstance(e, ast.BinOp) and isinstance(e.op, ast.Add):
            a, b = self.dir_of(e.left), self.dir_of(e.right)
            if a and a[0] == "empty":
                return b
            if b and b[0] == "empty":
                return a
            return None
        if isinstance(e, ast.Call):
            nm = attr_chain(e.func) or ""
            if nm in ("list", "tuple", "iter") and len(e.args) == 1:
                return self.dir_of(e.args[0])
            if nm == "list" and not e.args:
                return ("empty", False)
            if nm == "reversed" and len(e.args) == 1:
                return flip(self.dir_of(e.args[0]))
            if nm == "filter" and len(e.args) == 2:
                return self.dir_of(e.args[1])
            if nm == "enumerate" and e.args:
                return self.dir_of(e.args[0])
            if isinstance(e.func, ast.Attribute) and e.func.attr == "copy" and not e.args:
                return self.dir_of(e.func.value)
            if nm == "sorted":
                raise OrderUnknown(f"{self.fi.site(e)}: sorted() with a key this analysis was not told about")
            tg, kind = prj.resolve_call(fi, e)
            if kind in ("direct", "self") and len(tg) == 1:
                q = tg[0].qual
                if q in self.oa.sorters:
                    return self.oa.sorters[q](self, e)
                summ = self.oa.summary(q)
                if summ and len(summ) == 1:
                    (d,) = summ
                    if d is None:
                        return None
                    base, fl = d
                    if base == POS or base == "empty":
                        return d
                    if isinstance(base, tuple) and base[0] == "param":
                        callee = prj.func(q)
                        ps = callee.params()
                        if callee.is_method() and not callee.is_static():
                            ps = ps[1:]
                        arg = None
                        if base[1] in ps:
                            i = ps.index(base[1])
                            if i < len(e.args):
                                arg = e.args[i]
                        for k in e.keywords:
                            if k.arg == base[1]:
                                arg = k.value
                        if arg is None:
                            return None
                        da = self.dir_of(arg)
                        return (da[0], da[1] != fl) if da else None
            return None
        return None

    # --------------------------------------------------------------- statements
    def block(self, stmts):
        for st in stmts:
            self.stmt(st)

    def set(self, name, d):
        self.env[name] = d

    def stmt(self, st):
        if isinstance(st, (ast.Assign, ast.AnnAssign)):
            val = st.value
            tgts = st.targets if isinstance(st, ast.Assign) else [st.target]
            if val is None:
                return
            self.scan_calls(val)
            d = self.dir_of(val)
            for t in tgts:
                if isinstance(t, ast.Name):
                    self.set(t.id, d)
            return
        if isinstance(st, ast.AugAssign):
            if isinstance(st.target, ast.Name) and isinstance(st.op, ast.Add):
                self.accumulate(st.target.id, self.dir_of(st.value) if not (isinstance(st.value, ast.List) and st.value.elts) else None,
                                ctx_dir=None, node=st, elem=isinstance(st.value, ast.List) and bool(st.value.elts))
            return
        if isinstance(st, ast.Expr):
            v = st.value
            if isinstance(v, (ast.Yield, ast.YieldFrom)):
                self.emit(v, None)
                return
            self.scan_calls(v)
            return
        if isinstance(st, ast.For):
            d = self.dir_of(st.iter)
            self.loop_body(st.body, d)
            self.block(st.orelse)
            return
        if isinstance(st, ast.While):
            self.loop_body(st.body, None)
            return
        if isinstance(st, ast.If):
            a = _State(self.oa, self.fi, self.env)
            b = _State(self.oa, self.fi, self.env)
            a.yield_dir = b.yield_dir = self.yield_dir
            a.loop_dir = b.loop_dir = getattr(self, "loop_dir", "none")
            a.block(st.body)
            b.block(st.orelse)
            self.rets += a.rets + b.rets
            for k in set(a.env) | set(b.env):
                da, db = a.env.get(k), b.env.get(k)
                if da == db:
                    self.env[k] = da
                elif da and da[0] == "empty":
                    self.env[k] = db
                elif db and db[0] == "empty":
                    self.env[k] = da
                else:
                    self.env[k] = ("mixed", False) if (da or db) else None
            ya, yb = a.yield_dir, b.yield_dir
            self.yield_dir = ya if ya == yb or yb is None else yb if ya is None else ("mixed", False)
            return
        if isinstance(st, ast.Return):
            if st.value is not None:
                self.scan_calls(st.value)
                self.rets.append(self.dir_of(st.value))
            return
        if isinstance(st, (ast.Try,)):
            self.block(st.body)
            for h in st.handlers:
                self.block(h.body)
            self.block(st.orelse)
            self.block(st.finalbody)
            return
        if isinstance(st, ast.With):
            self.block(st.body)
            return
        return

    def loop_body(self, body, d):
        prev = getattr(self, "loop_dir", "none")
        self.loop_dir = d
        self.block(body)
        self.loop_dir = prev

    def scan_calls(self, expr):
        """mutating list methods inside an expression statement"""
        for c in ast.walk(expr):
            if not (isinstance(c, ast.Call) and isinstance(c.func, ast.Attribute) and isinstance(c.func.value, ast.Name)):
                continue
            name, m = c.func.value.id, c.func.attr
            if name not in self.env or self.env[name] is None:
                continue
            if m == "append" and len(c.args) == 1:
                self.accumulate(name, None, None, c, elem=True)
            elif m == "extend" and len(c.args) == 1:
                self.accumulate(name, self.dir_of(c.args[0]), None, c, elem=False, nested=c.args[0])
            elif m == "insert" and len(c.args) == 2:
                idx = c.args[0]
                if isinstance(idx, ast.Constant) and idx.value == 0:
                    self.accumulate(name, None, None, c, elem=True, front=True)
                elif unparse(idx) == f"len({name})":
                    self.accumulate(name, None, None, c, elem=True)
                else:
                    self.env[name] = ("mixed", False)
            elif m == "reverse" and not c.args:
                self.env[name] = flip(self.env[name])
            elif m == "sort":
                self.env[name] = ("mixed", False)
            elif m in ("pop", "remove", "clear"):
                pass

    def accumulate(self, name, seq_dir, ctx_dir, node, elem, front=False, nested=None):
        """an element (elem) or a sequence is added to list `name` inside the current loop"""
        cur = self.env.get(name)
        if cur is None:
            return
        ld = getattr(self, "loop_dir", "none")
        if elem:
            if ld == "none":
                # outside loops: a single element added to an empty list keeps it trivially ordered
                new = cur if cur[0] != "empty" else cur
            elif ld is None:
                new = ("mixed", False)
            else:
                new = flip(ld) if front else ld
        else:
            if ld == "none":
                new = seq_dir if seq_dir is not None else ("mixed", False)
            elif ld is None:
                new = ("mixed", False)
            else:
                # elements derived from each loop item, in loop order (nested walk)
                new = flip(ld) if front else ld
        if cur[0] == "empty" or cur == new:
            self.env[name] = new
        else:
            self.env[name] = ("mixed", False)

    def emit(self, y, _):
        ld = getattr(self, "loop_dir", "none")
        if isinstance(y, ast.YieldFrom) and ld == "none":
            new = self.dir_of(y.value) or ("mixed", False)
        elif ld == "none" or ld is None:
            new = ("mixed", False)
        else:
            new = ld
        self.yield_dir = new if self.yield_dir in (None, new) else ("mixed", False)


# --------------------------------------------------------------------------------------------------
# meaning of a position sort
# --------------------------------------------------------------------------------------------------

class SortMeaning:
    def __init__(self):
        self.ok = False
        self.descending = None     # for verdict ok: True / False
        self.wrong = None          # positively recognised wrong key: text
        self.site = None


def sort_direction(prj: Project, fi: FuncInfo, reverse_value: bool, elem_path: str, reverse_param="reverse") -> SortMeaning:
    """Evaluate fi (a function `f(items, tokens, reverse)` that returns sorted(items, key=..., reverse=...)) with its
    reverse parameter fixed, the key applied to a symbolic item `h`; elem_path is the attribute path from the item to
    the index of its first token (e.g. 'token_range.start')."""
    from .absint import Lin, MiniInterp, Sym, Unknown, PyRaise
    cap = []

    def hook(it, kind, f, args, kwargs, node, cur):
        if kind == "call" and f == ("builtin", "sorted"):
            cap.append((args[0], kwargs.get("key"), kwargs.get("reverse", False), cur.site(node)))
            return args[0]
        if kind == "call" and isinstance(f, tuple) and f[0] == "native" and f[2] == "sort":
            raise Unknown("in-place sort")
        return NotImplemented
    it = MiniInterp(prj, hook)
    params = fi.params()
    items, toks = Sym("items", _open=True), Sym("tokens", _open=True)
    args = [items, toks]
    kwargs = {}
    if reverse_param in params:
        kwargs[reverse_param] = reverse_value
    elif reverse_value:
        raise AnalysisError(f"{fi.disp}: no parameter `{reverse_param}`")
    m = SortMeaning()
    try:
        res = it.call(fi, args, kwargs)
    except (Unknown, PyRaise) as e:
        raise AnalysisError(f"{fi.disp}: cannot evaluate the sort ({e})")
    if len(cap) != 1 or res is not items:
        raise AnalysisError(f"{fi.disp}: expected exactly one sorted(...) of the items whose result is returned, found {len(cap)}")
    xs, key, rev, site = cap[0]
    m.site = site
    if key is None:
        m.wrong = "no key function: the items themselves (not orderable / not by position) are compared"
        return m
    h = Sym("h", _open=True)
    try:
        k = it.apply(key, [h])
    except (Unknown, PyRaise) as e:
        raise AnalysisError(f"{fi.disp}: cannot evaluate the sort key ({e})")
    loc = f"tokens[h.{elem_path}].location"
    want = (f"{loc}.line", f"{loc}.column")

    def comp(v):
        """-> (path, sign) if v is +-1 * a single term"""
        if isinstance(v, Sym):
            return v.name, 1
        if isinstance(v, Lin) and len(v.terms) == 1 and v.const == 0:
            (p, c), = v.terms.items()
            if c in (1, -1):
                return p, c
        return None
    if isinstance(k, tuple) and len(k) == 2:
        a, b = comp(k[0]), comp(k[1])
        if a and b:
            if (a[0], b[0]) == want and a[1] == b[1]:
                m.ok = True
                m.descending = (a[1] == -1) != bool(rev)
                return m
            if (a[0], b[0]) == want:
                m.wrong = "line and column are ordered in opposite directions"
                return m
            if (b[0], a[0]) == want:
                m.wrong = f"key is (column, line): ordered by column first"
                return m
            m.wrong = f"key is ({a[0]}, {b[0]}), not (line, column) of the item's first token"
            return m
    if isinstance(k, Lin) and len(k.terms) >= 2:
        m.wrong = f"key `{k}` packs line and column into one number: keys collide or overflow (e.g. column >= the multiplier), items are mis-ordered"
        return m
    c1 = comp(k)
    if c1 is not None:
        if c1[0] == want[0]:
            m.wrong = "key is the line only: headers on one line are left in list order, not in column order"
        elif c1[0] == loc:
            m.wrong = "key is a Location (not orderable)"
        else:
            m.wrong = f"key is `{c1[0]}`: not the pair (line, column) of the item's first token"
        return m
    raise AnalysisError(f"{fi.disp}: sort key evaluates to {k!r}, which this rule cannot classify")


# --------------------------------------------------------------------------------------------------
# recursive tree walks
# --------------------------------------------------------------------------------------------------

def emission_order(prj: Project, fi: FuncInfo, child_attr: str):
    """For a recursive walk `for s in xs: <emit s> <emit walk(s.children)>`: the order of the events in the loop body.
    -> (list of 'elem' / 'rec' / 'other:<text>', site) ; follows `return list(G(xs))` wrappers into G."""
    seen = set()
    cur = fi
    while True:
        if cur.qual in seen:
            raise AnalysisError(f"{fi.disp}: wrapper cycle")
        seen.add(cur.qual)
        body = [s for s in cur.node.body if not (isinstance(s, ast.Expr) and isinstance(s.value, ast.Constant))]
        if len(body) == 1 and isinstance(body[0], ast.Return) and body[0].value is not None:
            v = body[0].value
            while isinstance(v, ast.Call) and attr_chain(v.func) in ("list", "tuple", "iter") and len(v.args) == 1:
                v = v.args[0]
            if isinstance(v, ast.Call):
                tg, kind = prj.resolve_call(cur, v)
                if kind == "direct" and len(tg) == 1 and tg[0].qual not in seen:
                    cur = prj.func(tg[0].qual)
                    continue
        break
    family = seen
    loops = [s for s in cur.node.body if isinstance(s, ast.For)]
    if len(loops) != 1:
        raise AnalysisError(f"{cur.disp}: expected one loop over the scopes, found {len(loops)}")
    lp = loops[0]
    if not isinstance(lp.target, ast.Name):
        raise AnalysisError(f"{cur.disp}: loop target")
    v = lp.target.id
    params = cur.params()
    if not (isinstance(lp.iter, ast.Name) and lp.iter.id in params):
        raise AnalysisError(f"{cur.disp}: the loop does not iterate the parameter")

    def is_rec(e):
        x = e
        while isinstance(x, ast.Call) and attr_chain(x.func) in ("list", "tuple", "iter") and len(x.args) == 1:
            x = x.args[0]
        if isinstance(x, ast.Call):
            tg, kind = prj.resolve_call(cur, x)
            if kind == "direct" and len(tg) == 1 and tg[0].qual in family and len(x.args) == 1 and unparse(x.args[0]) == f"{v}.{child_attr}":
                return True
        return False

    events = []

    def classify_seq(e):
        if is_rec(e):
            return ["rec"]
        if isinstance(e, (ast.List, ast.Tuple)):
            out = []
            for x in e.elts:
                if isinstance(x, ast.Starred):
                    out += classify_seq(x.value)
                elif isinstance(x, ast.Name) and x.id == v:
                    out.append("elem")
                else:
                    out.append("other:" + unparse(x)[:30])
            return out
        if isinstance(e, ast.BinOp) and isinstance(e.op, ast.Add):
            return classify_seq(e.left) + classify_seq(e.right)
        return ["other:" + unparse(e)[:40]]

    for st in lp.body:
        if isinstance(st, ast.Expr) and isinstance(st.value, ast.Yield):
            events.append("elem" if unparse(st.value.value) == v else "other:" + unparse(st.value)[:30])
        elif isinstance(st, ast.Expr) and isinstance(st.value, ast.YieldFrom):
            events += classify_seq(st.value.value)
        elif isinstance(st, ast.Expr) and isinstance(st.value, ast.Call) and isinstance(st.value.func, ast.Attribute):
            c = st.value
            if c.func.attr == "append" and len(c.args) == 1:
                events.append("elem" if unparse(c.args[0]) == v else "other:" + unparse(c.args[0])[:30])
            elif c.func.attr == "extend" and len(c.args) == 1:
                events += classify_seq(c.args[0])
            else:
                events.append("other:" + unparse(c)[:40])
        elif isinstance(st, ast.AugAssign) and isinstance(st.op, ast.Add):
            events += classify_seq(st.value)
        elif isinstance(st, ast.Expr) and isinstance(st.value, ast.Constant):
            continue
        else:
            events.append("other:" + unparse(st)[:40])
    return events, cur.site(lp), cur


# --------------------------------------------------------------------------------------------------
# ordering of a list by an attribute of its elements
# --------------------------------------------------------------------------------------------------

def key_direction(prj: Project, fi: FuncInfo, call: ast.Call, attr: str = "value") -> Optional[str]:
    """sorted(...)/.sort(...) call -> 'desc' / 'asc' when the key is +-<element>.<attr> (evaluated symbolically:
    lambdas, named key functions, attrgetter, negation), 'other' when it is something else, None when not evaluable"""
    from .absint import Lin, MiniInterp, PyRaise, Sym, Unknown
    key = rev = None
    for k in call.keywords:
        if k.arg == "key":
            key = k.value
        if k.arg == "reverse":
            rev = k.value
    if key is None:
        return "other"
    it = MiniInterp(prj)
    try:
        r = False if rev is None else it.ev(rev, {}, fi)
        if not isinstance(r, bool):
            return None
        kf = it.ev(key, {}, fi)
        v = it.apply(kf, [Sym("m", _open=True)])
        l = Lin.of(v)
    except (Unknown, PyRaise):
        return None
    if len(l.terms) == 1 and l.const == 0:
        (p, c), = l.terms.items()
        if p == f"m.{attr}" and c in (1, -1):
            return "desc" if ((c == -1) != r) else "asc"
    return "other"


def list_value_order(prj: Project, fi: FuncInfo, expr, at, attr: str = "value") -> Optional[str]:
    """how the list `expr` is ordered by .<attr> when `at` is reached: 'desc', 'asc', 'other', 'unsorted' or None"""
    from .core import local_defs, reaching_def
    names, todo, exprs = set(), [expr], []
    while todo:
        e = todo.pop()
        if isinstance(e, ast.Name):
            if e.id in names:
                continue
            names.add(e.id)
            rd = reaching_def(fi, e.id, e)
            if rd is not None:
                todo.append(rd)
                continue
            for v, _ in local_defs(fi, e.id):
                if v is not None:
                    todo.append(v)
        else:
            exprs.append(e)
    inplace = [c for c in fi.calls() if isinstance(c.func, ast.Attribute) and c.func.attr == "sort" and isinstance(c.func.value, ast.Name)
               and c.func.value.id in names and (at is None or fi.pos(c) <= fi.pos(at))]
    if inplace:
        return key_direction(prj, fi, max(inplace, key=fi.pos), attr)
    srt = [e for e in exprs if isinstance(e, ast.Call) and attr_chain(e.func) == "sorted"]
    if srt and len(srt) == len(exprs):
        ds = {key_direction(prj, fi, e, attr) for e in srt}
        return ds.pop() if len(ds) == 1 else None
    if srt:
        return None
    for e in exprs:
        if isinstance(e, ast.Call):
            tg, kind = prj.resolve_call(fi, e)
            if kind in ("direct", "self") and len(tg) == 1:
                callee = prj.func(tg[0].qual)
                rets = [r for r in callee.walk() if isinstance(r, ast.Return) and r.value is not None]
                if rets:
                    ds = {list_value_order(prj, callee, r.value, r, attr) for r in rets}
                    if len(ds) == 1:
                        return ds.pop()
                    return None
    return "unsorted"
