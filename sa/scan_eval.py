"""`codelimit scan` evaluated end to end on a virtual file system: scan_command is interpreted from source (cache read,
directory walk, reuse of cached entries, report construction, cache write); only lexing/measuring (replaced by a stub whose
result depends on the file), hashing, pygments' lexer lookup and the console are replaced.  Every modification of the file
system is recorded, so the states an interrupted scan can leave behind are enumerated from the run itself."""
from __future__ import annotations

import copy
import json

from .absint import BoundFunc, MiniInterp, PyRaise, Sym, Unknown
from .core import Project
from .fsmodel import PathV
from . import walk_eval as W

ROOT = "/w/proj"
CACHE = ROOT + "/.codelimit_cache"
DOC = CACHE + "/codelimit.json"
TREE0 = {"/w": (["proj"], []), ROOT: (["sub"], ["a.py", "b.js", "notes.txt"]), ROOT + "/sub": ([], ["c.py"])}
LENGTHS = {"a.py": [40, 7], "b.js": [61, 16, 31], "c.py": [15]}


class State:
    def __init__(self, tree=None, texts=None, undecodable=()):
        self.tree = copy.deepcopy(tree if tree is not None else TREE0)
        self.texts = dict(texts or {})
        self.undecodable = set(undecodable)      # files whose bytes are not valid UTF-8

    def copy(self):
        return State(self.tree, self.texts, self.undecodable)

    def with_file(self, path: str, text):
        s = self.copy()
        d, n = path.rsplit("/", 1)
        if text is None:
            if d in s.tree:
                s.tree[d] = (s.tree[d][0], [x for x in s.tree[d][1] if x != n])
            s.texts.pop(path, None)
        else:
            if n not in s.tree[d][1]:
                s.tree[d] = (s.tree[d][0], list(s.tree[d][1]) + [n])
            s.texts[path] = text
        return s

    def key(self):
        return (tuple(sorted((d, tuple(sorted(v[0])), tuple(sorted(v[1]))) for d, v in self.tree.items())),
                tuple(sorted(self.texts.items())), tuple(sorted(self.undecodable)))


class Outcome:
    def __init__(self):
        self.raised = None
        self.state = None
        self.ops = []
        self.read = []


def scan(prj: Project, state: State, q: str = "codelimit.commands.scan:scan_command") -> Outcome:
    lab = W.Lab(prj, ROOT, deep=True)
    st = state.copy()
    lab.vfs.tree = st.tree
    lab.vfs.texts = st.texts
    lab.vfs.undecodable = set(st.undecodable)
    inner = lab.hook

    def hook(it, kind, f, args, kwargs, node, cur):
        if kind == "call" and isinstance(f, tuple) and f and f[0] == "external":
            base = f[1].replace(":", ".").split(".")[-1]
            if base == "uuid4":
                return "generated-uuid"
            if base == "now":
                return Sym("now", _open=True)
        if kind == "call" and isinstance(f, tuple) and f and f[0] == "method" and isinstance(f[1], Sym) and f[1].name.startswith("now"):
            return "generated-timestamp"
        return inner(it, kind, f, args, kwargs, node, cur)

    def measure(it, f, path):
        # the measuring stub: functions whose lengths depend on the file that was lexed
        for fn, vals in LENGTHS.items():
            if path.endswith("/" + fn):
                M = prj.cls("codelimit.common.Measurement:Measurement")
                L = prj.cls("codelimit.common.Location:Location")
                return [it.construct(M, [f"{fn}:f{i}", it.construct(L, [10 * i + 1, 1], {}, None, f.fi),
                                         it.construct(L, [10 * i + v, 2], {}, None, f.fi), v], {}, None, f.fi) for i, v in enumerate(vals)]
        raise Unknown(f"measuring stub: unknown file {path!r}")
    lab.measure_by_path = measure
    lab.hook = hook
    out = Outcome()
    it = MiniInterp(prj, hook, max_steps=3_000_000, max_depth=80)
    lab.interp = it
    try:
        it.call(prj.func(q), [PathV(ROOT)], {})
    except PyRaise as e:
        out.raised = e.name
    written = {op[1] for op in getattr(lab.vfs, "ops", []) if op[0] == "write"}
    out.state = State(lab.vfs.tree, lab.vfs.texts, set(st.undecodable) - written)
    out.ops = list(getattr(lab.vfs, "ops", []))
    out.read = sorted(set(lab.vfs.read_log))
    return out


def crash_states(before: State, ops: list, stride: int = 1):
    """states an interruption of the run that performed `ops` (from `before`) can leave on disk: after every complete
    operation, and with every write cut short after each `stride`-th character (always including 0 and len-1)"""
    out = []
    cur = before.copy()
    for i, op in enumerate(ops):
        if op[0] == "write":
            _, a, mode, data = op
            if isinstance(data, str):
                base = cur.texts.get(a, "") if "a" in mode else ""
                cuts = sorted(set(range(0, len(data), stride)) | {0, max(len(data) - 1, 0)} | set(range(max(len(data) - 3, 0), len(data))))
                for n in cuts:
                    if n < len(data):
                        out.append((f"op {i + 1}/{len(ops)} write {a.rsplit('/', 1)[-1]} cut after {n} of {len(data)} characters", cur.with_file(a, base + data[:n])))
                cur = cur.with_file(a, base + data)
        elif op[0] == "overwrite":
            _, a, pos, data = op
            old = cur.texts.get(a, "")
            if isinstance(data, str):
                cuts = sorted(set(range(0, len(data), stride)) | {0, max(len(data) - 1, 0)} | set(range(max(len(data) - 3, 0), len(data))))
                for n in cuts:
                    if n < len(data):
                        out.append((f"op {i + 1}/{len(ops)} in-place write of {a.rsplit('/', 1)[-1]} cut after {n} of {len(data)} characters",
                                    cur.with_file(a, old[:pos] + data[:n] + old[pos + n:])))
                cur = cur.with_file(a, old[:pos] + data + old[pos + len(data):])
        elif op[0] == "mkdir":
            a = op[1]
            d, n = a.rsplit("/", 1)
            cur = cur.copy()
            cur.tree[d] = (list(cur.tree[d][0]) + [n], cur.tree[d][1])
            cur.tree[a] = ([], [])
        elif op[0] == "remove":
            cur = cur.with_file(op[1], None)
        elif op[0] == "rename":
            _, a, b = op
            text = cur.texts.get(a, "")
            cur = cur.with_file(a, None).with_file(b, text)
        if i + 1 < len(ops):
            out.append((f"after operation {i + 1} of {len(ops)} ({op[0]} {op[1].rsplit('/', 1)[-1]})", cur.copy()))
    return out, cur


def normal(doc_text: str):
    """the report document as data (None when it is not JSON)"""
    try:
        return json.loads(doc_text)
    except (TypeError, ValueError):
        return None


def cache_use(prj: Project, text, first: Outcome | None = None):
    """what `codelimit scan` does with a cache document of this text (None: no document): scan_command interpreted from the
    state a complete scan leaves, with the document replaced -> 'used' (no source file is read: every entry taken from the cache),
    'ignored' (every source file is read again), 'partly used', or 'raises <name>'"""
    first = first or scan(prj, State())
    if first.raised:
        raise Unknown(f"the first scan raises {first.raised}")
    st = first.state.with_file(DOC, text)
    out = scan(prj, st)
    if out.raised:
        return f"raises {out.raised}"
    sources = {ROOT + "/a.py", ROOT + "/b.js", ROOT + "/sub/c.py"}
    read = sources & set(out.read)
    return "used" if not read else "ignored" if read == sources else "partly used"
