#!/venv/bin/python
"""MANIFEST.setup_cmd: nothing to build (standard library only); verifies that the
interpreter and the repository are where the checks expect them."""
import ast
import sys
from pathlib import Path

ok = Path("/repo/codelimit").is_dir() and sys.version_info >= (3, 10)
print("setup: python", sys.version.split()[0], "repo package present:", Path("/repo/codelimit").is_dir())
sys.exit(0 if ok else 1)
