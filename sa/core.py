"""E1/E2/E3: project index, call resolution, call graph, guard/dominance walker.

Everything here works on the syntax trees of <repo>/codelimit/**/*.py as they are
on disk when the check starts.  Nothing from the repository is imported or run.
"""
from __future__ import annotations

import ast
import os
import warnings
from pathlib import Path
from typing import Iterable, Iterator, Optional

REPO = Path(os.environ.get("CODELIMIT_REPO", "/repo"))
PKG = "codelimit"


class AnalysisError(Exception):
    """The analysis cannot give a verdict (anchor vanished, construct left the
    understood fragment, floor missed).  Exit status 2, never a VIOLATION."""


# --------------------------------------------------------------------------
# small AST helpers
# --------------------------------------------------------------------------

def unparse(node) -> str:
    if node is None:
        return "None"
    if isinstance(node, str):
        return node
    try:
        return ast.unparse(node)
    except Exception:  # pragma: no cover
        return ast.dump(node)


def const_int(node) -> Optional[int]:
    """Integer literal (incl. unary minus), else None.  bool is not an int here."""
    if isinstance(node, ast.Constant) and type(node.value) is int:
        return node.value
    if (
        isinstance(node, ast.UnaryOp)
        and isinstance(node.op, ast.USub)
        and isinstance(node.operand, ast.Constant)
        and type(node.operand.value) is int
    ):
        return -node.operand.value
    return None


def const_str(node) -> Optional[str]:
    if isinstance(node, ast.Constant) and isinstance(node.value, str):
        return node.value
    return None


def attr_chain(node) -> Optional[str]:
    """'a.b.c' for Name/Attribute chains, 'a.b()' keeps call parens: None if other."""
    parts = []
    while True:
        if isinstance(node, ast.Attribute):
            parts.append(node.attr)
            node = node.value
        elif isinstance(node, ast.Name):
            parts.append(node.id)
            break
        elif isinstance(node, ast.Call) and not node.args and not node.keywords:
            inner = attr_chain(node.func)
            if inner is None:
                return None
            parts.append(inner + "()")
            break
        else:
            return None
    return ".".join(reversed(parts))


def walk_local(node) -> Iterator[ast.AST]:
    """ast.walk that does not descend into nested function/class definitions
    (lambdas and comprehensions are descended into: they run in place)."""
    todo = list(ast.iter_child_nodes(node))
    while todo:
        n = todo.pop()
        yield n
        if isinstance(n, (ast.FunctionDef, ast.AsyncFunctionDef, ast.ClassDef)):
            continue
        todo.extend(ast.iter_child_nodes(n))


def body_exits(stmts: list[ast.stmt]) -> Optional[str]:
    """If every path through `stmts` leaves the enclosing block, say how:
    'continue' | 'break' | 'return' | 'raise' | 'mixed'; else None."""
    if not stmts:
        return None
    last = stmts[-1]
    if isinstance(last, ast.Continue):
        return "continue"
    if isinstance(last, ast.Break):
        return "break"
    if isinstance(last, ast.Return):
        return "return"
    if isinstance(last, ast.Raise):
        return "raise"
    if isinstance(last, ast.If) and last.orelse:
        a, b = body_exits(last.body), body_exits(last.orelse)
        if a and b:
            return a if a == b else "mixed"
    if isinstance(last, ast.Try) and not last.finalbody:
        kinds = [body_exits(last.body + last.orelse)] + [body_exits(h.body) for h in last.handlers]
        if all(kinds):
            return kinds[0] if len(set(kinds)) == 1 else "mixed"
    return None


# --------------------------------------------------------------------------
# index
# --------------------------------------------------------------------------

class FuncInfo:
    def __init__(self, module: "Module", node, cls: Optional["ClassInfo"], outer: Optional["FuncInfo"]):
        self.module = module
        self.node = node
        self.cls = cls
        self.outer = outer
        self.name = node.name
        if outer is not None:
            local = f"{outer.local}.{node.name}"
        elif cls is not None:
            local = f"{cls.name}.{node.name}"
        else:
            local = node.name
        self.local = local
        self.qual = f"{module.name}:{local}"
        self._parents = None
        self.nested: dict[str, FuncInfo] = {}

    # short display name: path + local name
    @property
    def disp(self) -> str:
        return f"{self.module.rel}::{self.local}"

    def site(self, node=None) -> str:
        n = node if node is not None else self.node
        s = getattr(n, "_site", None)       # set by the inliner on nodes that come from a helper
        if s:
            return s
        return f"{self.module.rel}:{getattr(n, 'lineno', self.node.lineno)}"

    def __eq__(self, other):
        return isinstance(other, FuncInfo) and other.qual == self.qual

    def __hash__(self):
        return hash(self.qual)

    @property
    def parents(self) -> dict:
        if self._parents is None:
            p = {}
            for n in ast.walk(self.node):
                for c in ast.iter_child_nodes(n):
                    p[c] = n
            self._parents = p
        return self._parents

    def params(self) -> list[str]:
        a = self.node.args
        return [x.arg for x in a.posonlyargs + a.args + a.kwonlyargs]

    def param_default(self, name: str):
        a = self.node.args
        pos = a.posonlyargs + a.args
        defaults = [None] * (len(pos) - len(a.defaults)) + list(a.defaults)
        for p, d in zip(pos, defaults):
            if p.arg == name:
                return d
        for p, d in zip(a.kwonlyargs, a.kw_defaults):
            if p.arg == name:
                return d
        return None

    def param_annotation(self, name: str):
        a = self.node.args
        for p in a.posonlyargs + a.args + a.kwonlyargs:
            if p.arg == name:
                return p.annotation
        return None

    def is_method(self) -> bool:
        return self.cls is not None and self.outer is None

    def pos(self, node) -> int:
        """position of node in source (execution) order of this function's tree - valid for inlined views too,
        whose nodes carry the line numbers of the functions they came from"""
        idx = getattr(self, "_pos_index", None)
        if idx is None:
            idx = {}

            def rec(n):
                idx[id(n)] = len(idx)
                for c in ast.iter_child_nodes(n):
                    rec(c)
            rec(self.node)
            self._pos_index = idx
        return idx.get(id(node), -1)

    def is_static(self) -> bool:
        return any(isinstance(d, ast.Name) and d.id == "staticmethod" for d in self.node.decorator_list)

    def is_property(self) -> bool:
        return any((isinstance(d, ast.Name) and d.id in ("property", "cached_property")) or
                   (isinstance(d, ast.Attribute) and d.attr == "cached_property") for d in self.node.decorator_list)

    def is_classmethod(self) -> bool:
        return any(isinstance(d, ast.Name) and d.id == "classmethod" for d in self.node.decorator_list)

    def walk(self) -> Iterator[ast.AST]:
        return walk_local(self.node)

    def calls(self) -> Iterator[ast.Call]:
        for n in self.walk():
            if isinstance(n, ast.Call):
                yield n

    def __repr__(self):
        return f"<Func {self.qual}>"


class ClassInfo:
    def __init__(self, module: "Module", node: ast.ClassDef):
        self.module = module
        self.node = node
        self.name = node.name
        self.qual = f"{module.name}:{node.name}"
        self.methods: dict[str, FuncInfo] = {}
        self.base_exprs = node.bases
        self.bases: list[ClassInfo] = []      # resolved project bases
        self.subclasses: list[ClassInfo] = []
        self.class_attrs: dict[str, ast.AST] = {}
        self.setters: dict[str, FuncInfo] = {}     # property setters / deleters, by property name
        self.deleters: dict[str, FuncInfo] = {}

    def find_setter(self, name: str) -> Optional[FuncInfo]:
        for c in self.mro():
            if name in c.setters:
                return c.setters[name]
            if name in c.methods:
                return None
        return None

    def mro(self) -> list["ClassInfo"]:
        out, todo = [], [self]
        while todo:
            c = todo.pop(0)
            if c not in out:
                out.append(c)
                todo.extend(c.bases)
        return out

    def all_subclasses(self) -> list["ClassInfo"]:
        out, todo = [], list(self.subclasses)
        while todo:
            c = todo.pop()
            if c not in out:
                out.append(c)
                todo.extend(c.subclasses)
        return out

    def find_method(self, name: str) -> Optional[FuncInfo]:
        for c in self.mro():
            if name in c.methods:
                return c.methods[name]
        return None

    def is_dataclass(self) -> bool:
        for d in self.node.decorator_list:
            f = d.func if isinstance(d, ast.Call) else d
            if (attr_chain(f) or "").split(".")[-1] == "dataclass":
                return True
        return False

    def metaclass(self, prj) -> Optional["ClassInfo"]:
        """the project class given as `metaclass=` of this class or of a project base, if any"""
        for c in self.mro():
            for kw in getattr(c.node, "keywords", []):
                if kw.arg == "metaclass":
                    tgt = prj.resolve_name_in_module(c.module, attr_chain(kw.value) or "")
                    if isinstance(tgt, ClassInfo):
                        return tgt
        return None

    def external_bases(self) -> list[str]:
        """names of base classes (of the class or a project ancestor) that are not classes of the project (ABC, Generic, Enum,
        rich.Table ...): behaviour may be inherited from them"""
        out = []
        for c in self.mro():
            resolved = {b.name for b in c.bases}
            for b in c.base_exprs:
                nm = (attr_chain(b.value if isinstance(b, ast.Subscript) else b) or "?").split(".")[-1]
                if nm not in resolved and nm not in ("object", "ABC", "Generic", "Protocol"):
                    out.append(nm)
        return out

    def is_namedtuple(self) -> bool:
        return any((attr_chain(b) or "").split(".")[-1] == "NamedTuple" for b in self.base_exprs)

    def dataclass_fields(self):
        """[(name, default-expression or None)] of a @dataclass (bases first); None for ordinary classes"""
        if not any(c.is_dataclass() or c.is_namedtuple() for c in self.mro()):
            return None
        out = []
        for c in reversed(self.mro()):
            for st in c.node.body:
                if isinstance(st, ast.AnnAssign) and isinstance(st.target, ast.Name):
                    if "ClassVar" in unparse(st.annotation):
                        continue
                    out = [(n, d) for n, d in out if n != st.target.id]
                    out.append((st.target.id, st.value))
        return out

    def is_subclass_of(self, other: "ClassInfo") -> bool:
        return other in self.mro()

    def __repr__(self):
        return f"<Class {self.qual}>"


class Module:
    def __init__(self, name: str, path: Path, rel: str, src: str):
        self.name = name
        self.path = path
        self.rel = rel
        self.src = src
        with warnings.catch_warnings():
            warnings.simplefilter("ignore")
            self.tree = ast.parse(src, filename=str(path))
        self.imports: dict[str, str] = {}     # local name -> 'module' or 'module:symbol'
        self.functions: dict[str, FuncInfo] = {}
        self.classes: dict[str, ClassInfo] = {}
        self.assigns: dict[str, ast.AST] = {}  # module-level NAME = value


class Project:
    def __init__(self, root: Path = REPO):
        self.root = Path(root)
        self.pkg_dir = self.root / PKG
        if not self.pkg_dir.is_dir():
            raise AnalysisError(f"package directory {self.pkg_dir} not found")
        self.modules: dict[str, Module] = {}
        self.funcs: dict[str, FuncInfo] = {}
        self.classes: dict[str, ClassInfo] = {}
        self.lines = 0
        self._load()
        self._resolve_bases()
        self._callgraph = None
        self._inliner = None

    # ---------------------------------------------------------------- load
    def _load(self):
        for p in sorted(self.pkg_dir.rglob("*.py")):
            rel = str(p.relative_to(self.root))
            parts = list(p.relative_to(self.root).with_suffix("").parts)
            if parts[-1] == "__init__":
                parts = parts[:-1]
            name = ".".join(parts)
            try:
                src = p.read_text(encoding="utf-8")
                m = Module(name, p, rel, src)
            except SyntaxError as e:
                raise AnalysisError(f"{rel} does not parse: {e}")
            self.lines += src.count("\n")
            self.modules[name] = m
            self._index_module(m)

    def _index_module(self, m: Module):
        for st in m.tree.body:
            self._index_stmt(m, st)

    def _index_stmt(self, m: Module, st):
        if isinstance(st, ast.Import):
            for a in st.names:
                m.imports[a.asname or a.name.split(".")[0]] = a.name if a.asname else a.name.split(".")[0]
        elif isinstance(st, ast.ImportFrom):
            base = st.module or ""
            if st.level:
                pk = m.name.split(".")
                if not m.rel.endswith("__init__.py"):
                    pk = pk[:-1]
                pk = pk[: len(pk) - (st.level - 1)]
                base = ".".join(pk + ([st.module] if st.module else []))
            for a in st.names:
                m.imports[a.asname or a.name] = f"{base}:{a.name}"
        elif isinstance(st, (ast.FunctionDef, ast.AsyncFunctionDef)):
            fi = FuncInfo(m, st, None, None)
            m.functions[st.name] = fi
            self._register_func(fi)
        elif isinstance(st, ast.ClassDef):
            ci = ClassInfo(m, st)
            m.classes[st.name] = ci
            self.classes[ci.qual] = ci
            for b in st.body:
                if isinstance(b, (ast.FunctionDef, ast.AsyncFunctionDef)):
                    fi = FuncInfo(m, b, ci, None)
                    role = next((d.attr for d in b.decorator_list if isinstance(d, ast.Attribute) and d.attr in ("setter", "deleter")
                                 and isinstance(d.value, ast.Name) and d.value.id == b.name), None)
                    if role is not None:
                        # `@x.setter def x(self, v)`: the second definition of the name does not replace the property's getter
                        fi.local = f"{ci.name}.{b.name}@{role}"
                        fi.qual = f"{m.name}:{fi.local}"
                        (ci.setters if role == "setter" else ci.deleters)[b.name] = fi
                    else:
                        ci.methods[b.name] = fi
                    self._register_func(fi)
                elif isinstance(b, ast.Assign):
                    for t in b.targets:
                        if isinstance(t, ast.Name):
                            ci.class_attrs[t.id] = b.value
                elif isinstance(b, ast.AnnAssign) and isinstance(b.target, ast.Name):
                    ci.class_attrs[b.target.id] = b.value
        elif isinstance(st, ast.Assign):
            for t in st.targets:
                if isinstance(t, ast.Name):
                    m.assigns[t.id] = st.value
                elif isinstance(t, (ast.Tuple, ast.List)) and all(isinstance(e, ast.Name) for e in t.elts):
                    # A, B, C = <expr>: each name stands for <expr>[i] (literal elements directly)
                    for i, e in enumerate(t.elts):
                        if isinstance(st.value, (ast.Tuple, ast.List)) and len(st.value.elts) == len(t.elts):
                            m.assigns[e.id] = st.value.elts[i]
                        elif isinstance(st.value, ast.Call) and attr_chain(st.value.func) == "range" and len(st.value.args) == 1 \
                                and isinstance(st.value.args[0], ast.Constant) and st.value.args[0].value == len(t.elts):
                            m.assigns[e.id] = ast.copy_location(ast.Constant(value=i), st.value)
                        else:
                            # unpacking draws from any iterable (a map, a generator): tuple(<expr>)[i]
                            whole = ast.copy_location(ast.Call(func=ast.Name(id="tuple", ctx=ast.Load()), args=[st.value], keywords=[]), st.value)
                            m.assigns[e.id] = ast.fix_missing_locations(ast.copy_location(ast.Subscript(value=whole, slice=ast.Constant(value=i), ctx=ast.Load()), st.value))
        elif isinstance(st, ast.AnnAssign) and isinstance(st.target, ast.Name) and st.value is not None:
            m.assigns[st.target.id] = st.value
        elif isinstance(st, (ast.If, ast.Try)):
            for sub in ast.iter_child_nodes(st):
                if isinstance(sub, ast.stmt):
                    self._index_stmt(m, sub)

    def _register_func(self, fi: FuncInfo):
        self.funcs[fi.qual] = fi
        for n in walk_local(fi.node):
            if isinstance(n, (ast.FunctionDef, ast.AsyncFunctionDef)):
                # direct nesting only: walk_local does not descend further
                sub = FuncInfo(fi.module, n, fi.cls, fi)
                fi.nested[n.name] = sub
                self._register_func(sub)

    def _resolve_bases(self):
        for ci in self.classes.values():
            for b in ci.base_exprs:
                if isinstance(b, ast.Subscript):   # Predicate[Token]
                    b = b.value
                tgt = self.resolve_name_in_module(ci.module, attr_chain(b) or "")
                if isinstance(tgt, ClassInfo):
                    ci.bases.append(tgt)
                    tgt.subclasses.append(ci)

    # ------------------------------------------------------------- lookup
    def func(self, qual: str, raw: bool = False) -> FuncInfo:
        """qual = 'codelimit.common.utils:make_profile' (short form without the
        leading package also accepted).  Returns the function with calls of newly
        extracted (non-baseline) helpers inlined, unless raw=True."""
        fi = self.funcs.get(qual) or self.funcs.get(f"{PKG}.{qual}")
        if fi is None:
            alias = self._follow_import(qual)
            if alias is not None and alias in self.funcs:
                fi = self.funcs[alias]
        if fi is None:
            raise AnalysisError(f"anchor function {qual} not found in {self.root}")
        if raw or os.environ.get("SA_NO_INLINE"):
            return fi
        if self._inliner is None:
            from .inline import Inliner
            self._inliner = Inliner(self)
        try:
            return self._inliner.view(fi)
        except RecursionError:
            return fi

    def _follow_import(self, qual: str, depth: int = 0) -> Optional[str]:
        """'module:name' where the module only imports `name` (a function or class that was moved and is re-exported under
        its old name, possibly renamed with `as`): the qualified name of the definition it stands for"""
        if depth > 5 or ":" not in qual:
            return None
        mod, name = qual.split(":", 1)
        m = self.modules.get(mod) or self.modules.get(f"{PKG}.{mod}")
        if m is None:
            return None
        head, _, rest = name.partition(".")
        tgt = m.imports.get(head)
        if not tgt or ":" not in tgt:
            return None
        q2 = tgt + (f".{rest}" if rest else "")
        if q2 in self.funcs or q2 in self.classes:
            return q2
        return self._follow_import(q2, depth + 1)

    def maybe_func(self, qual: str) -> Optional[FuncInfo]:
        try:
            return self.func(qual)
        except AnalysisError:
            return None

    def cls(self, qual: str) -> ClassInfo:
        if qual in self.classes:
            return self.classes[qual]
        q2 = f"{PKG}.{qual}"
        if q2 in self.classes:
            return self.classes[q2]
        alias = self._follow_import(qual)
        if alias is not None and alias in self.classes:
            return self.classes[alias]
        raise AnalysisError(f"anchor class {qual} not found in {self.root}")

    def module(self, name: str) -> Module:
        if name in self.modules:
            return self.modules[name]
        if f"{PKG}.{name}" in self.modules:
            return self.modules[f"{PKG}.{name}"]
        raise AnalysisError(f"anchor module {name} not found in {self.root}")

    def resolve_name_in_module(self, m: Module, dotted: str):
        """Resolve 'X' or 'X.y' written in module m to FuncInfo | ClassInfo | Module |
        ('external', 'pkg:sym') | None."""
        if not dotted:
            return None
        head, *rest = dotted.split(".")
        cur = None
        if head in m.functions:
            cur = m.functions[head]
        elif head in m.classes:
            cur = m.classes[head]
        elif head in m.imports:
            cur = self._resolve_import(m.imports[head])
        else:
            return None
        for r in rest:
            if isinstance(cur, Module):
                if r in cur.functions:
                    cur = cur.functions[r]
                elif r in cur.classes:
                    cur = cur.classes[r]
                elif r in cur.imports:
                    cur = self._resolve_import(cur.imports[r])
                elif f"{cur.name}.{r}" in self.modules:
                    cur = self.modules[f"{cur.name}.{r}"]
                else:
                    return None
            elif isinstance(cur, ClassInfo):
                mth = cur.find_method(r)
                if mth is None:
                    return ("classattr", cur, r)
                cur = mth
            elif isinstance(cur, tuple) and cur[0] == "external":
                cur = ("external", cur[1] + "." + r)
            else:
                return None
        return cur

    def _resolve_import(self, target: str, depth=0):
        if depth > 5:
            return None
        if ":" in target:
            mod, sym = target.split(":", 1)
            if mod in self.modules:
                mm = self.modules[mod]
                if sym in mm.functions:
                    return mm.functions[sym]
                if sym in mm.classes:
                    return mm.classes[sym]
                if f"{mod}.{sym}" in self.modules:
                    return self.modules[f"{mod}.{sym}"]
                if sym in mm.imports:
                    return self._resolve_import(mm.imports[sym], depth + 1)
                if sym in mm.assigns:
                    return ("modattr", mm, sym)
                return None
            return ("external", target)
        if target in self.modules:
            return self.modules[target]
        return ("external", target)

    # ---------------------------------------------------------- call graph
    def methods_named(self, name: str) -> list[FuncInfo]:
        return [c.methods[name] for c in self.classes.values() if name in c.methods]

    def resolve_call(self, fi: FuncInfo, call: ast.Call) -> tuple[list[FuncInfo], str]:
        """-> (targets, kind) kind in 'direct','ctor','self','cha','external','unknown'"""
        f = call.func
        if isinstance(f, ast.Name):
            # nested function of an enclosing function?
            o = fi
            while o is not None:
                if f.id in o.nested:
                    return [o.nested[f.id]], "direct"
                o = o.outer
            tgt = self.resolve_name_in_module(fi.module, f.id)
            return self._targets_of(tgt, f.id)
        if isinstance(f, ast.Attribute):
            chain = attr_chain(f)
            if chain:
                head = chain.split(".")[0]
                if head in ("self", "cls") and fi.cls is not None and chain.count(".") == 1:
                    out = []
                    for c in [fi.cls] + fi.cls.all_subclasses():
                        mth = c.find_method(f.attr)
                        if mth and mth not in out:
                            out.append(mth)
                    if out:
                        return out, "self"
                if head not in ("self", "cls") and "()" not in chain:
                    tgt = self.resolve_name_in_module(fi.module, chain)
                    if tgt is not None and not (isinstance(tgt, tuple) and tgt[0] in ("classattr", "modattr")):
                        return self._targets_of(tgt, chain)
            # super().__init__()
            if isinstance(f.value, ast.Call) and isinstance(f.value.func, ast.Name) and f.value.func.id == "super" and fi.cls:
                out = []
                for b in fi.cls.bases:
                    mth = b.find_method(f.attr)
                    if mth:
                        out.append(mth)
                return out, "self" if out else "external"
            # receiver is a local / parameter of known project class
            ci = self.local_class(fi, f.value)
            if ci is not None:
                exact, cls_ = ci
                out = []
                for c in ([cls_] if exact else [cls_] + cls_.all_subclasses()):
                    mth = c.find_method(f.attr)
                    if mth and mth not in out:
                        out.append(mth)
                if len(out) == 1:
                    return out, "direct"
                if out:
                    return out, "cha"
            # class-hierarchy analysis by method name
            cands = self.methods_named(f.attr)
            if cands:
                return cands, "cha"
            return [], "external"
        return [], "unknown"

    def local_class(self, fi: FuncInfo, recv):
        """(exact, ClassInfo) when recv is a local whose every definition constructs the same project class (exact), or
        a parameter annotated with a project class (not exact: subclasses possible); else None"""
        if not isinstance(recv, ast.Name) or recv.id in ("self", "cls"):
            return None
        cache = fi.__dict__.setdefault("_local_class_cache", {})
        if recv.id not in cache:
            cache[recv.id] = self._local_class(fi, recv)
        return cache[recv.id]

    def _local_class(self, fi: FuncInfo, recv):
        if recv.id in fi.params():
            ann = fi.param_annotation(recv.id)
            if isinstance(ann, ast.Constant) and isinstance(ann.value, str):
                try:
                    ann = ast.parse(ann.value, mode="eval").body
                except SyntaxError:
                    return None
            if isinstance(ann, (ast.Name, ast.Attribute)):
                tgt = self.resolve_name_in_module(fi.module, attr_chain(ann) or "")
                if isinstance(tgt, ClassInfo):
                    if any(isinstance(n, ast.Name) and n.id == recv.id and isinstance(n.ctx, ast.Store) for n in fi.walk()):
                        return None
                    return (False, tgt)
            return None
        classes = set()
        stores = 0
        for n in fi.walk():
            if isinstance(n, ast.Name) and n.id == recv.id and isinstance(n.ctx, ast.Store):
                stores += 1
        defs = []
        for n in fi.walk():
            if isinstance(n, ast.Assign) and len(n.targets) == 1 and isinstance(n.targets[0], ast.Name) and n.targets[0].id == recv.id:
                defs.append(n.value)
            elif isinstance(n, ast.AnnAssign) and isinstance(n.target, ast.Name) and n.target.id == recv.id and n.value is not None:
                defs.append(n.value)
        if not defs or len(defs) != stores:
            return None
        for v in defs:
            c = self.resolve_ctor(fi, v) if isinstance(v, ast.Call) else None
            if c is None:
                return None
            classes.add(c)
        if len(classes) == 1:
            return (True, classes.pop())
        return None

    def _targets_of(self, tgt, label) -> tuple[list[FuncInfo], str]:
        if isinstance(tgt, FuncInfo):
            return [tgt], "direct"
        if isinstance(tgt, ClassInfo):
            init = tgt.find_method("__init__")
            return ([init] if init else []), "ctor"
        if isinstance(tgt, tuple) and tgt[0] == "external":
            return [], "external"
        if tgt is None:
            return [], "external" if label in BUILTIN_NAMES else "unknown"
        return [], "unknown"

    def resolve_ctor(self, fi: FuncInfo, call: ast.Call) -> Optional[ClassInfo]:
        """If `call` constructs a project class, which one."""
        chain = attr_chain(call.func)
        if not chain or "()" in chain:
            return None
        tgt = self.resolve_name_in_module(fi.module, chain)
        return tgt if isinstance(tgt, ClassInfo) else None

    def resolve_callee_name(self, fi: FuncInfo, call: ast.Call) -> str:
        """A stable printable name for the callee: project qualname, or
        'ext:module:sym', or '.method' for unresolved attribute calls."""
        f = call.func
        chain = attr_chain(f)
        if isinstance(f, ast.Name):
            o = fi
            while o is not None:
                if f.id in o.nested:
                    return o.nested[f.id].qual
                o = o.outer
        if chain and "()" not in chain and chain.split(".")[0] not in ("self", "cls"):
            tgt = self.resolve_name_in_module(fi.module, chain)
            if isinstance(tgt, FuncInfo):
                return tgt.qual
            if isinstance(tgt, ClassInfo):
                return tgt.qual
            if isinstance(tgt, tuple) and tgt[0] == "external":
                return "ext:" + tgt[1]
            if isinstance(f, ast.Name):
                return "builtin:" + f.id
        if isinstance(f, ast.Attribute):
            return "." + f.attr
        return "?"

    @property
    def callgraph(self) -> "CallGraph":
        if self._callgraph is None:
            self._callgraph = CallGraph(self)
        return self._callgraph


def analysis_functions(prj: "Project", roots) -> list:
    """Functions reachable from `roots`, as *views* (newly extracted helpers inlined into their callers);
    a helper that could not be inlined still appears, because its call is still there."""
    seen, out, todo = set(), [], [prj.func(r) for r in roots]
    while todo:
        f = todo.pop()
        if f.qual in seen:
            continue
        seen.add(f.qual)
        out.append(f)
        for sub in f.nested.values():
            todo.append(sub)
        for c in f.calls():
            tg, kind = prj.resolve_call(f, c)
            for t in tg:
                if t.qual not in seen:
                    todo.append(prj.func(t.qual))
        # implicit calls (special methods of constructed objects, properties, functions passed as values); a helper whose call
        # was inlined into this view is not a function of its own here (its body is part of the view, under the caller's guards)
        if f.qual in prj.funcs:
            raw = prj.funcs[f.qual]
            direct_raw = {t.qual for c in raw.calls() for t in prj.resolve_call(raw, c)[0]}
            direct_view = {t.qual for c in f.calls() for t in prj.resolve_call(f, c)[0]}
            inlined = direct_raw - direct_view
        else:
            inlined = set()
        for q in prj.callgraph.edges.get(f.qual, ()):
            if q not in seen and q in prj.funcs and q not in inlined:
                todo.append(prj.func(q))
    return sorted(out, key=lambda f: f.qual)


def effective_callers(prj: "Project", qual: str) -> set:
    """callers of a function where a newly extracted helper (not in the baseline tree) stands for the functions calling it"""
    from .inline import baseline_names
    base = baseline_names()
    out, todo, seen = set(), list(prj.callgraph.callers_of(qual)), set()
    while todo:
        q = todo.pop()
        if q in seen:
            continue
        seen.add(q)
        up = prj.callgraph.callers_of(q)
        if q in base or not up:
            out.add(q)
        else:
            todo += list(up)
    return out


def with_helpers(prj: "Project", fi) -> list:
    """fi's view plus the views of the newly extracted helpers (functions that are not part of the baseline tree)
    still called from it, transitively - the code a rule anchored in fi has to look at"""
    from .inline import baseline_names
    base = baseline_names()
    seen, out, todo = set(), [], [fi]
    while todo:
        f = todo.pop()
        if f.qual in seen:
            continue
        seen.add(f.qual)
        out.append(f)
        for c in f.calls():
            tg, kind = prj.resolve_call(f, c)
            if kind in ("direct", "self", "ctor") and len(tg) == 1 and tg[0].qual not in base and tg[0].qual not in seen:
                todo.append(prj.func(tg[0].qual))
    return out


BUILTIN_NAMES = {
    "len", "sum", "min", "max", "sorted", "set", "list", "dict", "tuple", "range", "enumerate", "str", "int",
    "isinstance", "open", "print", "next", "id", "hash", "super", "zip", "any", "all", "reversed", "bool",
    "float", "abs", "iter", "map", "filter", "repr", "type", "getattr", "setattr", "hasattr", "round", "ord", "chr",
    "ValueError", "KeyError", "TypeError", "Exception", "IndexError", "frozenset", "callable", "vars", "divmod",
}


class CallGraph:
    def __init__(self, prj: Project):
        self.prj = prj
        self.edges: dict[str, set[str]] = {}
        self.sites: dict[tuple[str, str], list[ast.Call]] = {}
        self.kinds = {"direct": 0, "ctor": 0, "self": 0, "cha": 0, "external": 0, "unknown": 0}
        self.unknown: list[tuple[FuncInfo, ast.Call]] = []
        for fi in prj.funcs.values():
            es = self.edges.setdefault(fi.qual, set())
            for call in fi.calls():
                tg, kind = prj.resolve_call(fi, call)
                self.kinds[kind] += 1
                if kind == "unknown":
                    self.unknown.append((fi, call))
                for t in tg:
                    es.add(t.qual)
                    self.sites.setdefault((fi.qual, t.qual), []).append(call)
            # a nested def is considered called by its definer (callbacks, closures)
            for sub in fi.nested.values():
                es.add(sub.qual)
            # implicit calls: whoever constructs an instance of a project class may trigger its special methods (iteration,
            # len, comparison, context manager ...); an attribute load whose name is a property of a project class may run it;
            # a function passed as a value (map(self.measure, ...), key=helper, callbacks) may be called
            for call in fi.calls():
                ci = prj.resolve_ctor(fi, call) if hasattr(prj, "resolve_ctor") else None
                if ci is not None:
                    for c in ci.mro():
                        for nm, m in c.methods.items():
                            if nm.startswith("__") and nm.endswith("__") and nm != "__init__":
                                es.add(m.qual)
            for n in fi.walk():
                if isinstance(n, ast.Attribute) and isinstance(n.ctx, ast.Load):
                    par = fi.parents.get(n)
                    is_callee = isinstance(par, ast.Call) and par.func is n
                    own = isinstance(n.value, ast.Name) and n.value.id in ("self", "cls")
                    for m in prj.methods_named(n.attr):
                        if m.is_property() or (not is_callee and own and fi.cls is not None and m.cls in fi.cls.mro()):
                            es.add(m.qual)
                elif isinstance(n, ast.Name) and isinstance(n.ctx, ast.Load):
                    par = fi.parents.get(n)
                    if isinstance(par, ast.Call) and par.func is n:
                        continue
                    tgt = prj.resolve_name_in_module(fi.module, n.id) if n.id not in fi.params() else None
                    if isinstance(tgt, FuncInfo):
                        es.add(tgt.qual)
        # module-level code (e.g. class bodies instantiating languages)
        self.callers: dict[str, set[str]] = {}
        for a, bs in self.edges.items():
            for b in bs:
                self.callers.setdefault(b, set()).add(a)

    def reachable(self, roots: Iterable[str]) -> set[str]:
        seen, todo = set(), []
        for r in roots:
            q = self.prj.func(r).qual
            todo.append(q)
        while todo:
            q = todo.pop()
            if q in seen:
                continue
            seen.add(q)
            todo.extend(self.edges.get(q, ()))
        return seen

    def path(self, root: str, target: str) -> Optional[list[str]]:
        root = self.prj.func(root).qual
        prev = {root: None}
        todo = [root]
        while todo:
            q = todo.pop(0)
            if q == target:
                out = []
                while q is not None:
                    out.append(q)
                    q = prev[q]
                return out[::-1]
            for n in sorted(self.edges.get(q, ())):
                if n not in prev:
                    prev[n] = q
                    todo.append(n)
        return None

    def callers_of(self, qual: str) -> set[str]:
        return self.callers.get(self.prj.func(qual).qual, set())

    def stats(self) -> dict:
        return dict(self.kinds, functions=len(self.prj.funcs), edges=sum(len(v) for v in self.edges.values()))


# --------------------------------------------------------------------------
# E3: guards / dominance on the statement tree
# --------------------------------------------------------------------------

class Guard:
    """A condition known to hold when control reaches a node."""
    __slots__ = ("test", "polarity", "origin", "expanded")

    def __init__(self, test: ast.AST, polarity: bool, origin: str):
        while isinstance(test, ast.UnaryOp) and isinstance(test.op, ast.Not):
            test, polarity = test.operand, not polarity     # `not c` held <=> c did not
        self.test = test
        self.polarity = polarity   # True: test holds, False: not test holds
        self.expanded = False      # a flag guard that was replaced by the condition the flag stands for
        self.origin = origin       # 'if', 'else', 'early-exit', 'ifexp', 'comp', 'boolop', 'while'

    def __repr__(self):
        return f"{'' if self.polarity else 'not '}({unparse(self.test)}) [{self.origin}]"


def _field_of(parent, child) -> Optional[str]:
    for name, val in ast.iter_fields(parent):
        if val is child:
            return name
        if isinstance(val, list) and any(v is child for v in val):
            return name
    return None


def guards_of(fi: FuncInfo, node: ast.AST, stop_at: Optional[ast.AST] = None) -> list[Guard]:
    """Conditions that hold whenever `node` is evaluated, innermost first.
    Covers: enclosing if/elif/else, IfExp, comprehension filters, short-circuit
    and/or, while tests, and *early exits*: a preceding sibling statement
    `if c: <always leaves the block>` contributes `not c`."""
    out: list[Guard] = []
    parents = fi.parents
    cur = node
    while cur is not fi.node and cur in parents:
        par = parents[cur]
        fld = _field_of(par, cur)
        if par is stop_at:
            _early_exits(par, cur, fld, out)
            break
        if isinstance(par, ast.If):
            if fld == "body":
                out.append(Guard(par.test, True, "if"))
            elif fld == "orelse":
                out.append(Guard(par.test, False, "else"))
        elif isinstance(par, ast.While):
            if fld == "body":
                out.append(Guard(par.test, True, "while"))
        elif isinstance(par, ast.IfExp):
            if fld == "body":
                out.append(Guard(par.test, True, "ifexp"))
            elif fld == "orelse":
                out.append(Guard(par.test, False, "ifexp"))
        elif isinstance(par, ast.BoolOp):
            idx = [i for i, v in enumerate(par.values) if v is cur][0]
            for prev in par.values[:idx]:
                out.append(Guard(prev, isinstance(par.op, ast.And), "boolop"))
        elif isinstance(par, (ast.ListComp, ast.SetComp, ast.GeneratorExp, ast.DictComp)):
            if fld in ("elt", "key", "value"):
                for gen in par.generators:
                    for cond in gen.ifs:
                        out.append(Guard(cond, True, "comp"))
        elif isinstance(par, ast.comprehension):
            if fld == "ifs":
                idx = [i for i, v in enumerate(par.ifs) if v is cur][0]
                for prev in par.ifs[:idx]:
                    out.append(Guard(prev, True, "comp"))
        _early_exits(par, cur, fld, out)
        cur = par
    return out + _flag_guards(fi, out)


def _strip_bool(e):
    while isinstance(e, ast.Call) and isinstance(e.func, ast.Name) and e.func.id == "bool" and len(e.args) == 1:
        e = e.args[0]
    return e


def _flag_guards(fi: FuncInfo, guards: list) -> list:
    """A guard on a local boolean flag stands for the condition the flag was computed from:
    `flag = <E>` (possibly `flag = False` in an except handler) and `if not flag:` -> E does not hold
    (or the handler ran); `if flag:` with no constant-True definition -> E holds."""
    extra = []
    for g in guards:
        t = g.test
        if not isinstance(t, ast.Name) or t.id in fi.params():
            continue
        defs = local_defs(fi, t.id)
        if not defs or any(v is None for v, _ in defs):
            continue
        exprs, consts = [], []
        for v, st in defs:
            v = _strip_bool(v)
            if isinstance(v, ast.Constant) and (isinstance(v.value, bool) or v.value is None):
                consts.append((bool(v.value), st))
            else:
                exprs.append((v, st))
        distinct = {unparse(v) for v, _ in exprs}
        if len(distinct) != 1:
            continue
        E = exprs[0][0]
        g.expanded = False
        if g.polarity:
            if not any(c for c, _ in consts):
                extra.append(Guard(E, True, "flag"))
                g.expanded = True
        else:
            ok = True
            for c, st in consts:
                if c:
                    continue
                inside_handler = any(isinstance(p, ast.ExceptHandler) for p in _ancestors(fi, st))
                if not inside_handler:
                    ok = False
            if ok:
                extra.append(Guard(E, False, "flag-or-exception" if consts else "flag"))
                g.expanded = True
    return extra


def implied_atoms(test, pol: bool = True) -> list:
    """(atom, polarity) pairs that certainly hold when `test` evaluates to `pol`: flattens not / and / or and
    conditional expressions with a constant branch (`False if not c else E` true => c and E)."""
    if isinstance(test, ast.UnaryOp) and isinstance(test.op, ast.Not):
        return implied_atoms(test.operand, not pol)
    if isinstance(test, ast.BoolOp):
        if isinstance(test.op, ast.And) == pol:
            out = []
            for v in test.values:
                out += implied_atoms(v, pol)
            return out
        return []
    if isinstance(test, ast.IfExp):
        b, o = test.body, test.orelse
        def const(x):
            return isinstance(x, ast.Constant) and (isinstance(x.value, bool) or x.value is None)
        if const(b) and bool(b.value) != pol:       # body cannot give `pol`: the else branch was taken
            return implied_atoms(test.test, False) + implied_atoms(o, pol)
        if const(o) and bool(o.value) != pol:
            return implied_atoms(test.test, True) + implied_atoms(b, pol)
        return []
    if isinstance(test, ast.Call) and isinstance(test.func, ast.Name) and test.func.id == "bool" and len(test.args) == 1:
        return implied_atoms(test.args[0], pol)
    return [(test, pol)]


def atoms_at(fi: FuncInfo, node) -> list:
    """all atoms known to hold when `node` is evaluated (from every guard, flattened), plus what is known about
    locals that are tested for presence: a name that is non-None carries the guards of its non-None definitions."""
    out = []
    for g in guards_of(fi, node):
        for a, p in implied_atoms(g.test, g.polarity):
            out.append((a, p))
    extra = []
    for a, p in list(out):
        nm = None
        if isinstance(a, ast.Name) and p:
            nm = a.id
        elif isinstance(a, ast.Compare) and len(a.ops) == 1 and isinstance(a.left, ast.Name) and isinstance(a.comparators[0], ast.Constant) \
                and a.comparators[0].value is None:
            if (isinstance(a.ops[0], ast.IsNot) and p) or (isinstance(a.ops[0], ast.Is) and not p):
                nm = a.left.id
        if nm is not None:
            extra += value_guards(fi, nm)
    return out + extra


def value_guards(fi: FuncInfo, name: str, depth: int = 0) -> list:
    """atoms that hold whenever local `name` is not None/falsy: common to all its non-None definitions"""
    if depth > 4 or name in fi.params():
        return []
    defs = local_defs(fi, name)
    sets = []
    for v, st in defs:
        if v is None:
            return []
        vals = [v]
        if isinstance(v, ast.IfExp):
            vals = []
            for br, pol in ((v.body, True), (v.orelse, False)):
                if not (isinstance(br, ast.Constant) and br.value in (None, False)):
                    vals.append((br, implied_atoms(v.test, pol)))
        else:
            vals = [(v, [])]
        for val, pre in vals:
            if isinstance(val, ast.Constant) and val.value in (None, False):
                continue
            here = list(pre)
            if hasattr(st, "lineno") and isinstance(st, ast.stmt):
                for g in guards_of(fi, st):
                    here += implied_atoms(g.test, g.polarity)
            if isinstance(val, ast.Name) and val.id != name:
                here += value_guards(fi, val.id, depth + 1)
            sets.append({(unparse(a), p): (a, p) for a, p in here})
    if not sets:
        return []
    common = set(sets[0])
    for s_ in sets[1:]:
        common &= set(s_)
    return [sets[0][k] for k in common]


def _ancestors(fi: FuncInfo, node):
    cur = node
    while cur in fi.parents:
        cur = fi.parents[cur]
        yield cur


def _early_exits(par, cur, fld, out):
    """early exits among preceding siblings in any statement list"""
    if isinstance(cur, ast.stmt) and fld in ("body", "orelse", "finalbody", "handlers"):
        sibs = getattr(par, fld)
        if isinstance(sibs, list) and cur in sibs:
            for prev in sibs[: sibs.index(cur)]:
                if isinstance(prev, ast.If):
                    if body_exits(prev.body) and not body_exits(prev.orelse):
                        out.append(Guard(prev.test, False, "early-exit"))
                    elif prev.orelse and body_exits(prev.orelse) and not body_exits(prev.body):
                        out.append(Guard(prev.test, True, "early-exit"))
                elif isinstance(prev, ast.Try):
                    # an early exit inside a preceding try body: holds unless a handler ran
                    for st in prev.body:
                        if isinstance(st, ast.If) and body_exits(st.body) and not body_exits(st.orelse):
                            out.append(Guard(st.test, False, "early-exit-in-try"))
                if isinstance(prev, (ast.If, ast.Try, ast.With)):
                    # nested, conditional early exits (return/raise leave the function from anywhere;
                    # continue/break leave the loop unless a nested loop intervenes)
                    for st in _nested_exit_ifs(prev):
                        if not any(g.test is st.test for g in out):
                            out.append(Guard(st.test, False, "early-exit-nested"))


def _nested_exit_ifs(node):
    """if-statements nested anywhere below `node` (not below loops or defs) whose body always leaves"""
    res = []
    for fld in ("body", "orelse", "finalbody"):
        for st in getattr(node, fld, []) or []:
            if isinstance(st, ast.If):
                ex = body_exits(st.body)
                if ex and not body_exits(st.orelse):
                    res.append(st)
                res.extend(_nested_exit_ifs(st))
            elif isinstance(st, (ast.Try, ast.With)):
                res.extend(_nested_exit_ifs(st))
    return res


def enclosing(fi: FuncInfo, node: ast.AST, kinds) -> list[ast.AST]:
    """Enclosing nodes of the given type(s), innermost first."""
    out = []
    cur = node
    parents = fi.parents
    while cur in parents:
        cur = parents[cur]
        if isinstance(cur, kinds):
            out.append(cur)
    return out


def enclosing_stmt(fi: FuncInfo, node: ast.AST) -> ast.stmt:
    cur = node
    while not isinstance(cur, ast.stmt):
        cur = fi.parents[cur]
    return cur


def try_handlers_covering(fi: FuncInfo, node: ast.AST) -> list[tuple[ast.AST, ast.ExceptHandler]]:
    """(try, handler) pairs whose *body* contains `node`, innermost first.  `with contextlib.suppress(E):` counts
    as `try: ... except E: pass`."""
    out = []
    cur = node
    parents = fi.parents
    while cur in parents:
        par = parents[cur]
        if isinstance(par, ast.Try) and _field_of(par, cur) == "body":
            for h in par.handlers:
                out.append((par, h))
        if isinstance(par, ast.With) and _field_of(par, cur) == "body":
            for it in par.items:
                ce = it.context_expr
                if isinstance(ce, ast.Call) and (attr_chain(ce.func) or "").split(".")[-1] == "suppress":
                    typ = ce.args[0] if len(ce.args) == 1 else ast.Tuple(elts=list(ce.args), ctx=ast.Load())
                    h = ast.ExceptHandler(type=typ, name=None, body=[ast.Pass()])
                    h.lineno = par.lineno
                    h._suppress_with = par
                    out.append((par, h))
        cur = par
    return out


def handler_names(h: ast.ExceptHandler) -> list[str]:
    """Exception class names a handler catches; ['BaseException'] for bare except."""
    if h.type is None:
        return ["BaseException"]
    if isinstance(h.type, ast.Tuple):
        return [attr_chain(e) or "?" for e in h.type.elts]
    return [attr_chain(h.type) or "?"]


# exception hierarchy facts used by handler coverage (builtins only)
EXC_PARENTS = {
    "UnicodeDecodeError": ["UnicodeError"], "UnicodeError": ["ValueError"], "ValueError": ["Exception"],
    "json.JSONDecodeError": ["ValueError"], "JSONDecodeError": ["ValueError"],
    "KeyError": ["LookupError"], "IndexError": ["LookupError"], "LookupError": ["Exception"],
    "TypeError": ["Exception"], "AttributeError": ["Exception"], "OSError": ["Exception"],
    "FileNotFoundError": ["OSError"], "PermissionError": ["OSError"], "IsADirectoryError": ["OSError"],
    "IOError": ["OSError"], "StopIteration": ["Exception"], "RecursionError": ["RuntimeError"],
    "RuntimeError": ["Exception"], "ClassNotFound": ["ValueError"], "Exception": ["BaseException"],
    "BaseException": [],
}


def exc_is_caught(exc: str, caught: Iterable[str]) -> bool:
    caught = {c.split(".")[-1] for c in caught}
    seen, todo = set(), [exc]
    while todo:
        e = todo.pop()
        if e in seen:
            continue
        seen.add(e)
        if e.split(".")[-1] in caught:
            return True
        todo.extend(EXC_PARENTS.get(e, EXC_PARENTS.get(e.split(".")[-1], ["Exception"] if e != "BaseException" else [])))
    return False


# --------------------------------------------------------------------------
# E5 (light): single-function definitions of a local name
# --------------------------------------------------------------------------

def local_defs(fi: FuncInfo, name: str) -> list[tuple[ast.AST, ast.AST]]:
    """All (value_expr, stmt) that bind local `name` by plain assignment in fi
    (value_expr is None for bindings that are not plain: for-targets, with, aug)."""
    out = []
    for n in fi.walk():
        if isinstance(n, ast.Assign):
            for t in n.targets:
                if isinstance(t, ast.Name) and t.id == name:
                    out.append((n.value, n))
                elif isinstance(t, (ast.Tuple, ast.List)):
                    for i, e in enumerate(t.elts):
                        if isinstance(e, ast.Name) and e.id == name:
                            if isinstance(n.value, (ast.Tuple, ast.List)) and len(n.value.elts) == len(t.elts):
                                out.append((n.value.elts[i], n))
                            else:
                                out.append((None, n))
        elif isinstance(n, ast.AnnAssign) and isinstance(n.target, ast.Name) and n.target.id == name:
            if n.value is not None:
                out.append((n.value, n))
        elif isinstance(n, ast.AugAssign) and isinstance(n.target, ast.Name) and n.target.id == name:
            out.append((None, n))
        elif isinstance(n, (ast.For, ast.comprehension)):
            for e in ast.walk(n.target):
                if isinstance(e, ast.Name) and e.id == name:
                    out.append((None, n))
        elif isinstance(n, ast.NamedExpr) and n.target.id == name:
            out.append((n.value, n))
        elif isinstance(n, ast.withitem) and n.optional_vars is not None:
            for e in ast.walk(n.optional_vars):
                if isinstance(e, ast.Name) and e.id == name:
                    out.append((None, n))
    return out


def expand(fi: FuncInfo, expr: ast.AST, depth: int = 6, _seen=None, skip=()) -> ast.AST:
    """Substitute local names that have exactly one plain definition in fi by
    that definition (recursively, bounded).  Gives a 'provenance term'."""
    import copy
    _seen = _seen or set()

    class Sub(ast.NodeTransformer):
        def visit_Name(self, n):
            if isinstance(n.ctx, ast.Load) and n.id not in _seen and depth > 0 and n.id not in fi.params() and n.id not in skip:
                ds = local_defs(fi, n.id)
                if ds and all(d[0] is not None for d in ds) and len({unparse(d[0]) for d in ds}) == 1:
                    return expand(fi, copy.deepcopy(ds[0][0]), depth - 1, _seen | {n.id}, skip)
                rd = reaching_def(fi, n.id, n, ds)
                if rd is not None:
                    return expand(fi, copy.deepcopy(rd), depth - 1, _seen | {n.id}, skip)
            return n

        def visit_Lambda(self, n):
            return n

    return Sub().visit(copy.deepcopy(expr))


def reaching_def(fi: FuncInfo, name: str, use, ds=None):
    """The plain definition of `name` that reaches `use` when that is decidable on the
    statement tree: the last definition before the use whose enclosing compound
    statements all enclose the use as well (so it dominates the use), with no
    later non-dominating definition in between."""
    ds = ds if ds is not None else local_defs(fi, name)
    pos = (getattr(use, "lineno", 0), getattr(use, "col_offset", 0))
    if any(not hasattr(st, "lineno") for _, st in ds):
        return None
    before = [(v, st) for v, st in ds if (st.lineno, st.col_offset) < pos and not any(x is use for x in ast.walk(st))]
    if not before:
        return None
    before.sort(key=lambda d: (d[1].lineno, d[1].col_offset))
    v, st = before[-1]
    if v is None:
        return None
    # find the original use node's enclosing chain by position (expanded copies keep positions)
    def chain(node):
        out = []
        cur = node
        while cur in fi.parents:
            cur = fi.parents[cur]
            if isinstance(cur, (ast.If, ast.For, ast.While, ast.Try, ast.With)):
                out.append(cur)
        return out
    use_orig = None
    for x in fi.walk():
        if isinstance(x, ast.Name) and x.id == name and isinstance(x.ctx, ast.Load) and (x.lineno, x.col_offset) == pos:
            use_orig = x
    if use_orig is None:
        return None
    uc = chain(use_orig)
    if all(any(c is u for u in uc) for c in chain(st)):
        return v
    return None


def term(fi: FuncInfo, expr: ast.AST) -> str:
    return unparse(expand(fi, expr))
