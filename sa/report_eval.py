"""Round trip of a report through the repo's writer and reader, evaluated by the abstract interpreter.

The report is built by interpreting the repo's own constructors (Codebase.add_file, aggregate ...). Every string field
carries a distinct tag and characters that need escaping in JSON (quote, backslash, control characters, non-ASCII, U+2028);
every number is distinct.  json.dumps / json.loads are the real library functions (trusted); everything else is the repo's
source text interpreted.  A field that is pasted without escaping, a key the reader does not find, a value restored from the
wrong place or a difference between the pretty and the compact form shows up as a concrete difference."""
from __future__ import annotations

import json

from .absint import BoundFunc, MiniInterp, PyRaise, Sym, Unknown
from .core import AnalysisError, Project

NASTY = 'q"uote\\back\nnl\ttabé ls\x01'


def tag(name: str) -> str:
    return f"{name}:{NASTY}:{name}"


class ReportLab:
    def __init__(self, prj: Project):
        self.prj = prj
        self.it = MiniInterp(prj, self.hook, max_steps=2_000_000, max_depth=80)
        c = prj.cls
        self.Report = c("codelimit.common.report.Report:Report")
        self.Codebase = c("codelimit.common.Codebase:Codebase")
        self.Entry = c("codelimit.common.SourceFileEntry:SourceFileEntry")
        self.Measurement = c("codelimit.common.Measurement:Measurement")
        self.Location = c("codelimit.common.Location:Location")
        self.Repo = c("codelimit.common.GithubRepository:GithubRepository")
        self.Writer = c("codelimit.common.report.ReportWriter:ReportWriter")
        self.from_json = prj.func("codelimit.common.report.ReportReader:ReportReader.from_json")
        self.anchor = self.from_json

    def hook(self, it, kind, f, args, kwargs, node, cur):
        if kind == "call" and isinstance(f, tuple) and f and f[0] == "external":
            base = f[1].replace(":", ".").split(".")[-1]
            if base == "uuid4":
                return "generated-uuid"
            if base == "now":
                return Sym("now", _open=True)
        if kind == "call" and isinstance(f, tuple) and f and f[0] == "method" and isinstance(f[1], Sym) and f[1].name.startswith("now"):
            return "generated-timestamp"
        return NotImplemented

    def new(self, ci, *args, **kwargs):
        return self.it.construct(ci, list(args), kwargs, None, self.anchor)

    def call(self, obj, name, *args):
        m = obj.cls.find_method(name)
        if m is None:
            raise Unknown(f"{obj.cls.name}.{name} not found")
        return self.it.call(self.prj.func(m.qual), list(args), {}, self_obj=obj)

    def sample(self, with_repo: bool, version):
        n = [10]

        def num():
            n[0] += 1
            return n[0]
        cb = self.new(self.Codebase, tag("root"))
        files = [("src/pkg " + tag("d1") + "/a.py", "Python"), ("src/pkg " + tag("d1") + "/sub/" + tag("f2") + ".js", "JavaScript"),
                 (tag("top") + ".py", "Python"),
                 # strings with only one of the characters that need escaping (a backslash but no quote, a quote but no backslash)
                 ("only\\backslash/w.py", "Python"), ('only"quote/v.py', "Python")]
        sums = []
        for path, lang in files:
            ms = []
            for k in range(2):
                uname = tag(f"fn{k}") if "only" not in path else ("\\u0061bc" if "backslash" in path else 'say"hi')
                ms.append(self.new(self.Measurement, uname, self.new(self.Location, num(), num()), self.new(self.Location, num(), num()),
                                   [7, 40][k] + num() % 3))
            loc = sum(m.fields["value"] for m in ms)
            # the first two files have the same content (one checksum) but another name, language and other functions: what is
            # written for a file is that file's entry, not whatever was written for equal bytes
            sums.append(sums[0] if len(sums) == 1 else tag("sum") + str(num()))
            e = self.new(self.Entry, path, sums[-1], lang, loc, ms)
            self.call(cb, "add_file", e)
        self.call(cb, "aggregate")
        if with_repo == "empty":
            repo = self.new(self.Repo, "", "", "")         # the empty string is a string too
        else:
            repo = self.new(self.Repo, tag("owner"), tag("name"), tag("branch")) if with_repo else None
        rep = self.new(self.Report, cb, repo) if with_repo else self.new(self.Report, cb)
        rep.fields["uuid"] = tag("uuid")
        rep.fields["timestamp"] = "2026-01-01T00:00:00+00:00"
        rep.fields["version"] = version
        return rep

    def write(self, report, pretty: bool) -> str:
        w = self.new(self.Writer, report, pretty)
        t = self.call(w, "to_json")
        if not isinstance(t, str):
            raise Unknown(f"to_json() evaluates to {t!r}, not to a string")
        return t

    def read(self, text: str):
        return self.it.call(self.from_json, [text], {})

    def snapshot(self, rep) -> dict:
        f = rep.fields
        cb = f["codebase"].fields
        repo = f.get("repository")
        out = dict(version=f.get("version"), uuid=f.get("uuid"), root=cb.get("root"),
                   repository=None if repo is None else {k: v for k, v in repo.fields.items()})
        files = []
        for path, e in cb["files"].items():
            ef = e.fields
            ms = [(m.fields["unit_name"], m.fields["start"].fields["line"], m.fields["start"].fields["column"],
                   m.fields["end"].fields["line"], m.fields["end"].fields["column"], m.fields["value"]) for m in self.call(e, "measurements")]
            files.append((path, ef.get("path"), self.call(e, "checksum"), ef.get("language"), ef.get("loc"), ms))
        out["files"] = files
        out["totals"] = {k: {a: v.fields[a] for a in ("files", "loc", "functions", "hard_to_maintain", "unmaintainable")} for k, v in cb["totals"].items()}
        tree = {}
        for k, folder in cb["tree"].items():
            ents = []
            for x in folder.fields["entries"]:
                ents.append((x.fields.get("name", x.fields.get("path")), bool(self.call(x, "is_folder"))))
            tree[k] = (ents, list(folder.fields["profile"]))
        out["tree"] = tree
        return out


def first_difference(a, b, path="") -> str | None:
    if type(a) is not type(b):
        return f"{path or 'value'}: {a!r} vs {b!r}"
    if isinstance(a, dict):
        if list(a) != list(b):
            return f"{path or 'value'}: keys {list(a)!r} vs {list(b)!r}"
        for k in a:
            d = first_difference(a[k], b[k], f"{path}/{k}")
            if d:
                return d
        return None
    if isinstance(a, (list, tuple)):
        if len(a) != len(b):
            return f"{path or 'value'}: {len(a)} vs {len(b)} elements"
        for i, (x, y) in enumerate(zip(a, b)):
            d = first_difference(x, y, f"{path}[{i}]")
            if d:
                return d
        return None
    return None if a == b else f"{path or 'value'}: {a!r} vs {b!r}"
