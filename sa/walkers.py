"""Directory-walk analysis shared by C03, C11 and C12: the two os.walk loops
(Scanner.scan_path and commands.check.check_command), their hidden-name
pruning, exclusion test, language gate and analysing call."""
from __future__ import annotations

import ast
from typing import Optional

from .core import (AnalysisError, FuncInfo, Guard, Project, attr_chain, const_int, const_str, enclosing, expand,
                   guards_of, local_defs, term, try_handlers_covering, handler_names, unparse)


class Unsupported(Exception):
    pass


def eval_name_pred(expr, var: str, value: str):
    """Fold a predicate over a file/directory name for one concrete sample name
    (the predicate classes {starts with '.', does not} are each represented)."""
    def ev(n):
        if isinstance(n, ast.Constant):
            return n.value
        if isinstance(n, ast.Name):
            if n.id == var:
                return value
            raise Unsupported(f"free name {n.id}")
        if isinstance(n, ast.Subscript):
            base = ev(n.value)
            if isinstance(n.slice, ast.Slice):
                lo = ev(n.slice.lower) if n.slice.lower is not None else None
                hi = ev(n.slice.upper) if n.slice.upper is not None else None
                return base[lo:hi]
            idx = ev(n.slice)
            try:
                return base[idx]
            except IndexError:
                raise Unsupported("index error on empty name")
        if isinstance(n, ast.UnaryOp) and isinstance(n.op, ast.Not):
            return not ev(n.operand)
        if isinstance(n, ast.UnaryOp) and isinstance(n.op, ast.USub):
            return -ev(n.operand)
        if isinstance(n, ast.BoolOp):
            vals = [ev(v) for v in n.values]
            return all(vals) if isinstance(n.op, ast.And) else any(vals)
        if isinstance(n, ast.Compare) and len(n.ops) == 1:
            a, b = ev(n.left), ev(n.comparators[0])
            op = type(n.ops[0])
            return {ast.Eq: a == b, ast.NotEq: a != b, ast.In: (a in b) if isinstance(b, (str, list, tuple)) else False,
                    ast.NotIn: (a not in b) if isinstance(b, (str, list, tuple)) else True,
                    ast.Is: a is b, ast.IsNot: a is not b}.get(op, None)
        if isinstance(n, ast.Call) and isinstance(n.func, ast.Attribute) and n.func.attr in ("startswith", "endswith") and len(n.args) == 1:
            return getattr(ev(n.func.value), n.func.attr)(ev(n.args[0]))
        if isinstance(n, (ast.Tuple, ast.List)):
            return [ev(e) for e in n.elts]
        raise Unsupported(unparse(n))
    return ev(expr)


SAMPLES = [(".git", True), (".x", True), ("..a", True), (".", True), ("a", False), ("a.b", False), ("x.", False), ("_x", False), ("node_modules", False)]


def classify_hidden_pred(expr, var: str, keeps_when_true: bool) -> str:
    """'exact' if the predicate keeps exactly the names not starting with '.', else a description."""
    # a conjunction: conjuncts that are not pure tests of the name are additional criteria
    if isinstance(expr, ast.BoolOp) and isinstance(expr.op, ast.And) and keeps_when_true:
        pure, extra = [], []
        for v in expr.values:
            names = {n.id for n in ast.walk(v) if isinstance(n, ast.Name)}
            calls = [c for c in ast.walk(v) if isinstance(c, ast.Call) and not (isinstance(c.func, ast.Attribute) and c.func.attr in ("startswith", "endswith"))]
            (extra if (names - {var}) or calls else pure).append(v)
        if extra:
            base = "exact"
            if pure:
                base = classify_hidden_pred(pure[0] if len(pure) == 1 else ast.BoolOp(op=ast.And(), values=pure), var, True)
            more = " and ".join(unparse(e) for e in extra)
            return (f"besides the dot test, names are also dropped unless `{more[:90]}`: entries below a directory pruned this way "
                    f"are never tested individually" + ("" if base == "exact" else f"; and {base}"))
    lits = {n.value for n in ast.walk(expr) if isinstance(n, ast.Constant) and isinstance(n.value, str)}
    try:
        for name, hidden in SAMPLES:
            r = bool(eval_name_pred(expr, var, name))
            kept = r if keeps_when_true else not r
            if kept == hidden:
                return f"name {name!r} is {'kept' if kept else 'dropped'}"
    except Unsupported as e:
        raise AnalysisError(f"hidden-name predicate {unparse(expr)} is outside the understood fragment ({e})")
    if lits - {"."}:
        return f"the predicate also tests other literals {sorted(lits - {'.'})}"
    return "exact"


class Walker:
    def __init__(self, fi: FuncInfo, loop: ast.For):
        self.fi, self.loop = fi, loop
        t = loop.target
        if not (isinstance(t, (ast.Tuple, ast.List)) and len(t.elts) == 3 and all(isinstance(e, ast.Name) for e in t.elts)):
            raise AnalysisError(f"{fi.site(loop)}: os.walk loop target is not (root, dirs, files)")
        self.root, self.dirs, self.files = (e.id for e in t.elts)
        self.W = loop.iter.args[0] if loop.iter.args else None
        derived = {self.files}
        for n in ast.walk(loop):
            if isinstance(n, ast.Assign) and len(n.targets) == 1 and isinstance(n.targets[0], ast.Name):
                v = n.value
                if isinstance(v, ast.Call) and attr_chain(v.func) in ("list", "sorted", "tuple") and v.args:
                    v = v.args[0]
                if isinstance(v, (ast.ListComp, ast.GeneratorExp)) and isinstance(v.generators[0].iter, ast.Name) and v.generators[0].iter.id in derived:
                    derived.add(n.targets[0].id)
        self.derived_files = derived
        self.file_loops = [n for n in ast.walk(loop) if isinstance(n, ast.For) and n is not loop
                           and isinstance(n.iter, ast.Name) and n.iter.id in derived]

    # ---- hidden pruning
    def dirs_pruning(self) -> tuple[str, Optional[ast.AST]]:
        """('inplace'|'rebind'|'none', node)"""
        for st in self.loop.body:
            for n in ast.walk(st):
                if isinstance(n, ast.Assign):
                    for t in n.targets:
                        if isinstance(t, ast.Subscript) and isinstance(t.value, ast.Name) and t.value.id == self.dirs \
                                and isinstance(t.slice, ast.Slice) and t.slice.lower is None and t.slice.upper is None:
                            return "inplace", n
                        if isinstance(t, ast.Name) and t.id == self.dirs:
                            return "rebind", n
                if isinstance(n, ast.Call) and isinstance(n.func, ast.Attribute) and n.func.attr in ("remove", "pop", "clear") \
                        and isinstance(n.func.value, ast.Name) and n.func.value.id == self.dirs:
                    return "inplace-remove", n
                if isinstance(n, ast.Delete):
                    for t in n.targets:
                        if isinstance(t, ast.Subscript) and isinstance(t.value, ast.Name) and t.value.id == self.dirs:
                            return "inplace-remove", n
        return "none", None

    def comp_filter(self, node, src: str):
        """value is [x for x in <src> if pred] -> (var, pred-expr) ; pred conjunction of ifs"""
        v = node.value if isinstance(node, ast.Assign) else node
        if isinstance(v, ast.Name):
            ds = [d for d, _ in local_defs(self.fi, v.id) if d is not None]
            if len(ds) == 1:
                v = ds[0]
        if isinstance(v, ast.Call) and attr_chain(v.func) in ("list", "sorted") and v.args:
            v = v.args[0]
        if isinstance(v, (ast.ListComp, ast.GeneratorExp)) and len(v.generators) == 1:
            g = v.generators[0]
            if isinstance(g.iter, ast.Name) and g.iter.id == src and isinstance(g.target, ast.Name) \
                    and isinstance(v.elt, ast.Name) and v.elt.id == g.target.id:
                if not g.ifs:
                    return g.target.id, None
                pred = g.ifs[0] if len(g.ifs) == 1 else ast.BoolOp(op=ast.And(), values=list(g.ifs))
                return g.target.id, pred
        return None

    def files_filter(self):
        """assignment <name> = [f for f in files if pred] in the walk body, before the per-file loop"""
        for st in self.loop.body:
            if isinstance(st, ast.Assign) and any(isinstance(t, ast.Name) and t.id in self.derived_files for t in st.targets):
                return st
        return None


def find_walkers(fi: FuncInfo) -> list[Walker]:
    out = []
    for n in fi.walk():
        if isinstance(n, ast.For) and isinstance(n.iter, ast.Call) and attr_chain(n.iter.func) in ("os.walk", "walk"):
            out.append(Walker(fi, n))
    return out


def check_hidden(ctx, rid: str, w: Walker, key: str):
    """R: dirs pruned in place and files filtered, both by 'first character is a dot'."""
    fi = w.fi
    kind, node = w.dirs_pruning()
    if kind == "inplace":
        cf = w.comp_filter(node, w.dirs)
        if cf is None:
            raise AnalysisError(f"{fi.site(node)}: in-place pruning of {w.dirs} is not a filter comprehension over it")
        var, pred = cf
        if pred is None:
            ctx.viol(rid, f"{key}/dirs-pruning", fi.site(node), "directories are copied unfiltered: hidden directories are walked")
        else:
            c = classify_hidden_pred(pred, var, True)
            if c == "exact":
                ctx.ok(rid, fi.site(node), f"{key}: {w.dirs}[:] pruned in place by 'first char is not a dot'")
            else:
                ctx.viol(rid, f"{key}/dirs-pruning", fi.site(node), f"directory pruning predicate {unparse(pred)} is not 'does not start with a dot': {c}")
    elif kind == "rebind":
        ctx.viol(rid, f"{key}/dirs-pruning", fi.site(node),
                 f"`{unparse(node)[:70]}` rebinds the local name {w.dirs}; os.walk only honours in-place edits "
                 f"({w.dirs}[:] = ...), so hidden directories are still descended into")
    elif kind == "inplace-remove":
        raise AnalysisError(f"{fi.site(node)}: element-wise in-place pruning of {w.dirs} is not modelled")
    else:
        ctx.viol(rid, f"{key}/dirs-pruning", fi.site(w.loop), "the directory list of os.walk is never pruned: hidden directories are walked")
    ff = w.files_filter()
    if ff is not None:
        src = [x.id for x in ast.walk(ff.value) if isinstance(x, ast.Name) and x.id in w.derived_files]
        cf = w.comp_filter(ff, src[0] if src else w.files)
        if cf is None:
            raise AnalysisError(f"{fi.site(ff)}: {w.files} is reassigned by something other than a filter comprehension over it")
        var, pred = cf
        c = classify_hidden_pred(pred, var, True) if pred is not None else "no filter"
        if c == "exact":
            ctx.ok(rid, fi.site(ff), f"{key}: {w.files} filtered by 'first char is not a dot' before the per-file loop")
        else:
            ctx.viol(rid, f"{key}/files-filter", fi.site(ff), f"file filter {unparse(pred) if pred is not None else ''} is not 'does not start with a dot': {c}")
    else:
        # accepted alternative: `if file[0] == '.': continue` at the head of the per-file loop
        done = False
        for fl in w.file_loops:
            v = fl.target.id if isinstance(fl.target, ast.Name) else None
            for st in fl.body:
                if isinstance(st, ast.If) and v and v in {n.id for n in ast.walk(st.test) if isinstance(n, ast.Name)}:
                    from .core import body_exits
                    lits = {n.value for n in ast.walk(st.test) if isinstance(n, ast.Constant) and isinstance(n.value, str)}
                    if lits != {"."}:
                        continue
                    if body_exits(st.body) == "continue" and not st.orelse:
                        c = classify_hidden_pred(st.test, v, False)
                    elif not body_exits(st.body) and st is fl.body[-1] or (len(fl.body) == 1):
                        c = classify_hidden_pred(st.test, v, True)      # `if not hidden: <whole rest of the body>`
                    else:
                        continue
                    if c == "exact":
                        ctx.ok(rid, fi.site(st), f"{key}: hidden files skipped at the head of the per-file loop")
                        done = True
                    else:
                        ctx.viol(rid, f"{key}/files-filter", fi.site(st), f"per-file hidden test {unparse(st.test)} is not 'starts with a dot': {c}")
                        done = True
        if not done:
            ctx.viol(rid, f"{key}/files-filter", fi.site(w.loop), "files whose name starts with a dot are not filtered out")
    # the per-file loop must iterate the filtered name
    if not w.file_loops:
        raise AnalysisError(f"{fi.site(w.loop)}: no per-file loop over {w.files} found")


def analysing_calls(prj: Project, w: Walker, callee_names: tuple[str, ...]) -> list[ast.Call]:
    out = []
    for fl in w.file_loops:
        for c in ast.walk(fl):
            if isinstance(c, ast.Call):
                nm = prj.resolve_callee_name(w.fi, c)
                if any(nm.endswith(":" + x) for x in callee_names):
                    out.append(c)
    return out


def excluded_wrapper(prj: Project, fi: FuncInfo, call: ast.Call):
    """If `call` invokes a project predicate all of whose returns are False or (bool of) is_excluded(<path relative to
    cwd/root>, <spec parameter>): the inner is_excluded call with the spec argument mapped to the caller's argument."""
    import copy
    tg, kind = prj.resolve_call(fi, call)
    if kind not in ("direct", "self") or len(tg) != 1:
        return None
    h = prj.func(tg[0].qual)          # inlined view of the helper
    rets = [r.value for r in h.walk() if isinstance(r, ast.Return) and r.value is not None]
    if not rets:
        return None
    inner = None
    for r in rets:
        r = expand(h, r)
        while isinstance(r, ast.Call) and attr_chain(r.func) == "bool" and r.args:
            r = r.args[0]
        if isinstance(r, ast.Constant) and r.value in (False, None):
            continue
        if isinstance(r, ast.Call) and prj.resolve_callee_name(h, r).endswith(":is_excluded") and len(r.args) >= 2:
            inner = r
            continue
        return None
    if inner is None:
        return None
    params = h.params()
    bound = dict(zip(params, call.args))
    for k in call.keywords:
        if k.arg:
            bound[k.arg] = k.value

    class S(ast.NodeTransformer):
        def visit_Name(self, n):
            return copy.deepcopy(bound[n.id]) if n.id in bound and isinstance(n.ctx, ast.Load) else n
    return S().visit(copy.deepcopy(inner))


def classify_guard(prj: Project, fi: FuncInfo, g: Guard) -> tuple[str, Optional[ast.Call]]:
    """What a guard on the way to the analysing call is about."""
    t = g.test
    neg = not g.polarity
    # `path.is_absolute() or <X>` that holds: for relative paths X holds
    if isinstance(t, ast.BoolOp) and isinstance(t.op, ast.Or) and not neg:
        rest = [v for v in t.values if "is_absolute()" not in unparse(v)]
        if len(rest) == 1 and len(rest) < len(t.values):
            return classify_guard(prj, fi, Guard(rest[0], True, g.origin))
    # `not path.is_absolute() and <X>` that does NOT hold: for relative paths X does not hold
    if isinstance(t, ast.BoolOp) and isinstance(t.op, ast.And) and neg:
        rest = [v for v in t.values if "is_absolute()" not in unparse(v)]
        if len(rest) == 1 and len(rest) < len(t.values):
            return classify_guard(prj, fi, Guard(rest[0], False, g.origin))
    while isinstance(t, ast.UnaryOp) and isinstance(t.op, ast.Not):
        t = t.operand
        neg = not neg
    if isinstance(t, ast.Call):
        nm = prj.resolve_callee_name(fi, t)
        if nm.endswith(":is_excluded"):
            return ("not-excluded" if neg else "excluded-only"), t
        if nm.endswith(".match_file"):
            return ("not-excluded" if neg else "excluded-only"), t
        w = excluded_wrapper(prj, fi, t)
        if w is not None:
            return ("not-excluded" if neg else "excluded-only"), w
    if isinstance(t, ast.Compare) and len(t.ops) == 1 and isinstance(t.ops[0], (ast.In, ast.NotIn)):
        right = term(fi, t.comparators[0])
        if "Languages.by_name" in right:
            pos = isinstance(t.ops[0], ast.In) != neg
            return ("language-supported" if pos else "language-unsupported-only"), None
    # language = Languages.by_name.get(name); if language: ... / if language is not None
    tt = t
    flip = False
    if isinstance(tt, ast.Compare) and len(tt.ops) == 1 and isinstance(tt.ops[0], (ast.Is, ast.IsNot, ast.Eq, ast.NotEq)) \
            and isinstance(tt.comparators[0], ast.Constant) and tt.comparators[0].value is None:
        flip = isinstance(tt.ops[0], (ast.Is, ast.Eq))
        tt = tt.left
    if isinstance(tt, (ast.Name, ast.Call, ast.Subscript)):
        tx = term(fi, tt)
        if "Languages.by_name.get(" in tx or (isinstance(tt, ast.Name) and "Languages.by_name[" in tx and False):
            pos = (not neg) != flip
            return ("language-supported" if pos else "language-unsupported-only"), None
    if getattr(g, "expanded", False):
        return "flag", None
    # a per-file / per-name dot test: `if file.startswith('.'): continue`
    names = {n.id for n in ast.walk(t) if isinstance(n, ast.Name)}
    lits = {n.value for n in ast.walk(t) if isinstance(n, ast.Constant) and isinstance(n.value, str)}
    if len(names) == 1 and lits == {"."}:
        v = next(iter(names))
        try:
            c = classify_hidden_pred(t, v, keeps_when_true=not neg)
        except AnalysisError:
            c = None
        if c == "exact":
            return "not-hidden", None
    return "other:" + unparse(g.test), None
