"""The scan cache evaluated: scan_path with a cached report object (which entries are reused, which files are read again),
_read_cached_report and read_report on cache documents of the running version, another version, without a version key and
with version null."""
from __future__ import annotations

import json

from .absint import MiniInterp, PyRaise, Sym, T, Unknown
from .core import Project
from .fsmodel import VFS, PathV, fs_hook
from . import walk_eval as W
from .report_eval import ReportLab


def current_version(prj: Project):
    rep = prj.cls("codelimit.common.report.Report:Report")
    it = MiniInterp(prj)
    v = it.getattr(T("class", rep), "VERSION", next(iter(rep.methods.values())), None)
    if not isinstance(v, str):
        raise Unknown(f"Report.VERSION evaluates to {v!r}")
    return v


def cached_scan(prj: Project):
    """-> (entries {key: (loc, [values], checksum)}, files read, keys of the cached codebase after the scan, result is cached object?)"""
    rl = ReportLab(prj)
    cb = rl.new(rl.Codebase, W.ROOT)

    def entry(rel, checksum, lang, vals):
        ms = [rl.new(rl.Measurement, f"c{i}", rl.new(rl.Location, 1, 1), rl.new(rl.Location, 9, 1), v) for i, v in enumerate(vals)]
        return rl.new(rl.Entry, rel, checksum, lang, sum(vals), ms)
    cached = {
        "a.py": entry("a.py", "sum:/w/proj/a.py", "Python", [55, 44]),              # unchanged file: reuse
        "d.js": entry("d.js", "sum:OTHER", "JavaScript", [11, 12]),                 # changed file: analyse again
        "s.py": entry("s.py", "sum:/w/proj/sub/s.py", "Python", [70]),              # same bytes recorded under ANOTHER path: must not be used for sub/s.py
        "ghost.py": entry("ghost.py", "sum:/w/proj/ghost.py", "Python", [13]),      # file that no longer exists
        "skip.py": entry("skip.py", "sum:/w/proj/skip.py", "Python", [21]),         # now excluded
    }
    for e in cached.values():
        rl.call(cb, "add_file", e)
    rep = rl.new(rl.Report, cb)
    rep.fields["version"] = current_version(prj)
    before = list(cb.fields["files"])
    lab = W.Lab(prj, W.ROOT, deep=True)
    lab.run("codelimit.common.Scanner:scan_path", [PathV(W.ROOT), rep])
    res = lab.result
    if not isinstance(res, Sym) or not isinstance(res.fields.get("files"), dict):
        raise Unknown("scan_path does not return a codebase")
    out = {}
    for key, e in res.fields["files"].items():
        m = e.cls.find_method("measurements")
        ms = lab.interp.call(prj.func(m.qual), [], {}, self_obj=e)
        ck = e.cls.find_method("checksum")
        out[key] = (e.fields.get("loc"), [x.fields.get("value") for x in ms], lab.interp.call(prj.func(ck.qual), [], {}, self_obj=e), e.fields.get("language"))
    return out, sorted(set(lab.vfs.read_log)), (before, list(cb.fields["files"])), res is cb


def cache_documents(prj: Project):
    """-> {case: JSON text} of a small report written by the interpreted writer, with the version field varied"""
    rl = ReportLab(prj)
    rep = rl.sample(False, current_version(prj))
    try:
        doc = json.loads(rl.write(rep, True))
    except ValueError as e:
        # the writer's own defect (decided by C08's round trip); nothing about the cache can be observed on such a document
        raise Unknown(f"the document the interpreted writer produces is not valid JSON ({e})")
    out = {"running version": json.dumps(doc)}
    d = dict(doc)
    d["version"] = "0.0.1-other"
    out["another version"] = json.dumps(d)
    cur = current_version(prj)
    parts = cur.split(".")
    bumped = ".".join(parts[:-1] + [str(int(parts[-1]) + 1)]) if parts[-1].isdigit() else cur + ".1"
    d = dict(doc)
    d["version"] = bumped
    out[f"another patch release ({bumped})"] = json.dumps(d)
    d = dict(doc)
    d["version"] = cur + " "
    out["the running version followed by a blank"] = json.dumps(d)
    d = dict(doc)
    d.pop("version")
    out["no version key"] = json.dumps(d)
    d = dict(doc)
    d["version"] = None
    out["version null"] = json.dumps(d)
    out["not JSON"] = "{ truncated"
    return out


def read_cached(prj: Project, text, want_object: bool = False):
    """_read_cached_report on a cache file with this text (None: file absent) -> 'report' | 'none' | 'raises <name>'"""
    fi = prj.func("codelimit.commands.scan:_read_cached_report")
    vfs = VFS({"/r": ([".codelimit_cache"], []), "/r/.codelimit_cache": ([], ["codelimit.json"] if text is not None else [])}, "/r")
    if text is not None:
        vfs.texts["/r/.codelimit_cache/codelimit.json"] = text
    fs = fs_hook(vfs)
    rl = ReportLab(prj)

    def hook(it, kind, f, args, kwargs, node, cur):
        r = fs(it, kind, f, args, kwargs, node, cur)
        if r is not NotImplemented:
            return r
        return rl.hook(it, kind, f, args, kwargs, node, cur)
    it = MiniInterp(prj, hook, max_steps=2_000_000, max_depth=80)
    try:
        r = it.call(fi, [PathV("/r/.codelimit_cache/codelimit.json")], {})
    except PyRaise as e:
        return f"raises {e.name}"
    if want_object:
        return r
    return "none" if r is None else "report"


def entries_of(prj: Project, report):
    """{path: (checksum, language, loc, [(name, value, start, end)])} of the files a (cached) report offers for reuse"""
    it = MiniInterp(prj, max_steps=200000, max_depth=40)
    cb = report.fields.get("codebase") if isinstance(report, Sym) else None
    files = cb.fields.get("files") if isinstance(cb, Sym) else None
    if not isinstance(files, dict):
        raise Unknown("the report read from the cache has no codebase.files dictionary")
    out = {}
    for key, e in files.items():
        def get(name):
            m = e.cls.find_method(name) if e.cls else None
            if m is not None and not m.is_property():
                return it.call(prj.func(m.qual), [], {}, self_obj=e)
            return it.getattr(e, name, next(iter(prj.funcs.values())), None)
        ms = []
        for x in get("measurements"):
            f = x.fields
            loc = lambda l: (l.fields.get("line"), l.fields.get("column")) if isinstance(l, Sym) else l
            ms.append((f.get("unit_name"), f.get("value"), loc(f.get("start")), loc(f.get("end"))))
        out[key] = (get("checksum"), e.fields.get("language"), e.fields.get("loc"), ms)
    return out


def key_paths(doc, prefix=()):
    """every key of every dictionary of a JSON document, as a path"""
    if isinstance(doc, dict):
        for k, v in doc.items():
            yield prefix + (k,)
            yield from key_paths(v, prefix + (k,))
    elif isinstance(doc, list):
        for i, v in enumerate(doc):
            yield from key_paths(v, prefix + (i,))


def without(doc, path):
    import copy
    d = copy.deepcopy(doc)
    cur = d
    for k in path[:-1]:
        cur = cur[k]
    del cur[path[-1]]
    return d


def read_report(prj: Project, text):
    """utils.read_report on a report file -> 'report' | 'exit' | 'raises <name>'"""
    from .evalsite import Run, _hook
    fi = prj.func("codelimit.utils:read_report")
    vfs = VFS({"/r": ([], ["codelimit.json"] if text is not None else [])}, "/r")
    if text is not None:
        vfs.texts["/r/codelimit.json"] = text
    fs = fs_hook(vfs)
    rl = ReportLab(prj)
    eff = _hook(Run())

    def hook(it, kind, f, args, kwargs, node, cur):
        for h in (fs, rl.hook, eff):
            r = h(it, kind, f, args, kwargs, node, cur)
            if r is not NotImplemented:
                return r
        return NotImplemented
    it = MiniInterp(prj, hook, max_steps=2_000_000, max_depth=80)
    try:
        r = it.call(fi, [PathV("/r/codelimit.json"), Sym("console", _open=True)], {})
    except PyRaise as e:
        return "exit" if e.name == "Exit" else f"raises {e.name}"
    return "report" if isinstance(r, Sym) else f"returns {r!r}"
