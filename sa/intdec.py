"""E4: integer decision extractor.

For a function and a designated integer-valued *subject* expression (e.g. `m.value`,
or a parameter that receives a function length) it computes, for a concrete
integer v, the *residual* of the function: the syntax tree with every test that
depends only on the subject and on integer literals folded (if/elif/else chains,
conditional expressions, comprehension filters, and/or/not, chained
comparisons), and dead code after return/continue/raise removed.

Tests of the form `subject <op> literal` are piecewise constant with break
points only at the literals, so evaluating the residual at every integer between
(min literal - 1) and (max literal + 1) enumerates every region of Z exactly:
this is conditional constant propagation over a finite partition, not a run of
the code (nothing is executed; calls, loops and data are left symbolic).
"""
from __future__ import annotations

import ast
import copy
from typing import Callable, Optional

from .core import FuncInfo, Project, const_int, unparse, walk_local, attr_chain

SPEC_CUTS = (15, 30, 60)


def category(v: int) -> int:
    """Specification: 0 easy (<=15), 1 verbose (16..30), 2 hard (31..60), 3 unmaintainable (>60)."""
    return 0 if v <= 15 else 1 if v <= 30 else 2 if v <= 60 else 3


CAT_NAMES = ["easy(<=15)", "verbose(16..30)", "hard-to-maintain(31..60)", "unmaintainable(>60)"]


def _names_assigned(stmts) -> set[str]:
    out = set()
    for st in stmts:
        for n in ast.walk(st):
            if isinstance(n, ast.Name) and isinstance(n.ctx, ast.Store):
                out.add(n.id)
    return out


class Specializer(ast.NodeTransformer):
    """Conditional constant propagation for one valuation of the subject(s).

    Folds: tests on the subject(s) and integer literals; local names that hold a
    constant on every path reaching the use (flow-sensitive, killed by
    assignments in undecided branches and loops); IfExp / comprehension filters;
    calls of pure integer functions on constant arguments (bisect_*, min, max,
    len/sum of a literal list, int, abs); calls of project functions whose folded
    body returns one constant for the given constant arguments (helper inlining,
    depth-bounded)."""

    def __init__(self, is_subject: Callable[[ast.AST], bool] | None, v: int = 0,
                 consts: dict[str, int] | None = None, valuation: Callable[[ast.AST], object] | None = None,
                 prj: Project | None = None, fi: FuncInfo | None = None, depth: int = 0):
        self.valuation = valuation
        self.is_subject = is_subject if is_subject is not None else (lambda n: valuation(n) is not None)
        self.v = v
        self.consts = dict(consts or {})      # fixed (parameters bound by the caller)
        self.env: dict[str, object] = {}      # flow-sensitive local constants
        self.decided = 0
        self.prj, self.fi, self.depth = prj, fi, depth

    # ---- value of an expression, if determined (int | bool | tuple of ints)
    def cval(self, n):
        if self.valuation is not None:
            x = self.valuation(n)
            if x is not None:
                return x
        elif self.is_subject(n):
            return self.v
        if isinstance(n, ast.Constant) and isinstance(n.value, (int, bool)) :
            return n.value
        c = const_int(n)
        if c is not None:
            return c
        if isinstance(n, ast.Name):
            if n.id in self.env:
                return self.env[n.id]
            if n.id in self.consts:
                return self.consts[n.id]
            if self.fi is not None and n.id in self.fi.module.assigns and n.id not in self.fi.params():
                return self.cval(self.fi.module.assigns[n.id]) if self.depth < 4 else None
            return None
        if isinstance(n, (ast.List, ast.Tuple)):
            vals = [self.cval(e) for e in n.elts]
            if all(isinstance(x, int) for x in vals):
                return tuple(vals)
            return None
        if isinstance(n, ast.BinOp) and isinstance(n.op, (ast.Add, ast.Sub)):
            a, b = self.cval(n.left), self.cval(n.right)
            if isinstance(a, int) and isinstance(b, int):
                return a + b if isinstance(n.op, ast.Add) else a - b
            return None
        if isinstance(n, ast.IfExp):
            t = self.truth(n.test)
            if t is not None:
                return self.cval(n.body if t else n.orelse)
            return None
        if isinstance(n, ast.Compare) or isinstance(n, ast.BoolOp) or (isinstance(n, ast.UnaryOp) and isinstance(n.op, ast.Not)):
            return self.truth(n)
        if isinstance(n, ast.Call):
            return self.call_value(n)
        return None

    def ival(self, n) -> Optional[int]:
        x = self.cval(n)
        if isinstance(x, bool):
            return None
        return x if isinstance(x, int) else None

    def call_value(self, n: ast.Call):
        name = attr_chain(n.func) or ""
        base = name.split(".")[-1]
        args = [self.cval(a) for a in n.args]
        if n.keywords:
            return None
        if base in ("bisect_right", "bisect", "bisect_left") and len(args) == 2 and isinstance(args[0], tuple) and isinstance(args[1], int) \
                and not isinstance(args[1], bool):
            import bisect
            return getattr(bisect, base)(list(args[0]), args[1])
        if base in ("min", "max") and args and all(isinstance(a, int) and not isinstance(a, bool) for a in args):
            return min(args) if base == "min" else max(args)
        if base in ("len", "sum") and len(args) == 1 and isinstance(args[0], tuple):
            return len(args[0]) if base == "len" else sum(args[0])
        if base in ("int", "abs") and len(args) == 1 and isinstance(args[0], int):
            return int(args[0]) if base == "int" else abs(args[0])
        if base == "bool" and len(args) == 1 and isinstance(args[0], (int, bool)):
            return bool(args[0])
        # project helper: fold its body for these constant arguments
        if self.prj is not None and self.fi is not None and self.depth < 3 and args and all(isinstance(a, (int, bool)) for a in args):
            tg, kind = self.prj.resolve_call(self.fi, n)
            if kind == "direct" and len(tg) == 1:
                callee = tg[0]
                params = callee.params()
                if len(params) == len(args):
                    bound = dict(zip(params, args))
                    sub = Specializer(None, valuation=lambda x: bound.get(x.id) if isinstance(x, ast.Name) and isinstance(x.ctx, ast.Load) else None,
                                      prj=self.prj, fi=callee, depth=self.depth + 1)
                    tree = sub.visit(copy.deepcopy(callee.node))
                    if tree.body and isinstance(tree.body[-1], ast.Return) and tree.body[-1].value is not None \
                            and not any(isinstance(x, (ast.If, ast.For, ast.While, ast.Try)) for x in tree.body):
                        return sub.cval(tree.body[-1].value)
        return None

    def mentions_subject(self, n) -> bool:
        for x in ast.walk(n):
            if self.is_subject(x):
                return True
            if isinstance(x, ast.Name) and x.id in self.env and isinstance(x.ctx, ast.Load):
                return True
        return False

    # ---- three-valued truth of a test
    def truth(self, t) -> Optional[bool]:
        if isinstance(t, ast.Compare):
            vals = [self.cval(t.left)] + [self.cval(c) for c in t.comparators]
            res: Optional[bool] = True
            for i, op in enumerate(t.ops):
                a, b = vals[i], vals[i + 1]
                if not isinstance(a, (int, bool)) or not isinstance(b, (int, bool)):
                    res = None if res is not False else False
                    continue
                r = {ast.Lt: a < b, ast.LtE: a <= b, ast.Gt: a > b, ast.GtE: a >= b,
                     ast.Eq: a == b, ast.NotEq: a != b}.get(type(op))
                if r is None:
                    res = None if res is not False else False
                elif r is False:
                    return False
            return res
        if isinstance(t, ast.BoolOp):
            vs = [self.truth(x) for x in t.values]
            if isinstance(t.op, ast.And):
                if any(x is False for x in vs):
                    return False
                return True if all(x is True for x in vs) else None
            if any(x is True for x in vs):
                return True
            return False if all(x is False for x in vs) else None
        if isinstance(t, ast.UnaryOp) and isinstance(t.op, ast.Not):
            x = self.truth(t.operand)
            return None if x is None else not x
        x = self.cval(t) if not isinstance(t, (ast.Compare, ast.BoolOp)) else None
        if isinstance(x, bool):
            return x
        if isinstance(x, int):
            return x != 0
        return None

    # ---- statements
    def _block(self, stmts):
        out = []
        for s in stmts:
            r = self.visit(s)
            if r is None:
                continue
            if isinstance(r, list):
                out.extend(r)
            else:
                out.append(r)
            if out and isinstance(out[-1], (ast.Return, ast.Raise, ast.Continue, ast.Break)):
                break
        return out

    def visit_Assign(self, node):
        node.value = self.visit(node.value)
        for t in node.targets:
            for nm in ast.walk(t):
                if isinstance(nm, ast.Name):
                    self.env.pop(nm.id, None)
        if len(node.targets) == 1 and isinstance(node.targets[0], ast.Name):
            v = self.cval(node.value)
            if isinstance(v, (int, bool)):
                self.env[node.targets[0].id] = v
        return node

    def visit_AugAssign(self, node):
        node.value = self.visit(node.value)
        if isinstance(node.target, ast.Name):
            self.env.pop(node.target.id, None)
        else:
            node.target = self.visit(node.target)
        return node

    def visit_If(self, node):
        t = self.truth(node.test)
        if t is True:
            self.decided += 1
            return self._block(node.body) or [ast.Pass()]
        if t is False:
            self.decided += 1
            return self._block(node.orelse) or [ast.Pass()]
        node.test = self.visit(node.test)
        before = dict(self.env)
        node.body = self._block(node.body) or [ast.Pass()]
        after_body = self.env
        self.env = dict(before)
        node.orelse = self._block(node.orelse)
        after_else = self.env
        self.env = {k: v for k, v in after_body.items() if k in after_else and after_else[k] == v}
        return node

    def _generic_blocks(self, node):
        for fld in ("body", "orelse", "finalbody"):
            if hasattr(node, fld) and isinstance(getattr(node, fld), list):
                setattr(node, fld, self._block(getattr(node, fld)))
        return node

    def _kill_loop(self, node):
        for nm in _names_assigned(node.body + getattr(node, "orelse", [])):
            self.env.pop(nm, None)

    def visit_For(self, node):
        node.iter = self.visit(node.iter)
        self._kill_loop(node)
        for nm in ast.walk(node.target):
            if isinstance(nm, ast.Name):
                self.env.pop(nm.id, None)
        r = self._generic_blocks(node)
        self._kill_loop(node)
        return r

    def visit_While(self, node):
        self._kill_loop(node)
        node.test = self.visit(node.test)
        r = self._generic_blocks(node)
        self._kill_loop(node)
        return r

    def visit_With(self, node):
        return self._generic_blocks(node)

    def visit_Try(self, node):
        before = dict(self.env)
        for nm in _names_assigned(node.body):
            before.pop(nm, None)
        r = self._generic_blocks(node)
        for h in node.handlers:
            self.env = dict(before)
            h.body = self._block(h.body)
        self.env = {k: v for k, v in before.items() if k not in _names_assigned(sum([h.body for h in node.handlers], []))}
        return r

    def visit_FunctionDef(self, node):
        if self.fi is not None and node is not getattr(self, "_root", None) and getattr(self, "_root", None) is not None:
            return node     # nested definitions are left alone
        self._root = node
        node.body = self._block(node.body) or [ast.Pass()]
        return node

    # ---- expressions
    def visit_IfExp(self, node):
        t = self.truth(node.test)
        if t is True:
            self.decided += 1
            return self.visit(node.body)
        if t is False:
            self.decided += 1
            return self.visit(node.orelse)
        return self.generic_visit(node)

    def _comp(self, node):
        for gen in node.generators:
            new_ifs = []
            for cond in gen.ifs:
                t = self.truth(cond)
                if t is True:
                    self.decided += 1
                    continue
                if t is False:
                    self.decided += 1
                    empty = ast.List(elts=[], ctx=ast.Load())
                    empty._emptied_comp = True   # type: ignore[attr-defined]
                    return empty
                new_ifs.append(cond)
            gen.ifs = new_ifs
        return self.generic_visit(node)

    visit_ListComp = _comp
    visit_SetComp = _comp
    visit_GeneratorExp = _comp

    def _fold(self, node):
        if self.mentions_subject(node):
            x = self.cval(node)
            if isinstance(x, (int, bool)):
                self.decided += 1
                return ast.Constant(value=x)
        return self.generic_visit(node)

    visit_BoolOp = _fold
    visit_Compare = _fold
    visit_Call = _fold
    visit_BinOp = _fold

    def visit_Name(self, node):
        if isinstance(node.ctx, ast.Load) and node.id in self.env:
            return ast.Constant(value=self.env[node.id])
        return node


def residual_multi(fi: FuncInfo, valuation, prj=None) -> ast.AST:
    sp = Specializer(None, valuation=valuation, prj=prj, fi=fi)
    tree = sp.visit(copy.deepcopy(fi.node))
    ast.fix_missing_locations(tree)
    return tree


PRJ = None   # set by LengthFacts: lets the folder inline project helpers


def residual(fi: FuncInfo, is_subject, v: int, consts=None) -> tuple[ast.AST, int]:
    sp = Specializer(is_subject, v, consts, prj=PRJ, fi=fi)
    tree = sp.visit(copy.deepcopy(fi.node))
    ast.fix_missing_locations(tree)
    return tree, sp.decided


def literals_compared(fi: FuncInfo, is_subject, consts=None) -> list[int]:
    """Integer literals (and constant-valued names) the subject is compared with."""
    sp = Specializer(is_subject, 0, consts)
    out = set()
    for n in fi.walk():
        if isinstance(n, ast.Compare):
            ops = [n.left] + list(n.comparators)
            if any(sp.mentions_subject(o) for o in ops):
                for o in ops:
                    if not sp.mentions_subject(o):
                        c = sp.ival(o)
                        if c is not None:
                            out.add(c)
    return sorted(out)


def reachable_int_literals(fi: FuncInfo, is_subject, depth: int = 2, _seen=None) -> set[int]:
    """Integer literals that can act as cut points for the subject: literals in
    fi itself that sit in comparisons or call arguments next to the subject, all
    integer literals of module-level constant lists fi names, and (transitively,
    bounded) every integer literal of project helpers that receive the subject."""
    out = set()
    _seen = _seen or set()
    if fi.qual in _seen:
        return out
    _seen = _seen | {fi.qual}
    for n in fi.walk():
        if isinstance(n, ast.Name) and n.id in fi.module.assigns and n.id not in fi.params():
            for c in ast.walk(fi.module.assigns[n.id]):
                k = const_int(c)
                if k is not None:
                    out.add(k)
        if isinstance(n, ast.Call) and PRJ is not None and depth > 0:
            if any(is_subject(a) for a in n.args):
                tg, kind = PRJ.resolve_call(fi, n)
                if kind == "direct":
                    for t in tg:
                        for c in t.walk():
                            k = const_int(c)
                            if k is not None:
                                out.add(k)
                        out |= reachable_int_literals(t, lambda x: isinstance(x, ast.Name) and x.id in t.params(), depth - 1, _seen)
                for a in n.args:
                    for c in ast.walk(a):
                        k = const_int(c)
                        if k is not None:
                            out.add(k)
    return {k for k in out if -10 <= k <= 100000}


def closure_int_literals(prj, fi: FuncInfo, depth: int = 3, _seen=None) -> set[int]:
    """every integer literal a decision in fi can depend on: literals of fi's view, of the module-level constants it
    names (also through other constants), and of the project functions it calls (bounded depth)"""
    _seen = _seen if _seen is not None else set()
    if fi.qual in _seen or depth < 0:
        return set()
    _seen.add(fi.qual)
    out = set()

    def add_expr(e, mod, d=0):
        for c in ast.walk(e):
            k = const_int(c)
            if k is not None:
                out.add(k)
            if isinstance(c, ast.Name) and d < 3 and c.id in mod.assigns:
                add_expr(mod.assigns[c.id], mod, d + 1)
    for n in fi.walk():
        k = const_int(n)
        if k is not None:
            out.add(k)
        if isinstance(n, ast.Name) and n.id in fi.module.assigns and n.id not in fi.params():
            add_expr(fi.module.assigns[n.id], fi.module)
        if isinstance(n, ast.Name) and n.id in fi.module.imports:
            tgt = prj._resolve_import(fi.module.imports[n.id])
            if isinstance(tgt, tuple) and tgt and tgt[0] == "modattr":
                add_expr(tgt[1].assigns[tgt[2]], tgt[1])
        if isinstance(n, ast.Attribute) and fi.cls is not None and isinstance(n.value, ast.Name) and n.value.id in ("self", "cls", fi.cls.name):
            for c in fi.cls.mro():
                if n.attr in c.class_attrs and c.class_attrs[n.attr] is not None:
                    add_expr(c.class_attrs[n.attr], c.module)
        if isinstance(n, ast.Call):
            tg, kind = prj.resolve_call(fi, n)
            if kind in ("direct", "self", "ctor"):
                for t in tg:
                    out |= closure_int_literals(prj, prj.func(t.qual), depth - 1, _seen)
    return {k for k in out if -10 <= k <= 100000}


def sample_points(lits: list[int]) -> list[int]:
    pts = set()
    base = sorted(set(lits) | set(SPEC_CUTS))
    lo, hi = min(base) - 2, max(base) + 2
    # every integer in [lo, hi] when that is small, otherwise literal neighbourhoods
    if hi - lo <= 400:
        pts.update(range(lo, hi + 1))
    else:
        for c in base:
            pts.update((c - 1, c, c + 1))
        pts.update(range(min(SPEC_CUTS) - 2, max(SPEC_CUTS) + 3))
    pts.add(hi + 10 ** 6)
    pts.add(1)
    return sorted(p for p in pts if p >= 1)


def regions(fi: FuncInfo, is_subject, consts=None, label=None):
    """-> list of (lo, hi, label_or_residual_text, residual_tree) maximal runs of
    sample points with equal label (hi None = unbounded)."""
    lits = sorted(set(literals_compared(fi, is_subject, consts)) | reachable_int_literals(fi, is_subject))
    pts = sample_points(lits)
    out = []
    for v in pts:
        tree, _ = residual(fi, is_subject, v, consts)
        lab = label(tree, v) if label else unparse(tree)
        if out and out[-1][2] == lab:
            out[-1] = (out[-1][0], v, lab, out[-1][3])
        else:
            out.append((v, v, lab, tree))
    if out:
        lo, hi, lab, tree = out[-1]
        out[-1] = (lo, None, lab, tree)
    return out, lits


def fmt_regions(regs) -> str:
    return " | ".join(f"{lo}..{'' if hi is None else hi} -> {lab}" for lo, hi, lab, _ in regs)


# --------------------------------------------------------------------------
# which expressions are function lengths
# --------------------------------------------------------------------------

class LengthFacts:
    """Package-wide discovery of length-valued expressions.

    * `.value` attribute expressions that are compared with an integer
      (Token.value / TokenValue.value are strings and are only ever compared
      with strings, so 'compared with an int' separates them);
    * parameters that receive such an expression (or another length parameter)
      at some resolved call site (fixpoint);
    * 'cut parameters': parameters compared *against* a length expression
      (e.g. `threshold`), whose integer value comes from the call sites.
    """

    def __init__(self, prj: Project, seed_functions: tuple[str, ...] = ()):
        global PRJ
        PRJ = prj
        self.prj = prj
        self.length_params: dict[str, set[str]] = {}
        self.cut_params: dict[str, set[str]] = {}
        # functions known (site table) to take a length: their int-annotated
        # parameters that are compared with integer literals are lengths even
        # when no call site inside the package passes one (format_unit)
        for q in seed_functions:
            fi = prj.maybe_func(q)
            if fi is None:
                continue
            for p in fi.params():
                ann = fi.param_annotation(p)
                if ann is not None and unparse(ann) == "int":
                    for c in fi.walk():
                        if isinstance(c, ast.Compare):
                            ops = [c.left] + list(c.comparators)
                            if any(isinstance(o, ast.Name) and o.id == p for o in ops) and \
                                    any(const_int(o) is not None for o in ops):
                                self.length_params.setdefault(fi.qual, set()).add(p)
        self._fix()

    def is_value_attr(self, n) -> bool:
        return (isinstance(n, ast.Attribute) and n.attr == "value"
                and not (isinstance(n.value, ast.Name) and n.value.id in ("self", "cls")))

    def is_length_expr(self, fi: FuncInfo, n) -> bool:
        if self.is_value_attr(n) and (self._value_attr_is_int(fi, n) or self._arg_is_length(fi, n)):
            return True
        if isinstance(n, ast.Name) and n.id in self.length_params.get(fi.qual, ()):
            return True
        return False

    def _value_attr_is_int(self, fi: FuncInfo, n) -> bool:
        """A `.value` read is a length when its receiver is not a token: decide by
        the receiver expression's name chain (repo convention: measurement-typed
        names are m / measurement / *.measurement / unit / function / sorted_measurements[..])
        or by being compared with an int somewhere in the same function."""
        txt = unparse(n)
        for c in fi.walk():
            if isinstance(c, ast.Compare):
                ops = [c.left] + list(c.comparators)
                if any(unparse(o) == txt for o in ops):
                    if any(_intlike(o, fi, self) for o in ops if unparse(o) != txt):
                        return True
        return False

    def _fix(self):
        prj = self.prj
        changed = True
        rounds = 0
        while changed and rounds < 10:
            changed = False
            rounds += 1
            for fi in prj.funcs.values():
                for call in fi.calls():
                    targets, kind = prj.resolve_call(fi, call)
                    if kind not in ("direct", "self", "ctor"):
                        continue
                    for t in targets:
                        params = t.params()
                        if t.is_method() and not t.is_static() and kind != "ctor" and params[:1] in (["self"], ["cls"]):
                            params = params[1:]
                        elif kind == "ctor" and params[:1] == ["self"]:
                            params = params[1:]
                        bound = list(zip(params, call.args)) + [(k.arg, k.value) for k in call.keywords if k.arg]
                        for p, a in bound:
                            if p not in t.params():
                                continue
                            if self._arg_is_length(fi, a):
                                s = self.length_params.setdefault(t.qual, set())
                                if p not in s:
                                    s.add(p)
                                    changed = True
        # cut params: compared against a length expression
        for fi in prj.funcs.values():
            for c in fi.walk():
                if isinstance(c, ast.Compare):
                    ops = [c.left] + list(c.comparators)
                    if any(self.is_length_expr(fi, o) for o in ops):
                        for o in ops:
                            if isinstance(o, ast.Name) and o.id in fi.params() and not self.is_length_expr(fi, o):
                                self.cut_params.setdefault(fi.qual, set()).add(o.id)

    def _arg_is_length(self, fi: FuncInfo, a) -> bool:
        if isinstance(a, ast.Name) and a.id in self.length_params.get(fi.qual, ()):
            return True
        if self.is_value_attr(a):
            # measurement.value passed on: the receiver must look like a measurement
            ch = attr_chain(a.value) or ""
            last = ch.split(".")[-1]
            return last in ("m", "measurement", "unit", "function") or last.endswith("measurement")
        return False

    def subject_pred(self, fi: FuncInfo):
        return lambda n: self.is_length_expr(fi, n)

    def functions_with_length_comparisons(self) -> list[FuncInfo]:
        out = []
        for fi in self.prj.funcs.values():
            pred = self.subject_pred(fi)
            for c in fi.walk():
                if isinstance(c, ast.Compare):
                    ops = [c.left] + list(c.comparators)
                    if any(pred(o) for o in ops):
                        out.append(fi)
                        break
        return out


def _intlike(o, fi: FuncInfo, facts: LengthFacts) -> bool:
    if const_int(o) is not None:
        return True
    if isinstance(o, ast.Name) and o.id in fi.params():
        d = fi.param_default(o.id)
        ann = fi.param_annotation(o.id)
        if (d is not None and const_int(d) is not None) or (ann is not None and unparse(ann) == "int"):
            return True
    return False
