"""E4: integer decision extractor.

For a function and a designated integer-valued *subject* expression (e.g. `m.value`,
or a parameter that receives a function length) it computes, for a concrete
integer v, the *residual* of the function: the syntax tree with every test that
depends only on the subject and on integer literals folded (if/elif/else chains,
conditional expressions, comprehension filters, and/or/not, chained
comparisons), and dead code after return/continue/raise removed.

Tests of the form `subject <op> literal` are piecewise constant with break
points only at the literals, so evaluating the residual at every integer between
(min literal - 1) and (max literal + 1) enumerates every region of Z exactly:
this is conditional constant propagation over a finite partition, not a run of
the code (nothing is executed; calls, loops and data are left symbolic).
"""
from __future__ import annotations

import ast
import copy
from typing import Callable, Optional

from .core import FuncInfo, Project, const_int, unparse, walk_local, attr_chain

SPEC_CUTS = (15, 30, 60)


def category(v: int) -> int:
    """Specification: 0 easy (<=15), 1 verbose (16..30), 2 hard (31..60), 3 unmaintainable (>60)."""
    return 0 if v <= 15 else 1 if v <= 30 else 2 if v <= 60 else 3


CAT_NAMES = ["easy(<=15)", "verbose(16..30)", "hard-to-maintain(31..60)", "unmaintainable(>60)"]


class Specializer(ast.NodeTransformer):
    def __init__(self, is_subject: Callable[[ast.AST], bool] | None, v: int = 0,
                 consts: dict[str, int] | None = None, valuation: Callable[[ast.AST], object] | None = None):
        """Either (is_subject, v): every subject expression has value v; or
        `valuation`: node -> int | bool | None for several independent subjects."""
        self.valuation = valuation
        self.is_subject = is_subject if is_subject is not None else (lambda n: valuation(n) is not None)
        self.v = v
        self.consts = consts or {}
        self.decided = 0

    # ---- integer value of an expression, if determined
    def ival(self, n) -> Optional[int]:
        if self.valuation is not None:
            x = self.valuation(n)
            if x is not None and not isinstance(x, bool):
                return x
        elif self.is_subject(n):
            return self.v
        c = const_int(n)
        if c is not None:
            return c
        if isinstance(n, ast.Name) and n.id in self.consts:
            return self.consts[n.id]
        if isinstance(n, ast.BinOp) and isinstance(n.op, (ast.Add, ast.Sub)):
            a, b = self.ival(n.left), self.ival(n.right)
            if a is not None and b is not None:
                return a + b if isinstance(n.op, ast.Add) else a - b
        return None

    def mentions_subject(self, n) -> bool:
        return any(self.is_subject(x) for x in ast.walk(n))

    # ---- three-valued truth of a test
    def truth(self, t) -> Optional[bool]:
        if isinstance(t, ast.Compare):
            vals = [self.ival(t.left)] + [self.ival(c) for c in t.comparators]
            res: Optional[bool] = True
            for i, op in enumerate(t.ops):
                a, b = vals[i], vals[i + 1]
                if a is None or b is None:
                    res = None if res is not False else False
                    continue
                r = {ast.Lt: a < b, ast.LtE: a <= b, ast.Gt: a > b, ast.GtE: a >= b,
                     ast.Eq: a == b, ast.NotEq: a != b}.get(type(op))
                if r is None:
                    res = None if res is not False else False
                elif r is False:
                    return False
            return res
        if isinstance(t, ast.BoolOp):
            vs = [self.truth(x) for x in t.values]
            if isinstance(t.op, ast.And):
                if any(x is False for x in vs):
                    return False
                return True if all(x is True for x in vs) else None
            if any(x is True for x in vs):
                return True
            return False if all(x is False for x in vs) else None
        if isinstance(t, ast.UnaryOp) and isinstance(t.op, ast.Not):
            x = self.truth(t.operand)
            return None if x is None else not x
        if isinstance(t, ast.Constant) and isinstance(t.value, bool):
            return t.value
        if self.valuation is not None:
            x = self.valuation(t)
            if isinstance(x, bool):
                return x
            if isinstance(x, int):
                return x != 0
        return None

    # ---- statements
    def _block(self, stmts):
        out = []
        for s in stmts:
            r = self.visit(s)
            if r is None:
                continue
            if isinstance(r, list):
                out.extend(r)
            else:
                out.append(r)
            if out and isinstance(out[-1], (ast.Return, ast.Raise, ast.Continue, ast.Break)):
                break
        return out

    def visit_If(self, node):
        t = self.truth(node.test)
        if t is True:
            self.decided += 1
            return self._block(node.body) or [ast.Pass()]
        if t is False:
            self.decided += 1
            return self._block(node.orelse) or [ast.Pass()]
        node.test = self.visit(node.test)
        node.body = self._block(node.body) or [ast.Pass()]
        node.orelse = self._block(node.orelse)
        return node

    def _generic_blocks(self, node):
        for fld in ("body", "orelse", "finalbody"):
            if hasattr(node, fld) and isinstance(getattr(node, fld), list):
                setattr(node, fld, self._block(getattr(node, fld)))
        return node

    def visit_For(self, node):
        node.iter = self.visit(node.iter)
        return self._generic_blocks(node)

    def visit_While(self, node):
        node.test = self.visit(node.test)
        return self._generic_blocks(node)

    def visit_With(self, node):
        return self._generic_blocks(node)

    def visit_Try(self, node):
        for h in node.handlers:
            h.body = self._block(h.body)
        return self._generic_blocks(node)

    def visit_FunctionDef(self, node):
        node.body = self._block(node.body) or [ast.Pass()]
        return node

    # ---- expressions
    def visit_IfExp(self, node):
        t = self.truth(node.test)
        if t is True:
            self.decided += 1
            return self.visit(node.body)
        if t is False:
            self.decided += 1
            return self.visit(node.orelse)
        return self.generic_visit(node)

    def _comp(self, node):
        for gen in node.generators:
            new_ifs = []
            for cond in gen.ifs:
                t = self.truth(cond)
                if t is True:
                    self.decided += 1
                    continue
                if t is False:
                    self.decided += 1
                    empty = ast.List(elts=[], ctx=ast.Load())
                    empty._emptied_comp = True   # type: ignore[attr-defined]
                    return empty
                new_ifs.append(cond)
            gen.ifs = new_ifs
        return self.generic_visit(node)

    visit_ListComp = _comp
    visit_SetComp = _comp
    visit_GeneratorExp = _comp

    def visit_BoolOp(self, node):
        t = self.truth(node)
        if t is not None and self.mentions_subject(node):
            self.decided += 1
            return ast.Constant(value=t)
        return self.generic_visit(node)

    def visit_Compare(self, node):
        t = self.truth(node)
        if t is not None and self.mentions_subject(node):
            self.decided += 1
            return ast.Constant(value=t)
        return self.generic_visit(node)


def residual_multi(fi: FuncInfo, valuation) -> ast.AST:
    sp = Specializer(None, valuation=valuation)
    tree = sp.visit(copy.deepcopy(fi.node))
    ast.fix_missing_locations(tree)
    return tree


def residual(fi: FuncInfo, is_subject, v: int, consts=None) -> tuple[ast.AST, int]:
    sp = Specializer(is_subject, v, consts)
    tree = sp.visit(copy.deepcopy(fi.node))
    ast.fix_missing_locations(tree)
    return tree, sp.decided


def literals_compared(fi: FuncInfo, is_subject, consts=None) -> list[int]:
    """Integer literals (and constant-valued names) the subject is compared with."""
    sp = Specializer(is_subject, 0, consts)
    out = set()
    for n in fi.walk():
        if isinstance(n, ast.Compare):
            ops = [n.left] + list(n.comparators)
            if any(sp.mentions_subject(o) for o in ops):
                for o in ops:
                    if not sp.mentions_subject(o):
                        c = sp.ival(o)
                        if c is not None:
                            out.add(c)
    return sorted(out)


def sample_points(lits: list[int]) -> list[int]:
    pts = set()
    base = sorted(set(lits) | set(SPEC_CUTS))
    lo, hi = min(base) - 2, max(base) + 2
    # every integer in [lo, hi] when that is small, otherwise literal neighbourhoods
    if hi - lo <= 400:
        pts.update(range(lo, hi + 1))
    else:
        for c in base:
            pts.update((c - 1, c, c + 1))
        pts.update(range(min(SPEC_CUTS) - 2, max(SPEC_CUTS) + 3))
    pts.add(hi + 10 ** 6)
    pts.add(1)
    return sorted(p for p in pts if p >= 1)


def regions(fi: FuncInfo, is_subject, consts=None, label=None):
    """-> list of (lo, hi, label_or_residual_text, residual_tree) maximal runs of
    sample points with equal label (hi None = unbounded)."""
    lits = literals_compared(fi, is_subject, consts)
    pts = sample_points(lits)
    out = []
    for v in pts:
        tree, _ = residual(fi, is_subject, v, consts)
        lab = label(tree, v) if label else unparse(tree)
        if out and out[-1][2] == lab and (out[-1][1] == v - 1 or v == pts[-1]):
            out[-1] = (out[-1][0], v, lab, out[-1][3])
        else:
            out.append((v, v, lab, tree))
    if out:
        lo, hi, lab, tree = out[-1]
        out[-1] = (lo, None, lab, tree)
    return out, lits


def fmt_regions(regs) -> str:
    return " | ".join(f"{lo}..{'' if hi is None else hi} -> {lab}" for lo, hi, lab, _ in regs)


# --------------------------------------------------------------------------
# which expressions are function lengths
# --------------------------------------------------------------------------

class LengthFacts:
    """Package-wide discovery of length-valued expressions.

    * `.value` attribute expressions that are compared with an integer
      (Token.value / TokenValue.value are strings and are only ever compared
      with strings, so 'compared with an int' separates them);
    * parameters that receive such an expression (or another length parameter)
      at some resolved call site (fixpoint);
    * 'cut parameters': parameters compared *against* a length expression
      (e.g. `threshold`), whose integer value comes from the call sites.
    """

    def __init__(self, prj: Project, seed_functions: tuple[str, ...] = ()):
        self.prj = prj
        self.length_params: dict[str, set[str]] = {}
        self.cut_params: dict[str, set[str]] = {}
        # functions known (site table) to take a length: their int-annotated
        # parameters that are compared with integer literals are lengths even
        # when no call site inside the package passes one (format_unit)
        for q in seed_functions:
            fi = prj.maybe_func(q)
            if fi is None:
                continue
            for p in fi.params():
                ann = fi.param_annotation(p)
                if ann is not None and unparse(ann) == "int":
                    for c in fi.walk():
                        if isinstance(c, ast.Compare):
                            ops = [c.left] + list(c.comparators)
                            if any(isinstance(o, ast.Name) and o.id == p for o in ops) and \
                                    any(const_int(o) is not None for o in ops):
                                self.length_params.setdefault(fi.qual, set()).add(p)
        self._fix()

    def is_value_attr(self, n) -> bool:
        return (isinstance(n, ast.Attribute) and n.attr == "value"
                and not (isinstance(n.value, ast.Name) and n.value.id in ("self", "cls")))

    def is_length_expr(self, fi: FuncInfo, n) -> bool:
        if self.is_value_attr(n) and self._value_attr_is_int(fi, n):
            return True
        if isinstance(n, ast.Name) and n.id in self.length_params.get(fi.qual, ()):
            return True
        return False

    def _value_attr_is_int(self, fi: FuncInfo, n) -> bool:
        """A `.value` read is a length when its receiver is not a token: decide by
        the receiver expression's name chain (repo convention: measurement-typed
        names are m / measurement / *.measurement / unit / function / sorted_measurements[..])
        or by being compared with an int somewhere in the same function."""
        txt = unparse(n)
        for c in fi.walk():
            if isinstance(c, ast.Compare):
                ops = [c.left] + list(c.comparators)
                if any(unparse(o) == txt for o in ops):
                    if any(_intlike(o, fi, self) for o in ops if unparse(o) != txt):
                        return True
        return False

    def _fix(self):
        prj = self.prj
        changed = True
        rounds = 0
        while changed and rounds < 10:
            changed = False
            rounds += 1
            for fi in prj.funcs.values():
                for call in fi.calls():
                    targets, kind = prj.resolve_call(fi, call)
                    if kind not in ("direct", "self", "ctor"):
                        continue
                    for t in targets:
                        params = t.params()
                        if t.is_method() and not t.is_static() and kind != "ctor" and params[:1] in (["self"], ["cls"]):
                            params = params[1:]
                        elif kind == "ctor" and params[:1] == ["self"]:
                            params = params[1:]
                        bound = list(zip(params, call.args)) + [(k.arg, k.value) for k in call.keywords if k.arg]
                        for p, a in bound:
                            if p not in t.params():
                                continue
                            if self._arg_is_length(fi, a):
                                s = self.length_params.setdefault(t.qual, set())
                                if p not in s:
                                    s.add(p)
                                    changed = True
        # cut params: compared against a length expression
        for fi in prj.funcs.values():
            for c in fi.walk():
                if isinstance(c, ast.Compare):
                    ops = [c.left] + list(c.comparators)
                    if any(self.is_length_expr(fi, o) for o in ops):
                        for o in ops:
                            if isinstance(o, ast.Name) and o.id in fi.params() and not self.is_length_expr(fi, o):
                                self.cut_params.setdefault(fi.qual, set()).add(o.id)

    def _arg_is_length(self, fi: FuncInfo, a) -> bool:
        if isinstance(a, ast.Name) and a.id in self.length_params.get(fi.qual, ()):
            return True
        if self.is_value_attr(a):
            # measurement.value passed on: the receiver must look like a measurement
            ch = attr_chain(a.value) or ""
            last = ch.split(".")[-1]
            return last in ("m", "measurement", "unit", "function") or last.endswith("measurement")
        return False

    def subject_pred(self, fi: FuncInfo):
        return lambda n: self.is_length_expr(fi, n)

    def functions_with_length_comparisons(self) -> list[FuncInfo]:
        out = []
        for fi in self.prj.funcs.values():
            pred = self.subject_pred(fi)
            for c in fi.walk():
                if isinstance(c, ast.Compare):
                    ops = [c.left] + list(c.comparators)
                    if any(pred(o) for o in ops):
                        out.append(fi)
                        break
        return out


def _intlike(o, fi: FuncInfo, facts: LengthFacts) -> bool:
    if const_int(o) is not None:
        return True
    if isinstance(o, ast.Name) and o.id in fi.params():
        d = fi.param_default(o.id)
        ann = fi.param_annotation(o.id)
        if (d is not None and const_int(d) is not None) or (ann is not None and unparse(ann) == "int"):
            return True
    return False
