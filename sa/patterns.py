"""E6: pattern-DSL extraction, predicate semantics from source, automaton model.

(a) the constructor expressions passed to get_headers(...) in languages/*.py are
    evaluated symbolically into pattern trees;
(b) the accept()/is_open() methods of the predicate classes and the Token.is_*
    methods are interpreted *abstractly* over a finite token domain
    (pygments kind x distinguished value x depth class);
(c) Thompson NFA + subset DFA of a pattern tree are built here, in the checker
    (the model of the engine; C13 checks the repo's operator wiring against it).
"""
from __future__ import annotations

import ast
import itertools
from typing import Optional

from .core import AnalysisError, ClassInfo, FuncInfo, Project, attr_chain, const_int, const_str, expand, unparse

# ----------------------------------------------------------------------------
# pattern trees
# ----------------------------------------------------------------------------


class Pred:
    """A predicate term: class name + constructor arguments (Pred or str)."""

    def __init__(self, cls: str, args: tuple, site: str = ""):
        self.cls = cls
        self.args = args
        self.site = site

    def key(self):
        return (self.cls,) + tuple(a.key() if isinstance(a, Pred) else a for a in self.args)

    def __eq__(self, o):
        return isinstance(o, Pred) and self.key() == o.key()

    def __hash__(self):
        return hash(self.key())

    def __repr__(self):
        return f"{self.cls}({', '.join(repr(a) for a in self.args)})"

    def walk(self):
        yield self
        for a in self.args:
            if isinstance(a, Pred):
                yield from a.walk()

    def literals(self) -> set[str]:
        out = set()
        for p in self.walk():
            out.update(a for a in p.args if isinstance(a, str))
        return out


class Pat:
    """op in: atom, seq, union, opt, star, plus"""

    def __init__(self, op: str, kids=(), pred: Optional[Pred] = None):
        self.op, self.kids, self.pred = op, list(kids), pred

    def __repr__(self):
        if self.op == "atom":
            return repr(self.pred)
        if self.op == "seq":
            return "[" + ", ".join(map(repr, self.kids)) + "]"
        return {"union": "Union", "opt": "Optional", "star": "ZeroOrMore", "plus": "OneOrMore"}[self.op] + \
            "(" + ", ".join(map(repr, self.kids)) + ")"

    def atoms(self):
        if self.op == "atom":
            yield self
        for k in self.kids:
            yield from k.atoms()

    def nullable(self) -> bool:
        if self.op == "atom":
            return False
        if self.op == "seq":
            return all(k.nullable() for k in self.kids)
        if self.op == "union":
            return any(k.nullable() for k in self.kids)
        if self.op in ("opt", "star"):
            return True
        return self.kids[0].nullable()  # plus

    def has_eps_cycle(self) -> bool:
        """Does the Thompson NFA of this pattern contain an epsilon cycle?
        Exactly: a star/plus whose body is nullable."""
        if self.op in ("star", "plus") and self.kids[0].nullable():
            return True
        return any(k.has_eps_cycle() for k in self.kids)


OPERATOR_OPS = {"OneOrMore": "plus", "ZeroOrMore": "star", "Optional": "opt", "Union": "union"}


class DSL:
    def __init__(self, prj: Project):
        self.prj = prj
        self.operator_base = prj.cls("codelimit.common.gsm.operator.Operator:Operator")
        self.predicate_base = prj.cls("codelimit.common.gsm.predicate.Predicate:Predicate")
        self.token_pred_base = prj.cls("codelimit.common.token_matching.predicate.TokenPredicate:TokenPredicate")
        self._coerce_cache: dict[str, dict[str, str]] = {}

    # -- how a constructor stores a str argument (TokenValue coercion), from source
    def ctor_fields(self, ci: ClassInfo) -> list[tuple[str, str, bool]]:
        """[(param, field, coerces_str_to_TokenValue)] for the class' __init__."""
        init = ci.methods.get("__init__")
        if init is None:
            return []
        init = self.prj.func(init.qual)
        out = []
        params = [p for p in init.params() if p != "self"]
        for n in init.walk():
            if isinstance(n, ast.Assign) and len(n.targets) == 1 and isinstance(n.targets[0], ast.Attribute) \
                    and isinstance(n.targets[0].value, ast.Name) and n.targets[0].value.id == "self":
                fld = n.targets[0].attr
                v = n.value
                if isinstance(v, ast.Name) and v.id in params:
                    out.append((v.id, fld, False))
                elif isinstance(v, ast.IfExp):
                    # X if isinstance(X, TokenPredicate) else TokenValue(X)
                    t = v.test
                    if (isinstance(t, ast.Call) and isinstance(t.func, ast.Name) and t.func.id == "isinstance"
                            and isinstance(v.body, ast.Name) and v.body.id in params
                            and isinstance(v.orelse, ast.Call) and attr_chain(v.orelse.func) == "TokenValue"):
                        out.append((v.body.id, fld, True))
                    else:
                        raise AnalysisError(f"{init.disp}: field {fld} initialised by an unrecognised conditional {unparse(v)}")
        return out

    def eval_pred(self, fi: FuncInfo, node, inside_pred: bool) -> Pred:
        """Evaluate an expression that must denote a predicate."""
        s = const_str(node)
        if s is not None:
            # bare string: inside And/Or/Not/Balanced -> TokenValue; at operator level -> Identity
            return Pred("TokenValue", (s,)) if inside_pred else Pred("Identity", (s,))
        if isinstance(node, ast.Call):
            ci = self.prj.resolve_ctor(fi, node)
            if ci is not None and ci.is_subclass_of(self.predicate_base):
                fields = self.ctor_fields(ci)
                params = [p for p, _, _ in fields] or []
                init = ci.find_method("__init__")
                pnames = [p for p in init.params() if p != "self"] if init and init.cls is ci else []
                args = []
                bound = dict(zip(pnames, node.args))
                for k in node.keywords:
                    if k.arg:
                        bound[k.arg] = k.value
                for p in pnames:
                    if p not in bound:
                        raise AnalysisError(f"{fi.site(node)}: {ci.name}(...) misses argument {p}")
                    coerces = any(pp == p and c for pp, _, c in fields)
                    a = bound[p]
                    if coerces:
                        args.append(self.eval_pred(fi, a, True))
                    else:
                        sv = const_str(expand(fi, a))
                        if sv is None:
                            raise AnalysisError(f"{fi.site(node)}: non-literal argument {unparse(a)} of {ci.name}")
                        args.append(sv)
                return Pred(ci.name, tuple(args), fi.site(node))
        raise AnalysisError(f"{fi.site(node)}: cannot evaluate {unparse(node)} to a predicate")

    def eval_pat(self, fi: FuncInfo, node) -> Pat:
        node = expand(fi, node) if isinstance(node, ast.Name) else node
        if isinstance(node, (ast.List, ast.Tuple)):
            return Pat("seq", [self.eval_pat(fi, e) for e in node.elts])
        if isinstance(node, ast.Call):
            ci = self.prj.resolve_ctor(fi, node)
            if ci is not None and ci.is_subclass_of(self.operator_base):
                op = OPERATOR_OPS.get(ci.name)
                if op is None:
                    raise AnalysisError(f"{fi.site(node)}: operator {ci.name} is not modelled")
                kids = [self.eval_pat(fi, a) for a in node.args]
                if op == "union" and len(kids) != 2 or op != "union" and len(kids) != 1:
                    raise AnalysisError(f"{fi.site(node)}: wrong arity for {ci.name}")
                return Pat(op, kids)
        return Pat("atom", pred=self.eval_pred(fi, node, False))


class HeaderPattern:
    def __init__(self, language: str, fi: FuncInfo, index: int, call: ast.Call, expr: Pat, follow: Optional[Pat]):
        self.language, self.fi, self.index, self.call, self.expr, self.follow = language, fi, index, call, expr, follow

    @property
    def key(self):
        return f"{self.language}.extract_headers/pattern#{self.index}"


def language_classes(prj: Project) -> list[ClassInfo]:
    base = prj.cls("codelimit.common.Language:Language")
    subs = sorted(base.all_subclasses(), key=lambda c: c.qual)
    return subs


def extract_header_patterns_structural(prj: Project) -> list[HeaderPattern]:
    dsl = DSL(prj)
    get_headers = prj.func("codelimit.common.scope.scope_utils:get_headers")
    out = []
    for ci in language_classes(prj):
        fi = ci.methods.get("extract_headers")
        if fi is None:
            raise AnalysisError(f"{ci.qual} has no extract_headers of its own")
        idx = 0
        calls = sorted([c for c in fi.calls()], key=lambda c: (c.lineno, c.col_offset))
        for c in calls:
            tg, kind = prj.resolve_call(fi, c)
            if get_headers in tg:
                args = list(c.args)
                kw = {k.arg: k.value for k in c.keywords}
                expr = args[1] if len(args) > 1 else kw.get("expression")
                follow = args[2] if len(args) > 2 else kw.get("followed_by")
                if expr is None:
                    raise AnalysisError(f"{fi.site(c)}: get_headers call without expression")
                if isinstance(follow, ast.Constant) and follow.value is None:
                    follow = None
                out.append(HeaderPattern(ci.name, fi, idx, c, dsl.eval_pat(fi, expr),
                                         dsl.eval_pat(fi, follow) if follow is not None else None))
                idx += 1
            else:
                nm = prj.resolve_callee_name(fi, c)
                if nm.endswith(":find_all") or nm.endswith(":starts_with") or nm.endswith(":match"):
                    raise AnalysisError(f"{fi.site(c)}: {ci.name}.extract_headers uses the matcher directly; "
                                        f"only get_headers(...) on literal expressions is modelled")
        if idx == 0:
            raise AnalysisError(f"{fi.disp}: no get_headers(...) call found; header patterns of {ci.name} unknown")
    return out



class _Capture:
    """Evaluates code of the repo that builds pattern expressions and records, for every
    operator / predicate object, the class and the constructor arguments it was built from."""

    def __init__(self, prj: Project):
        from .absint import MiniInterp
        self.prj = prj
        self.operator_base = prj.cls("codelimit.common.gsm.operator.Operator:Operator")
        self.predicate_base = prj.cls("codelimit.common.gsm.predicate.Predicate:Predicate")
        self.get_headers = prj.func("codelimit.common.scope.scope_utils:get_headers")
        self.calls: list = []
        self.it = MiniInterp(prj, self.hook, max_steps=200000)

    def hook(self, it, kind, f, args, kwargs, node, cur):
        from .absint import BoundFunc, Sym, T
        if kind != "call":
            return NotImplemented
        if isinstance(f, BoundFunc) and f.fi.qual == self.get_headers.qual:
            ps = [p for p in self.get_headers.params()]
            bound = dict(zip(ps, args))
            bound.update(kwargs)
            self.calls.append((bound.get("tokens"), bound.get("expression"), bound.get("followed_by"), node, cur))
            return []
        # expressions compiled ahead of time (a language that builds its automata once): the compiled object stands for its expression
        if isinstance(f, BoundFunc) and f.fi.name == "expression_to_nfa" and args:
            return Sym("nfa-of-expression", source_expr=args[0])
        if isinstance(f, BoundFunc) and f.fi.name == "nfa_to_dfa" and args and isinstance(args[0], Sym) and "source_expr" in args[0].fields:
            return Sym("dfa-of-expression", source_expr=args[0].fields["source_expr"])
        if isinstance(f, BoundFunc) and f.fi.name in ("find_all", "starts_with", "match") and f.fi.module.name.endswith("gsm.matcher"):
            # a language that reaches the matcher without get_headers (a finder object of its own): the expression searched for
            # over the whole token list is a header pattern; one stand-in match is handed back so that the follow-up test, if
            # there is one, shows its expression too (it is answered "not followed": no header is built from the stand-in)
            ps = f.fi.params()
            bound = dict(zip(ps, args))
            bound.update(kwargs)
            expr = bound.get("expression", args[0] if args else None)
            seq = bound.get("sequence", args[1] if len(args) > 1 else None)
            if f.fi.name == "find_all":
                self.calls.append([seq, expr, None, node, cur])
                pc = self.prj.classes.get("codelimit.common.gsm.Pattern:Pattern")
                from .absint import make_token
                name_tok = make_token(it, self.prj, "Name", "stand_in", 1, 1)
                self._standin = Sym("stand-in match", _cls=pc, start=0, end=0, tokens=[name_tok], state=None, automata=None, predicate_map={})
                return [self._standin]
            if f.fi.name == "starts_with" and self.calls and isinstance(self.calls[-1], list) and self.calls[-1][2] is None:
                self.calls[-1][2] = expr
                self.calls[-1][0] = self.calls[-1][0]
                return None
            raise AnalysisError(f"{cur.site(node) if cur and node is not None else f.fi.disp}: extract_headers uses the matcher "
                                f"directly; only patterns handed to get_headers(...) are modelled")
        if isinstance(f, tuple) and f and f[0] == "class" and (f[1].is_subclass_of(self.operator_base) or f[1].is_subclass_of(self.predicate_base)):
            obj = it.construct(f[1], args, kwargs, node, cur)
            obj.ctor = (f[1], list(args), dict(kwargs), cur.site(node) if cur is not None and node is not None else "")
            return obj
        return NotImplemented

    # -- objects -> pattern trees
    def to_pred(self, v, inside: bool, site: str = "") -> Pred:
        from .absint import Sym
        if isinstance(v, str):
            return Pred("TokenValue", (v,)) if inside else Pred("Identity", (v,))
        if isinstance(v, Sym) and v.cls is not None and v.cls.is_subclass_of(self.predicate_base):
            ctor = getattr(v, "ctor", None)
            if ctor is None:
                raise AnalysisError(f"predicate object {v} was not built by a constructor call that was evaluated")
            ci, args, kwargs, site = ctor
            init = ci.find_method("__init__")
            pnames = [p for p in init.params() if p != "self"] if init else []
            bound = dict(zip(pnames, args))
            bound.update(kwargs)
            if init is not None:
                for p in pnames:
                    if p not in bound:
                        d = self.prj.func(init.qual).param_default(p)
                        if d is None:
                            raise AnalysisError(f"{site}: {ci.name}(...) misses argument {p}")
                        bound[p] = self.it.ev(d, {}, self.prj.func(init.qual))
            out = []
            for p in pnames:
                a = bound[p]
                if isinstance(a, Sym):
                    out.append(self.to_pred(a, True, site))
                elif isinstance(a, str):
                    # a str the constructor coerced to a predicate object is represented by that object
                    co = [x for x in v.fields.values() if isinstance(x, Sym) and getattr(x, "ctor", None) is not None
                          and x.ctor[1] == [a] and not x.ctor[2] and x.cls.is_subclass_of(self.predicate_base)]
                    out.append(self.to_pred(co[0], True, site) if co else a)
                else:
                    raise AnalysisError(f"{site}: argument {p}={a!r} of {ci.name} is neither a string nor a predicate")
            return Pred(ci.name, tuple(out), site)
        raise AnalysisError(f"{site}: {v!r} is not a predicate")

    def to_pat(self, v, site: str = "") -> Pat:
        from .absint import Sym
        if isinstance(v, Sym) and "source_expr" in v.fields:
            return self.to_pat(v.fields["source_expr"], site)
        if isinstance(v, (list, tuple)) and not (isinstance(v, tuple) and type(v) is not tuple):
            return Pat("seq", [self.to_pat(e, site) for e in v])
        if isinstance(v, Sym) and v.cls is not None and v.cls.is_subclass_of(self.operator_base):
            ctor = getattr(v, "ctor", None)
            if ctor is None:
                raise AnalysisError(f"operator object {v} was not built by an evaluated constructor call")
            ci, args, kwargs, site = ctor
            if kwargs:
                init = ci.find_method("__init__")
                pnames = [p for p in init.params() if p != "self"] if init else []
                args = list(args) + [kwargs[p] for p in pnames[len(args):] if p in kwargs]
            names = [c.name for c in ci.mro()]
            if "Atom" in names and len(args) == 1:
                return self.to_pat(args[0], site)
            op = next((OPERATOR_OPS[n] for n in names if n in OPERATOR_OPS), None)
            if op is None:
                raise AnalysisError(f"{site}: operator {ci.name} is not modelled")
            kids = [self.to_pat(a, site) for a in args]
            if op == "union" and len(kids) != 2 or op != "union" and len(kids) != 1:
                raise AnalysisError(f"{site}: wrong arity for {ci.name}")
            return Pat(op, kids)
        return Pat("atom", pred=self.to_pred(v, False, site))


def extract_header_patterns_evaluated(prj: Project) -> list[HeaderPattern]:
    """The (expression, followed_by) arguments every Language.extract_headers hands to get_headers,
    obtained by evaluating extract_headers on an empty token list with get_headers replaced by a
    recorder (the patterns are built by the repo's own constructors, helpers and factories)."""
    from .absint import PyRaise, Unknown
    out = []
    for ci in language_classes(prj):
        m = ci.find_method("extract_headers")
        if m is None or m.cls.qual == "codelimit.common.Language:Language":
            raise AnalysisError(f"{ci.qual} has no extract_headers of its own")
        fi = prj.func(m.qual)
        cap = _Capture(prj)
        tokens: list = []
        try:
            obj = cap.it.construct(ci, [], {}, None, fi)
            cap.it.call(fi, [tokens], {}, obj)
        except PyRaise as e:
            raise Unknown(f"{fi.disp} raises {e.name} on an empty token list")
        if not cap.calls:
            raise AnalysisError(f"{fi.disp}: no get_headers(...) call reached; header patterns of {ci.name} unknown")
        for idx, (tk, expr, follow, node, cur) in enumerate(cap.calls):
            if tk is not tokens:
                raise Unknown(f"{fi.disp}: get_headers is called on something other than the tokens argument")
            site = cur.site(node) if cur is not None and node is not None else fi.disp
            if expr is None:
                raise AnalysisError(f"{site}: get_headers call without expression")
            hp = HeaderPattern(ci.name, fi, idx, node, cap.to_pat(expr, site), cap.to_pat(follow, site) if follow else None)
            hp.site = site
            out.append(hp)
    return out


def extract_header_patterns(prj: Project) -> list[HeaderPattern]:
    from .absint import Unknown
    try:
        return extract_header_patterns_evaluated(prj)
    except Unknown:
        return extract_header_patterns_structural(prj)


# ----------------------------------------------------------------------------
# abstract token domain and predicate semantics from source
# ----------------------------------------------------------------------------

# pygments token kinds as (name, ancestors incl. itself); `x in K` <=> K in ancestors(x)
KINDS = {
    "Keyword": ("Token", "Keyword"),
    "Keyword.Declaration": ("Token", "Keyword", "Keyword.Declaration"),
    "Name": ("Token", "Name"),
    "Name.Other": ("Token", "Name", "Name.Other"),
    "Punctuation": ("Token", "Punctuation"),
    "Operator": ("Token", "Operator"),
    "Operator.Word": ("Token", "Operator", "Operator.Word"),
    "Comment": ("Token", "Comment"),
    "Comment.Single": ("Token", "Comment", "Comment.Single"),
    "Comment.Multiline": ("Token", "Comment", "Comment.Multiline"),
    "Comment.Preproc": ("Token", "Comment", "Comment.Preproc"),
    "Comment.PreprocFile": ("Token", "Comment", "Comment.PreprocFile"),
    "Comment.Hashbang": ("Token", "Comment", "Comment.Hashbang"),
    "Comment.Special": ("Token", "Comment", "Comment.Special"),
    "Text": ("Token", "Text"),
    "Whitespace": ("Token", "Text", "Text.Whitespace"),   # pygments: Whitespace = Token.Text.Whitespace
    "Literal.String": ("Token", "Literal", "Literal.String"),
    "Other": ("Token", "Other"),
}
PYGMENTS_NAMES = {"Keyword": "Keyword", "Name": "Name", "Punctuation": "Punctuation", "Operator": "Operator",
                  "Comment": "Comment", "Text": "Text", "Whitespace": "Text.Whitespace", "Token": "Token",
                  "Literal": "Literal", "String": "Literal.String", "Other": "Other"}


class AToken:
    """Abstract token: a kind point and a value class.  `value` is a concrete
    representative string; `vclass` tells what is known about it."""

    def __init__(self, kind: str, value: str):
        self.kind, self.value = kind, value

    def __repr__(self):
        return f"({self.kind},{self.value!r})"


class Unsupported(AnalysisError):
    pass


class _Return(Exception):
    def __init__(self, v):
        self.v = v


class PredObj:
    """Abstract instance of a predicate class: fields hold str | PredObj | int | bool."""

    def __init__(self, ci: ClassInfo, fields: dict):
        self.ci, self.fields = ci, fields

    def __repr__(self):
        return f"<{self.ci.name} {self.fields}>"


class OldInterp:
    """(superseded by Interp below, kept as the fallback) A tiny abstract interpreter for the predicate classes' methods and the
    Token.is_* methods.  Supported fragment: if/elif/else, return, assignments and
    augmented assignments to self.<field>, and/or/not, ==, !=, <, <=, >, >=, in
    (pygments kind membership), str.isspace/strip/lower/startswith on the token
    value, method calls on self / sub-predicates / the token.  Anything else
    raises Unsupported (-> ANALYSIS-ERROR)."""

    def __init__(self, prj: Project):
        self.prj = prj
        self.token_cls = prj.cls("codelimit.common.Token:Token")
        self.dsl = DSL(prj)
        self.steps = 0

    # ---- instantiate a Pred term as an abstract object, following __init__ from source
    def instantiate(self, p: Pred) -> PredObj:
        ci = self._pred_class(p.cls)
        fields: dict = {}
        for c in reversed(ci.mro()):
            init = c.methods.get("__init__")
            if init is None:
                continue
            init = self.prj.func(init.qual)
            for n in init.walk():
                if isinstance(n, ast.Assign) and len(n.targets) == 1 and isinstance(n.targets[0], ast.Attribute) \
                        and isinstance(n.targets[0].value, ast.Name) and n.targets[0].value.id == "self":
                    v = n.value
                    if isinstance(v, ast.Constant):
                        fields[n.targets[0].attr] = v.value
        if ci.name == "Identity":
            fields["item"] = p.args[0]
            return PredObj(ci, fields)
        flds = self.dsl.ctor_fields(ci)
        init = ci.methods.get("__init__")
        pnames = [x for x in init.params() if x != "self"] if init else []
        for (param, fld, coerce) in flds:
            i = pnames.index(param)
            a = p.args[i]
            fields[fld] = self.instantiate(a) if isinstance(a, Pred) else a
        return PredObj(ci, fields)

    def _pred_class(self, name: str) -> ClassInfo:
        cands = [c for c in self.prj.classes.values() if c.name == name and c.is_subclass_of(self.dsl.predicate_base)]
        if len(cands) != 1:
            raise AnalysisError(f"predicate class {name}: {len(cands)} candidates")
        return cands[0]

    # ---- calling a method on an abstract object
    def call_method(self, obj, name: str, args: list):
        if isinstance(obj, PredObj):
            m = obj.ci.find_method(name)
            if m is None:
                raise Unsupported(f"{obj.ci.name} has no method {name}")
            m = self.prj.func(m.qual)
            return self.run(m, {"self": obj, **dict(zip([p for p in m.params() if p != "self"], args))})
        if isinstance(obj, AToken):
            m = self.token_cls.find_method(name)
            if m is None:
                raise Unsupported(f"Token has no method {name}")
            return self.run(m, {"self": obj, **dict(zip([p for p in m.params() if p != "self"], args))})
        if isinstance(obj, str):
            if name == "isspace" and not args:
                return obj.isspace()
            if name == "strip" and not args:
                return obj.strip()
            if name in ("lower", "casefold", "upper") and not args:
                return getattr(obj, name)()
            if name in ("startswith", "endswith") and len(args) == 1 and isinstance(args[0], str):
                return getattr(obj, name)(args[0])
        raise Unsupported(f"call .{name} on {type(obj).__name__}")

    def run(self, fi: FuncInfo, env: dict):
        self.steps += 1
        if self.steps > 200000:
            raise Unsupported("interpretation budget exceeded")
        try:
            self.block(fi.node.body, env, fi)
        except _Return as r:
            return r.v
        return None

    def block(self, stmts, env, fi):
        for st in stmts:
            if isinstance(st, ast.Return):
                raise _Return(self.ev(st.value, env, fi) if st.value is not None else None)
            elif isinstance(st, ast.If):
                if self.truth(self.ev(st.test, env, fi)):
                    self.block(st.body, env, fi)
                else:
                    self.block(st.orelse, env, fi)
            elif isinstance(st, ast.Assign) and len(st.targets) == 1:
                self.assign(st.targets[0], self.ev(st.value, env, fi), env, fi)
            elif isinstance(st, ast.AugAssign):
                cur = self.ev(_load(st.target), env, fi)
                val = self.ev(st.value, env, fi)
                if isinstance(st.op, ast.Add):
                    new = cur + val
                elif isinstance(st.op, ast.Sub):
                    new = cur - val
                else:
                    raise Unsupported(f"{fi.site(st)}: augmented operator")
                self.assign(st.target, new, env, fi)
            elif isinstance(st, ast.Expr):
                if isinstance(st.value, ast.Constant):
                    continue
                self.ev(st.value, env, fi)
            elif isinstance(st, ast.Pass):
                continue
            else:
                raise Unsupported(f"{fi.site(st)}: statement {type(st).__name__} outside the interpreted fragment")

    def assign(self, tgt, val, env, fi):
        if isinstance(tgt, ast.Name):
            env[tgt.id] = val
        elif isinstance(tgt, ast.Attribute):
            obj = self.ev(tgt.value, env, fi)
            if isinstance(obj, PredObj):
                obj.fields[tgt.attr] = val
            else:
                raise Unsupported(f"{fi.site(tgt)}: attribute store on {type(obj).__name__}")
        else:
            raise Unsupported(f"{fi.site(tgt)}: assignment target")

    @staticmethod
    def truth(v):
        if isinstance(v, (bool, int, str)) or v is None:
            return bool(v)
        raise Unsupported(f"truth value of {v!r}")

    def ev(self, n, env, fi):
        if isinstance(n, ast.Constant):
            return n.value
        if isinstance(n, ast.Name):
            if n.id in env:
                return env[n.id]
            if n.id in PYGMENTS_NAMES and fi.module.imports.get(n.id, "").startswith("pygments.token"):
                return ("kind", PYGMENTS_NAMES[n.id])
            if n.id in fi.module.assigns:
                return self.ev(fi.module.assigns[n.id], {}, fi)     # module-level constant
            o = fi.outer
            while o is not None:                                    # closure over the enclosing function's parameters
                if n.id in o.params():
                    d = o.param_default(n.id)
                    if d is not None:
                        return self.ev(d, {}, o)
                o = o.outer
            raise Unsupported(f"{fi.site(n)}: free name {n.id}")
        if isinstance(n, (ast.List, ast.Tuple, ast.Set)):
            return ("coll", [self.ev(e, env, fi) for e in n.elts])
        if isinstance(n, ast.Attribute):
            obj = self.ev(n.value, env, fi)
            if isinstance(obj, tuple) and obj[0] == "kind":
                sub = f"{obj[1]}.{n.attr}" if obj[1] != "Token" else n.attr
                return ("kind", sub)
            if isinstance(obj, PredObj):
                if n.attr in obj.fields:
                    return obj.fields[n.attr]
                raise Unsupported(f"{fi.site(n)}: field {n.attr} of {obj.ci.name} unknown")
            if isinstance(obj, AToken):
                if n.attr == "value":
                    return obj.value
                if n.attr == "token_type":
                    return ("tt", obj.kind)
            raise Unsupported(f"{fi.site(n)}: attribute {n.attr}")
        if isinstance(n, ast.BoolOp):
            if isinstance(n.op, ast.And):
                v = True
                for x in n.values:
                    v = self.ev(x, env, fi)
                    if not self.truth(v):
                        return v
                return v
            v = False
            for x in n.values:
                v = self.ev(x, env, fi)
                if self.truth(v):
                    return v
            return v
        if isinstance(n, ast.UnaryOp) and isinstance(n.op, ast.Not):
            return not self.truth(self.ev(n.operand, env, fi))
        if isinstance(n, ast.UnaryOp) and isinstance(n.op, ast.USub):
            return -self.ev(n.operand, env, fi)
        if isinstance(n, ast.Compare):
            left = self.ev(n.left, env, fi)
            for op, c in zip(n.ops, n.comparators):
                right = self.ev(c, env, fi)
                if not self.cmp(op, left, right, fi, n):
                    return False
                left = right
            return True
        if isinstance(n, ast.BinOp) and isinstance(n.op, (ast.Add, ast.Sub)):
            a, b = self.ev(n.left, env, fi), self.ev(n.right, env, fi)
            return a + b if isinstance(n.op, ast.Add) else a - b
        if isinstance(n, ast.Call):
            f = n.func
            args = [self.ev(a, env, fi) for a in n.args]
            if isinstance(f, ast.Attribute):
                if isinstance(f.value, ast.Call) and isinstance(f.value.func, ast.Name) and f.value.func.id == "super":
                    obj = env["self"]
                    for b in fi.cls.mro()[1:]:
                        if f.attr in b.methods:
                            m = b.methods[f.attr]
                            return self.run(m, {"self": obj, **dict(zip([p for p in m.params() if p != "self"], args))})
                    return None
                obj = self.ev(f.value, env, fi)
                return self.call_method(obj, f.attr, args)
            if isinstance(f, ast.Name) and f.id == "isinstance" and len(n.args) == 2:
                obj = args[0] if args else None
                clsname = attr_chain(n.args[1])
                if isinstance(obj, PredObj):
                    return any(c.name == clsname for c in obj.ci.mro())
                if isinstance(obj, AToken):
                    return clsname == "Token"
                return False
            if isinstance(f, ast.Name) and f.id == "len" and len(args) == 1 and isinstance(args[0], str):
                return len(args[0])
            if isinstance(f, ast.Name) and f.id in ("frozenset", "set", "tuple", "list") and len(args) == 1 and isinstance(args[0], tuple) and args[0][0] == "coll":
                return args[0]
            if isinstance(f, ast.Name) and f.id in fi.nested if hasattr(fi, "nested") else False:
                sub = fi.nested[f.id]
                return self.run(sub, dict(zip(sub.params(), args)))
            if isinstance(f, ast.Name) and f.id == "str" and len(args) == 1:
                a = args[0]
                if isinstance(a, tuple) and a[0] == "tt":
                    return "Token." + KINDS[a[1]][-1]
                if isinstance(a, AToken):
                    return self.call_method(a, "__str__", [])      # the token class's own text form
                if isinstance(a, PredObj):
                    return self.call_method(a, "__str__", [])
                if not isinstance(a, (str, int, float, bool)) and a is not None:
                    raise Unsupported(f"{fi.site(n)}: str() of {a!r}")
                return str(a)
            raise Unsupported(f"{fi.site(n)}: call {unparse(f)}")
        if isinstance(n, ast.IfExp):
            return self.ev(n.body if self.truth(self.ev(n.test, env, fi)) else n.orelse, env, fi)
        raise Unsupported(f"{fi.site(n)}: expression {type(n).__name__}")

    def cmp(self, op, a, b, fi, n):
        if isinstance(op, ast.In):
            if isinstance(a, tuple) and a[0] == "tt" and isinstance(b, tuple) and b[0] == "kind":
                return b[1] in KINDS[a[1]] or b[1] == KINDS[a[1]][-1]
            if isinstance(a, tuple) and a[0] == "tt" and isinstance(b, tuple) and b[0] == "coll":
                # membership in a set/tuple of token types is by identity of the exact type
                exact = KINDS[a[1]][-1]
                return any(isinstance(x, tuple) and x[0] == "kind" and x[1] == exact for x in b[1])
            if isinstance(b, tuple) and b[0] == "coll":
                return any(x == a for x in b[1])
            raise Unsupported(f"{fi.site(n)}: `in` on {a!r}, {b!r}")
        if isinstance(op, ast.NotIn):
            return not self.cmp(ast.In(), a, b, fi, n)
        if isinstance(a, tuple) or isinstance(b, tuple):
            if isinstance(op, (ast.Eq, ast.NotEq)) and isinstance(a, tuple) and isinstance(b, tuple):
                # token_type == Kind  (exact identity of the kind node)
                ka = KINDS[a[1]][-1] if a[0] == "tt" else a[1]
                kb = KINDS[b[1]][-1] if b[0] == "tt" else b[1]
                return (ka == kb) == isinstance(op, ast.Eq)
            raise Unsupported(f"{fi.site(n)}: comparison of token kinds")
        if isinstance(a, AToken) or isinstance(b, AToken) or isinstance(a, PredObj) or isinstance(b, PredObj):
            # Identity.accept: `self.item == item` with a Token: Token.__eq__ returns
            # NotImplemented for non-tokens, so a str never equals a token.
            if isinstance(op, (ast.Eq, ast.NotEq)):
                eq = False
                if isinstance(a, PredObj) and isinstance(b, PredObj):
                    eq = self._pred_eq(a, b)
                return eq == isinstance(op, ast.Eq)
            raise Unsupported(f"{fi.site(n)}: ordering of objects")
        try:
            return {ast.Eq: lambda: a == b, ast.NotEq: lambda: a != b, ast.Lt: lambda: a < b, ast.LtE: lambda: a <= b,
                    ast.Gt: lambda: a > b, ast.GtE: lambda: a >= b}[type(op)]()
        except (KeyError, TypeError):
            raise Unsupported(f"{fi.site(n)}: comparison {type(op).__name__} on {a!r}, {b!r}")

    def _pred_eq(self, a: PredObj, b: PredObj) -> bool:
        return a.ci is b.ci and all(
            (self._pred_eq(x, y) if isinstance(x, PredObj) and isinstance(y, PredObj) else x == y)
            for x, y in zip(a.fields.values(), b.fields.values()))



class Interp:
    """Semantics of the predicate classes' methods and of Token.is_*: the methods are evaluated by the
    abstract interpreter (sa.absint.MiniInterp) on instances built through the repo's own constructors and
    on instances of the repo's Token carrying a pygments type.  A method outside the interpreted fragment
    falls back to the older, narrower evaluator; if that fails too: Unsupported (-> ANALYSIS-ERROR)."""

    def __init__(self, prj: Project):
        from .absint import MiniInterp
        self.prj = prj
        self.token_cls = prj.cls("codelimit.common.Token:Token")
        self.predicate_base = prj.cls("codelimit.common.gsm.predicate.Predicate:Predicate")
        self.it = MiniInterp(prj, max_steps=10 ** 9, max_depth=30)
        self._tokens: dict = {}
        self.old = None

    def _pred_class(self, name: str) -> ClassInfo:
        cands = [c for c in self.prj.classes.values() if c.name == name and c.is_subclass_of(self.predicate_base)]
        if len(cands) != 1:
            raise AnalysisError(f"predicate class {name}: {len(cands)} candidates")
        return cands[0]

    def instantiate(self, p: Pred):
        from .absint import PyRaise, Unknown
        ci = self._pred_class(p.cls)
        args = [self.instantiate(a) if isinstance(a, Pred) else a for a in p.args]
        anchor = ci.find_method("__init__") or ci.find_method("accept")
        try:
            obj = self.it.construct(ci, args, {}, None, self.prj.func(anchor.qual))
        except Unknown as e:
            raise Unsupported(f"construction of {p}: {e}")
        except PyRaise as e:
            raise Unsupported(f"construction of {p} raises {e.name}")
        obj.ci = ci
        return obj

    def token(self, a: "AToken"):
        from .absint import make_token
        k = (a.kind, a.value)
        if k not in self._tokens:
            self._tokens[k] = make_token(self.it, self.prj, KINDS[a.kind][-1] if a.kind in KINDS else a.kind, a.value)
        return self._tokens[k]

    def call_method(self, obj, name: str, args: list):
        from .absint import PyRaise, Sym, Unknown
        if isinstance(obj, AToken):
            obj = self.token(obj)
        if not isinstance(obj, Sym) or obj.cls is None:
            raise Unsupported(f"call .{name} on {type(obj).__name__}")
        m = obj.cls.find_method(name)
        if m is None:
            raise Unsupported(f"{obj.cls.name} has no method {name}")
        args = [self.token(a) if isinstance(a, AToken) else a for a in args]
        self.it.steps = 0
        try:
            return self.it.call(self.prj.func(m.qual), args, {}, obj)
        except Unknown as e:
            raise Unsupported(f"{obj.cls.name}.{name}: {e}")
        except PyRaise as e:
            raise Unsupported(f"{obj.cls.name}.{name} raises {e.name}")


def _load(t):
    import copy
    t = copy.deepcopy(t)
    t.ctx = ast.Load()
    return t


# ----------------------------------------------------------------------------
# depth-abstracted stepping of a predicate instance
# ----------------------------------------------------------------------------

_STATE_READS: dict = {}


def state_reads(prj: Project, ci: ClassInfo) -> set[str]:
    """names of the fields of `self` read by accept()/is_open() of the class (every definition along the MRO) and by
    the methods of the object these call, transitively"""
    key = (id(prj), ci.qual)
    if key in _STATE_READS:
        return _STATE_READS[key]
    todo = ["accept", "is_open"]
    seen, reads = set(), set()
    while todo:
        name = todo.pop()
        if name in seen:
            continue
        seen.add(name)
        for c in ci.mro():
            m = c.methods.get(name)
            if m is None:
                continue
            m = prj.func(m.qual)
            me = m.params()[0] if m.params() else "self"
            for n in m.walk():
                if isinstance(n, ast.Attribute) and isinstance(n.value, ast.Name) and n.value.id == me:
                    if isinstance(n.ctx, ast.Load):
                        reads.add(n.attr)
                        todo.append(n.attr)       # a method of the object (called or passed on)
                elif isinstance(n, ast.AugAssign) and isinstance(n.target, ast.Attribute) and \
                        isinstance(n.target.value, ast.Name) and n.target.value.id == me:
                    reads.add(n.target.attr)
                elif isinstance(n, ast.Call) and isinstance(n.func, ast.Name) and n.func.id in ("getattr", "vars") :
                    reads.add("*")
    _STATE_READS[key] = reads
    return reads


class PredModel:
    """Semantics of one predicate term on abstract tokens, with the `depth` of
    Balanced predicates (anywhere inside the term) saturating at `cap`:
    depth values 0..cap-1 are exact, `cap` stands for '>= cap'."""

    def __init__(self, interp: Interp, pred: Pred, cap: int):
        self.interp, self.pred, self.cap = interp, pred, cap
        self.stateful = bool(self._slots(self.interp.instantiate(self.pred)))

    def _slots(self, obj) -> list:
        """(object, field) pairs that make up the state of the predicate: the integer / boolean fields which
        accept() or is_open() (or a method of the object they call) read.  On the shipped classes that is the
        `depth` of Balanced; `satisfied` is written but never read by them."""
        out = []
        ci = getattr(obj, "cls", None) or obj.ci
        reads = state_reads(self.interp.prj, ci)
        for f, v in obj.fields.items():
            if (f in reads or "*" in reads) and isinstance(v, (int, bool)):
                out.append((obj, f))
        for v in obj.fields.values():
            if hasattr(v, "fields") and getattr(v, "cls", getattr(v, "ci", None)) is not None:
                out.extend(self._slots(v))
        return out

    def initial(self) -> tuple:
        obj = self.interp.instantiate(self.pred)
        return tuple(o.fields[f] for o, f in self._slots(obj))

    def slot_names(self) -> list[str]:
        return [f for _, f in self._slots(self.interp.instantiate(self.pred))]

    LOW = -2

    def _with_state(self, exact: tuple):
        obj = self.interp.instantiate(self.pred)
        for (o, f), d in zip(self._slots(obj), exact):
            o.fields[f] = d
        return obj

    def _concretisations(self, state: tuple):
        # a saturated class '>= cap' is represented by cap and cap+1 (and '<= LOW' by
        # LOW and LOW-1): the methods only compare depth with the literal 0 and
        # add/subtract 1, so members on the same side of every literal behave
        # alike; both representatives are evaluated and all outcomes are kept.
        opts = [((d,) if isinstance(d, bool) else (d, d + 1) if d >= self.cap else (d, d - 1) if d <= self.LOW else (d,)) for d in state]
        return itertools.product(*opts)

    def _abstract(self, exact: tuple) -> tuple:
        return tuple(d if isinstance(d, bool) else max(min(d, self.cap), self.LOW) for d in exact)

    def accept(self, state: tuple, tok: AToken) -> set[tuple[bool, tuple]]:
        """All (accepted, next abstract state) outcomes (a set: saturation makes the
        successor of '>= cap' under a decrement ambiguous between cap-1 and cap)."""
        res = set()
        for exact in self._concretisations(state):
            obj = self._with_state(exact)
            r = self.interp.call_method(obj, "accept", [tok])
            if not isinstance(r, bool):
                raise Unsupported(f"{self.pred}.accept returned non-bool {r!r}")
            nxt = tuple(o.fields[f] for o, f in self._slots(obj))
            if not all(isinstance(x, (int, bool)) for x in nxt):
                raise Unsupported(f"{self.pred}.accept leaves a non-integer state {nxt!r}")
            res.add((r, self._abstract(nxt)))
        return res

    def is_open(self, state: tuple) -> Optional[bool]:
        vals = set()
        for exact in self._concretisations(state):
            obj = self._with_state(exact)
            m = (getattr(obj, "cls", None) or obj.ci).find_method("is_open")
            if m is None:
                return None
            vals.add(bool(self.interp.call_method(obj, "is_open", [])))
        if len(vals) != 1:
            raise Unsupported(f"{self.pred}.is_open not uniform on depth class {state}")
        return vals.pop()


# ----------------------------------------------------------------------------
# automaton model (Thompson NFA + subset construction), predicate identity = Pred equality
# ----------------------------------------------------------------------------

class NFAModel:
    def __init__(self):
        self.n = 0
        self.eps: dict[int, set[int]] = {}
        self.trans: dict[int, list[tuple[Pred, int]]] = {}

    def new(self) -> int:
        self.n += 1
        self.eps[self.n] = set()
        self.trans[self.n] = []
        return self.n

    def build(self, p: Pat) -> tuple[int, int]:
        if p.op == "atom":
            s, a = self.new(), self.new()
            self.trans[s].append((p.pred, a))
            return s, a
        if p.op == "seq":
            if not p.kids:
                raise AnalysisError("empty sequence pattern")
            s, a = self.build(p.kids[0])
            for k in p.kids[1:]:
                s2, a2 = self.build(k)
                self.eps[a].add(s2)
                a = a2
            return s, a
        s, a = self.new(), self.new()
        if p.op == "union":
            for k in p.kids:
                ks, ka = self.build(k)
                self.eps[s].add(ks)
                self.eps[ka].add(a)
            return s, a
        ks, ka = self.build(p.kids[0])
        self.eps[s].add(ks)
        self.eps[ka].add(a)
        if p.op in ("opt", "star"):
            self.eps[s].add(a)
        if p.op in ("star", "plus"):
            self.eps[ka].add(ks)
        return s, a

    def closure(self, states) -> frozenset:
        seen, todo = set(), list(states)
        while todo:
            x = todo.pop()
            if x in seen:
                continue
            seen.add(x)
            todo.extend(self.eps[x])
        return frozenset(seen)


class DFAModel:
    def __init__(self, pat: Pat):
        self.pat = pat
        nfa = NFAModel()
        s, a = nfa.build(pat)
        self.nfa = nfa
        start = nfa.closure([s])
        self.start = start
        self.states = {start}
        self.trans: dict[frozenset, list[tuple[Pred, frozenset]]] = {}
        self.accepting = set()
        todo = [start]
        while todo:
            T = todo.pop()
            if T in self.trans:
                continue
            if a in T:
                self.accepting.add(T)
            preds = []
            for q in sorted(T):
                for p, _ in nfa.trans[q]:
                    if p not in preds:
                        preds.append(p)
            outs = []
            for p in preds:
                tgt = nfa.closure([t for q in T for (pp, t) in nfa.trans[q] if pp == p])
                outs.append((p, tgt))
                if tgt not in self.trans:
                    todo.append(tgt)
                    self.states.add(tgt)
            self.trans[T] = outs

    def name(self, T) -> str:
        order = sorted(self.states, key=lambda s: sorted(s))
        return f"S{order.index(T)}"


def token_classes(pat: Pat) -> list[AToken]:
    lits = set()
    for a in pat.atoms():
        lits |= a.pred.literals()
    values = sorted(lits) + ["\x00other"]
    kinds = ["Keyword", "Keyword.Declaration", "Name", "Name.Other", "Punctuation", "Operator", "Operator.Word", "Literal.String", "Other"]
    return [AToken(k, v) for k in kinds for v in values]


# ----------------------------------------------------------------------------
# the selection rule of Pattern.consume, read from its source
# ----------------------------------------------------------------------------

class ConsumeRule:
    def __init__(self):
        self.priority_open = False      # transitions of open predicates are tried exclusively
        self.raises_on_second = False   # a second accepting transition raises
        self.first_match = False        # the first accepting transition in list order wins
        self.last_match = False         # the last accepting transition in list order wins
        self.copies_predicates = False  # predicates are deep-copied per Pattern instance
        self.order_dependent = []       # scenarios whose outcome depends on the order of the transition list
        self.history_dependent = []     # scenarios whose outcome depends on an earlier attempt over the same automaton
        self.history_scenarios = 0
        self.history_unknown = None
        self.other = []                 # scenarios that fit none of the recognised selection rules
        self.scenarios = 0
        self.fi = None
        self.loop = None
        self.raise_node = None


def _transition_template(prj: Project):
    """how the repo's subset construction represents a transition: ('tuple', None), ('class', its class) or (None, None) when that
    cannot be established (the automaton of the one-atom expression is built by evaluating the repo's construction)"""
    from .absint import MiniInterp, PyRaise, Sym, Unknown
    try:
        it = MiniInterp(prj, max_steps=100000)
        e2n = prj.func("codelimit.common.gsm.Expression:expression_to_nfa")
        n2d = prj.func("codelimit.common.gsm.Expression:nfa_to_dfa")
        dfa = it.call(n2d, [it.call(e2n, [["x"]], {})], {})
        start = it.getattr(dfa, "start", e2n, None)
        tr = it.getattr(start, "transition", e2n, None)
        if isinstance(tr, list) and tr:
            t0 = tr[0]
            if type(t0) is tuple and len(t0) == 2:
                return ("tuple", None)
            if isinstance(t0, Sym) and t0.cls is not None and getattr(t0, "tuple_order", None) and len(t0.tuple_order) == 2:
                return ("class", t0.cls)
    except (Unknown, PyRaise, AnalysisError, KeyError):
        pass
    return (None, None)


def consume_rule(prj: Project) -> ConsumeRule:
    """The selection rule of Pattern.consume, obtained by evaluating its source (helpers included, whatever their shape)
    on every scenario of a state with two outgoing transitions: both list orders x which predicates are open x which
    accept the item.  The predicates are symbolic; accept()/is_open() answers come from the enumerated scenario."""
    from .absint import BoundFunc, MiniInterp, PyRaise, Sym, Unknown
    qual = "codelimit.common.gsm.Pattern:Pattern.consume"
    fi = prj.func(qual)
    cls = fi.cls
    r = ConsumeRule()
    r.fi = fi
    for n in fi.walk():
        if isinstance(n, ast.Raise) and r.raise_node is None:
            r.raise_node = n
        if isinstance(n, ast.For) and r.loop is None:
            r.loop = n
    outcomes = {}
    shared_calls = []
    template = [None]

    def group_class():
        """a concrete predicate class of the repo that overrides is_open (a group predicate), with two-string construction"""
        base = prj.classes.get("codelimit.common.gsm.predicate.Predicate:Predicate")
        if base is None:
            return None
        for ci in sorted(base.all_subclasses(), key=lambda c: c.qual):
            if "is_open" in ci.methods and "accept" in ci.methods and ci.find_method("__init__") is not None \
                    and len(ci.find_method("__init__").params()) == 3:
                return ci
        return None
    classed = [False]

    def scenario(order, opens, accepts, before=None):
        P = {i: Sym(f"P{i}") for i in (1, 2)}
        if classed[0]:
            # the predicates are instances of a group-predicate class of the repo (questions about their class are answered by
            # the class); accept() / is_open() still answer as the scenario says
            gc = group_class()
            if gc is None:
                raise Unknown("no group-predicate class to instantiate")
            mk0 = MiniInterp(prj)
            P = {i: mk0.construct(gc, [("(", "[")[i - 1], (")", "]")[i - 1]], {}, None, fi) for i in (1, 2)}
            for i in (1, 2):
                P[i].name = f"P{i}"
        T = {i: Sym(f"T{i}") for i in (1, 2)}
        copies = {}
        # states and automaton are instances of the repo's own classes (their methods are interpreted); the pattern is built by
        # its own constructor when that is possible, so that whatever helper objects it creates exist
        state_cls = prj.classes.get("codelimit.common.gsm.automata.State:State")
        dfa_cls = prj.classes.get("codelimit.common.gsm.automata.DFA:DFA")
        state = None
        if template[0] is None:
            template[0] = _transition_template(prj)
        kind, tcls = template[0]
        if kind is not None:
            # the automaton is made of the repo's own objects: states by State(), transitions in the representation its subset
            # construction produces (pairs, or instances of its transition class), the automaton by DFA(start, accepting)
            mk = MiniInterp(prj)
            try:
                st = {i: mk.construct(state_cls, [], {}, None, fi) for i in (0, 1, 2)}
                for i in (1, 2):
                    T[i] = st[i]
                    T[i].name = f"T{i}"
                lst = mk.getattr(st[0], "transition", fi, None)
                if not isinstance(lst, list):
                    raise Unknown("State.transition is not a list")
                for i in order:
                    lst.append((P[i], T[i]) if kind == "tuple" else mk.construct(tcls, [P[i], T[i]], {}, None, fi))
                state = st[0]
                state.name = "S"
                dfa = mk.construct(dfa_cls, [state, [T[1], T[2]]], {}, None, fi)
            except (Unknown, PyRaise):
                state = None
        if state is None:
            for i in (1, 2):
                T[i] = Sym(f"T{i}", _cls=state_cls, transition=[], epsilon_transitions=[], id=100 + i)
            state = Sym("S", _cls=state_cls, transition=[(P[i], T[i]) for i in order], epsilon_transitions=[], id=100)
            dfa = Sym("dfa", _cls=dfa_cls, start=state, accepting=[T[1], T[2]], accepting_states=[T[1], T[2]])
        item = Sym("item")
        me = None

        def hook(it, kind, f, args, kwargs, node, cur):
            if kind != "call":
                return NotImplemented
            if isinstance(f, BoundFunc) and isinstance(f.self_obj, Sym) and f.fi.name in ("accept", "is_open") and \
                    any(P[i] is f.self_obj.fields.get("origin", f.self_obj) for i in (1, 2)):
                f = ("method", f.self_obj, f.fi.name)
            if isinstance(f, tuple) and f and f[0] == "method":
                _, obj, name = f
                if me is not None and obj is me:
                    m = cls.find_method(name)
                    if m is None:
                        raise Unknown(f"method {name} of Pattern")
                    return it.call(prj.func(m.qual), args, kwargs, self_obj=me)
                origin = obj.fields.get("origin")
                base = origin if origin is not None else obj
                idx = next((i for i in (1, 2) if P[i] is base), None)
                if idx is None:
                    raise Unknown(f"method {name} of {obj}")
                if origin is None:
                    shared_calls.append((name, cur.site(node)))
                if name == "accept":
                    return accepts[idx]
                if name == "is_open":
                    return opens[idx]
                raise Unknown(f"predicate method {name}")
            if isinstance(f, tuple) and f and f[0] == "external" and f[1].replace(":", ".").split(".")[-1] in ("deepcopy", "copy"):
                x = args[0]
                if isinstance(x, Sym):
                    c = Sym("copy:" + x.name, _cls=x.cls, **{k: v for k, v in x.fields.items() if k != "origin"})
                    c.fields["origin"] = x.fields.get("origin", x)
                    return copies.setdefault((x.uid, len(copies)), c)
                raise Unknown("copy of a non-predicate")
            return NotImplemented
        it = MiniInterp(prj, hook)

        def new_pattern():
            try:
                m_ = it.construct(cls, [0, dfa], {}, None, fi)
                if it.getattr(m_, "state", fi, None) is not state:
                    raise Unknown("the constructed pattern does not start in the automaton's start state")
            except (Unknown, PyRaise):
                m_ = Sym("pattern", _cls=cls, state=state, tokens=[], predicate_map={}, start=0, end=0, automata=dfa)
            return m_
        if before is not None:
            # another attempt over the same automaton consumed an item first (its own copies answer as `before` says)
            want_opens, want_accepts = dict(opens), dict(accepts)
            opens.update(before[0])
            accepts.update(before[1])
            me = new_pattern()
            try:
                it.call(fi, [Sym("item0")], {}, self_obj=me)
            except PyRaise:
                pass
            opens.update(want_opens)
            accepts.update(want_accepts)
        me = new_pattern()
        try:
            v = it.call(fi, [item], {}, self_obj=me)
        except PyRaise as e:
            return ("raise", e.name)
        if v is None:
            return ("none",)
        try:
            now = it.getattr(me, "state", fi, None)
        except (Unknown, PyRaise):
            now = me.fields.get("state")
        for i in (1, 2):
            if v is T[i]:
                if now is not T[i]:
                    return ("returns-without-moving", i)
                return ("to", i)
        if v is state:
            return ("stays",)
        return ("other", repr(v))

    def all_scenarios():
        outcomes.clear()
        del shared_calls[:]
        for order in ((1, 2), (2, 1)):
            for o1 in (False, True):
                for o2 in (False, True):
                    for a1 in (False, True):
                        for a2 in (False, True):
                            outcomes[(order, o1, o2, a1, a2)] = scenario(order, {1: o1, 2: o2}, {1: a1, 2: a2})
    try:
        try:
            all_scenarios()
        except Unknown:
            classed[0] = True
            all_scenarios()
    except Unknown as e:
        raise AnalysisError(f"{fi.disp}: cannot evaluate the selection rule of Pattern.consume ({e})")
    r.scenarios = len(outcomes)
    r.copies_predicates = not shared_calls
    # an attempt's outcome must not depend on what another attempt over the same automaton did before it (find_all runs many
    # attempts on one automaton): every scenario again, after another pattern consumed an item in every scenario
    r.history_dependent = []
    r.history_scenarios = 0
    if not shared_calls:
        n_shared = len(shared_calls)
        try:
            combos = [(o1, o2, a1, a2) for o1 in (False, True) for o2 in (False, True) for a1 in (False, True) for a2 in (False, True)]
            for b in combos:
                for a in combos:
                    r.history_scenarios += 1
                    out = scenario((1, 2), {1: a[0], 2: a[1]}, {1: a[2], 2: a[3]}, before=({1: b[0], 2: b[1]}, {1: b[2], 2: b[3]}))
                    if out != outcomes[((1, 2),) + a]:
                        r.history_dependent.append(f"open={a[:2]} accept={a[2:]}: {outcomes[((1, 2),) + a]} for a fresh automaton, {out} after another attempt on the "
                                                   f"same automaton consumed an item with open={b[:2]} accept={b[2:]}")
        except Unknown as e:
            r.history_scenarios = 0
            r.history_unknown = str(e)
        del shared_calls[n_shared:]
    r.shared_calls = shared_calls
    for (order, o1, o2, a1, a2), out in outcomes.items():
        if order == (1, 2) and outcomes[((2, 1), o1, o2, a1, a2)] != out:
            r.order_dependent.append(f"open={o1, o2} accept={a1, a2}: {out} with the transitions listed [1,2], "
                                     f"{outcomes[((2, 1), o1, o2, a1, a2)]} listed [2,1]")

    def spec(prio, o1, o2, a1, a2, both):
        cand = [i for i in (1, 2) if (o1, o2)[i - 1]] if prio and (o1 or o2) else [1, 2]
        acc = [i for i in cand if (a1, a2)[i - 1]]
        if not acc:
            return ("none",)
        if len(acc) == 1:
            return ("to", acc[0])
        return both
    fits = {}
    for prio in (True, False):
        ok_raise = all(out[0] == "raise" if spec(prio, *k[1:], ("both",)) == ("both",) else out == spec(prio, *k[1:], None)
                       for k, out in outcomes.items())
        fits[prio] = ok_raise
    if fits[True] and not fits[False]:
        r.priority_open, r.raises_on_second = True, True
        return r
    if fits[False]:
        r.priority_open, r.raises_on_second = False, True
        return r
    # not the strict rule: classify what happens when both candidates accept
    for prio in (True, False):
        single_ok = all(out == spec(prio, *k[1:], None) for k, out in outcomes.items() if spec(prio, *k[1:], ("both",)) != ("both",))
        if not single_ok:
            continue
        r.priority_open = prio
        both = {k: out for k, out in outcomes.items() if spec(prio, *k[1:], ("both",)) == ("both",)}
        if all(out == ("to", k[0][0]) for k, out in both.items()):
            r.first_match = True
        elif all(out == ("to", k[0][1]) for k, out in both.items()):
            r.last_match = True
        else:
            r.other = sorted(f"{k}: {out}" for k, out in both.items() if out[0] != "raise")
        return r
    r.other = sorted(f"{k}: {out}" for k, out in outcomes.items())
    r.priority_open = None
    return r


# ----------------------------------------------------------------------------
# symbolic fragments of Operator.apply (C13-R1)
# ----------------------------------------------------------------------------

class Frag:
    """Symbolic heap of one apply() run: nodes with epsilon and labelled edges."""

    def __init__(self):
        self.n = 0
        self.eps: dict[int, list[int]] = {}
        self.lab: dict[int, list[tuple[str, int]]] = {}
        self.alias: dict[int, int] = {}
        self.result = None   # (start, accepting) pushed
        self.labels: list[str] = []

    def node(self) -> int:
        self.n += 1
        self.eps[self.n] = []
        self.lab[self.n] = []
        return self.n

    def rep(self, x: int) -> int:
        while x in self.alias:
            x = self.alias[x]
        return x

    def subnfa(self, label: str) -> tuple[int, int]:
        s, a = self.node(), self.node()
        self.lab[s].append((label, a))
        self.labels.append(label)
        return s, a

    def invariant_breaches(self) -> list[str]:
        """Thompson invariants the black-box reading of sub-automata relies on and
        every operator must re-establish for its own result."""
        out = []
        if self.result is None:
            return out
        s0, acc = self.rep(self.result[0]), self.rep(self.result[1])
        for x in list(self.eps):
            if x in self.alias:
                continue
            if any(self.rep(y) == s0 for y in self.eps[x]):
                out.append("an epsilon edge enters the result's start state")
            if any(self.rep(t) == s0 for (_, t) in self.lab[x]):
                out.append("a symbol edge enters the result's start state")
        if self.eps[acc] or self.lab[acc]:
            out.append("the result's accepting state has outgoing edges")
        if s0 == acc:
            out.append("start and accepting state coincide")
        return sorted(set(out))

    # language as a DFA over labels: (start, trans{(state,label)->state}, accepting)
    def dfa(self):
        if self.result is None:
            raise AnalysisError("apply() pushed no NFA")
        s0, acc = self.rep(self.result[0]), self.rep(self.result[1])

        def closure(xs):
            seen, todo = set(), [self.rep(x) for x in xs]
            while todo:
                x = todo.pop()
                if x in seen:
                    continue
                seen.add(x)
                todo.extend(self.rep(y) for y in self.eps[x])
            return frozenset(seen)
        start = closure([s0])
        trans, accs, todo, seen = {}, set(), [start], {start}
        while todo:
            T = todo.pop()
            if acc in T:
                accs.add(T)
            for l in sorted(set(self.labels)):
                tg = closure([t for q in T for (ll, t) in self.lab[q] if ll == l])
                if tg:
                    trans[(T, l)] = tg
                    if tg not in seen:
                        seen.add(tg)
                        todo.append(tg)
        return start, trans, accs


def regex_dfa(rx, labels):
    """rx: nested tuples ('sym',l) ('cat',a,b) ('alt',a,b) ('opt',a) ('star',a) ('plus',a)."""
    f = Frag()

    def build(r):
        k = r[0]
        if k == "sym":
            return f.subnfa(r[1])
        if k == "cat":
            s1, a1 = build(r[1])
            s2, a2 = build(r[2])
            f.eps[a1].append(s2)
            return s1, a2
        s, a = f.node(), f.node()
        if k == "alt":
            for sub in r[1:]:
                ss, aa = build(sub)
                f.eps[s].append(ss)
                f.eps[aa].append(a)
            return s, a
        ss, aa = build(r[1])
        f.eps[s].append(ss)
        f.eps[aa].append(a)
        if k in ("opt", "star"):
            f.eps[s].append(a)
        if k in ("star", "plus"):
            f.eps[aa].append(ss)
        return s, a
    f.result = build(rx)
    f.labels = list(labels)
    return f.dfa()


def dfa_difference(d1, d2, labels) -> Optional[list[str]]:
    """A word accepted by exactly one of the two DFAs, or None if equivalent."""
    (s1, t1, a1), (s2, t2, a2) = d1, d2
    seen = {(s1, s2): None}
    todo = [(s1, s2)]
    while todo:
        cur = todo.pop(0)
        x, y = cur
        if (x in a1) != (y in a2):
            w = []
            c = cur
            while seen[c] is not None:
                c, l = seen[c]
                w.append(l)
            return list(reversed(w))
        for l in sorted(set(labels)):
            nx = t1.get((x, l), frozenset()) if x else frozenset()
            ny = t2.get((y, l), frozenset()) if y else frozenset()
            if not nx and not ny:
                continue
            nxt = (nx, ny)
            if nxt not in seen:
                seen[nxt] = (cur, l)
                todo.append(nxt)
    return None


class ApplyInterp:
    """Abstract run of an Operator.apply(self, stack) body on a symbolic heap."""

    def __init__(self, prj: Project, fi: FuncInfo, branch_choice: dict, stack_depth: int,
                 frag: "Frag | None" = None, stack: list | None = None, sub=None, atom_label: str | None = None):
        self.prj, self.fi = prj, fi
        self.frag = frag if frag is not None else Frag()
        self.branch_choice = branch_choice   # id(If node) -> bool for data-dependent tests
        self.stack: list[tuple[int, int]] = stack if stack is not None else []
        self.popped = 0
        self.sub = sub                  # callback: field name -> ('nfa', start, accepting) built in the same heap
        self.atom_label = atom_label
        if stack is None:
            for i in range(stack_depth):
                self.stack.append(self.frag.subnfa(f"S{i}"))   # S0 pushed first
        self.env: dict[str, object] = {}
        self.undecided: list[ast.If] = []
        self.returned = False

    def run(self):
        self.block(self.fi.node.body)
        if self.frag.result is None and self.stack:
            self.frag.result = self.stack[-1]
        elif self.stack:
            self.frag.result = self.stack[-1]
        return self.frag

    def block(self, stmts):
        for st in stmts:
            if self.returned:
                return
            self.stmt(st)

    def stmt(self, st):
        fi = self.fi
        if isinstance(st, ast.Return):
            self.returned = True
        elif isinstance(st, ast.Expr):
            if isinstance(st.value, ast.Constant):
                return
            self.ev(st.value)
        elif isinstance(st, ast.Assign) and len(st.targets) == 1:
            t = st.targets[0]
            if isinstance(t, ast.Name):
                self.env[t.id] = self.ev(st.value)
            elif isinstance(t, ast.Attribute) and t.attr in ("epsilon_transitions", "transition"):
                node = self.ev(t.value)
                if not isinstance(node, int):
                    raise Unsupported(f"{fi.site(st)}: store on non-state")
                node = self.frag.rep(node)
                val = self._as_list(self.ev(st.value))
                if not isinstance(val, list):
                    raise Unsupported(f"{fi.site(st)}: {t.attr} assigned a non-list")
                flat = []
                for x in val:
                    if isinstance(x, tuple) and x and x[0] == "starred":
                        flat.extend(x[1])
                    else:
                        flat.append(x)
                val = flat
                if t.attr == "epsilon_transitions":
                    self.frag.eps[node] = list(val)
                else:
                    self.frag.lab[node] = list(val)
            else:
                raise Unsupported(f"{fi.site(st)}: assignment target {unparse(t)}")
        elif isinstance(st, ast.AugAssign) and isinstance(st.target, ast.Attribute) and st.target.attr in ("epsilon_transitions", "transition"):
            node = self.frag.rep(self.ev(st.target.value))
            val = self.ev(st.value)
            (self.frag.eps if st.target.attr == "epsilon_transitions" else self.frag.lab)[node].extend(val)
        elif isinstance(st, ast.If):
            t = st.test
            # len(stack) < 2 style tests are decided by the scenario
            dec = self.stack_test(t)
            if dec is None:
                if id(st) in self.branch_choice:
                    dec = self.branch_choice[id(st)]
                else:
                    self.undecided.append(st)
                    dec = True
            self.block(st.body if dec else st.orelse)
        elif isinstance(st, ast.Pass):
            return
        else:
            raise Unsupported(f"{fi.site(st)}: statement {type(st).__name__} in apply()")

    def stack_test(self, t):
        if isinstance(t, ast.Compare) and len(t.ops) == 1 and isinstance(t.left, ast.Call) \
                and isinstance(t.left.func, ast.Name) and t.left.func.id == "len" \
                and isinstance(t.left.args[0], ast.Name) and t.left.args[0].id == "stack":
            c = const_int(t.comparators[0])
            if c is not None:
                n = len(self.stack)
                return {ast.Lt: n < c, ast.LtE: n <= c, ast.Gt: n > c, ast.GtE: n >= c, ast.Eq: n == c,
                        ast.NotEq: n != c}[type(t.ops[0])]
        return None

    def ev(self, n):
        fi = self.fi
        if isinstance(n, ast.Name):
            if n.id in self.env:
                return self.env[n.id]
            if n.id == "stack":
                return "STACK"
            raise Unsupported(f"{fi.site(n)}: free name {n.id}")
        if isinstance(n, ast.Attribute):
            if isinstance(n.value, ast.Name) and n.value.id == "self":
                return ("field", n.attr)
            base = self.ev(n.value)
            if isinstance(base, tuple) and base[0] == "nfa":
                if n.attr == "start":
                    return base[1]
                if n.attr == "accepting":
                    return base[2]
            if isinstance(base, int) and n.attr in ("epsilon_transitions", "transition"):
                return ("listref", n.attr, self.frag.rep(base))
            raise Unsupported(f"{fi.site(n)}: attribute {unparse(n)}")
        if isinstance(n, ast.List):
            return [self.ev(e) for e in n.elts]
        if isinstance(n, ast.Tuple):
            return tuple(self.ev(e) for e in n.elts)
        if isinstance(n, ast.BinOp) and isinstance(n.op, ast.Add):
            a, b = self._as_list(self.ev(n.left)), self._as_list(self.ev(n.right))
            if isinstance(a, list) and isinstance(b, list):
                return a + b
            raise Unsupported(f"{fi.site(n)}: + on non-lists in apply()")
        if isinstance(n, ast.Starred):
            return ("starred", self._as_list(self.ev(n.value)))
        if isinstance(n, ast.Call):
            f = n.func
            name = attr_chain(f) or ""
            if name == "list" and len(n.args) == 1:
                return self._as_list(self.ev(n.args[0]))
            if name == "State" and not n.args:
                return self.frag.node()
            if name == "expression_to_nfa" and len(n.args) == 1:
                a = self.ev(n.args[0])
                if isinstance(a, tuple) and a[0] == "field":
                    if self.sub is not None:
                        return self.sub(a[1])
                    s, acc = self.frag.subnfa(a[1])
                    return ("nfa", s, acc)
                raise Unsupported(f"{fi.site(n)}: expression_to_nfa of {unparse(n.args[0])}")
            if name == "NFA" and len(n.args) == 2:
                return ("nfa", self.ev(n.args[0]), self.ev(n.args[1]))
            if name == "Identity" and len(n.args) == 1:
                return ("pred", "item")
            if name == "isinstance":
                return ("isinstance",)
            if isinstance(f, ast.Attribute):
                recv = self.ev(f.value)
                if recv == "STACK":
                    if f.attr == "pop" and not n.args:
                        if not self.stack:
                            raise Unsupported(f"{fi.site(n)}: pop from an empty stack in this scenario")
                        s, a = self.stack.pop()
                        return ("nfa", s, a)
                    if f.attr == "append" and len(n.args) == 1:
                        v = self.ev(n.args[0])
                        if isinstance(v, tuple) and v[0] == "nfa":
                            self.stack.append((v[1], v[2]))
                            return None
                    raise Unsupported(f"{fi.site(n)}: stack.{f.attr}")
                if isinstance(recv, int) and f.attr == "assign" and len(n.args) == 1:
                    other = self.ev(n.args[0])
                    a, b = self.frag.rep(recv), self.frag.rep(other)
                    if a != b:
                        self.frag.alias[a] = b     # a takes over b's (shared) edge lists
                    return None
                if isinstance(recv, tuple) and recv[0] == "listref" and f.attr in ("append", "extend"):
                    v = self.ev(n.args[0])
                    tgt = self.frag.eps if recv[1] == "epsilon_transitions" else self.frag.lab
                    if f.attr == "append":
                        tgt[recv[2]].append(self._edge(v, recv[1]))
                    else:
                        tgt[recv[2]].extend(self._edge(x, recv[1]) for x in v)
                    return None
            raise Unsupported(f"{fi.site(n)}: call {unparse(n)[:60]}")
        raise Unsupported(f"{fi.site(n)}: expression {type(n).__name__} in apply()")

    def _as_list(self, v):
        if isinstance(v, tuple) and v and v[0] == "listref":
            return list((self.frag.eps if v[1] == "epsilon_transitions" else self.frag.lab)[v[2]])
        return v

    def _edge(self, v, kind):
        if kind == "epsilon_transitions":
            if not isinstance(v, int):
                raise Unsupported("epsilon edge to a non-state")
            return v
        if isinstance(v, tuple) and len(v) == 2 and isinstance(v[1], int):
            lab = v[0]
            if isinstance(lab, tuple) and lab[0] in ("field", "pred"):
                name = self.atom_label or "item"
                self.frag.labels.append(name)
                return (name, v[1])
        raise Unsupported(f"transition edge {v!r}")


def operator_fragments(prj: Project, ci: ClassInfo, stack_depth: int):
    """All fragments of ci.apply over the data-dependent branches (2^k, k small)."""
    fi = ci.methods.get("apply")
    if fi is None:
        raise AnalysisError(f"{ci.qual} defines no apply()")
    # discover undecided ifs with a first run, then enumerate their choices
    probe = ApplyInterp(prj, fi, {}, stack_depth)
    probe.run()
    ifs = probe.undecided
    out = []
    for choice in itertools.product([True, False], repeat=len(ifs)):
        bc = {id(i): c for i, c in zip(ifs, choice)}
        it = ApplyInterp(prj, fi, bc, stack_depth)
        frag = it.run()
        # normalise labelled edges appended through .lab lists assigned wholesale
        for k, lst in frag.lab.items():
            frag.lab[k] = [(e if isinstance(e, tuple) and isinstance(e[0], str) else e) for e in lst]
        out.append((dict(zip([unparse(i.test) for i in ifs], choice)), frag))
    return fi, out


# ----------------------------------------------------------------------------
# composing the extracted fragments (thorough tier of C13)
# ----------------------------------------------------------------------------

class Composer:
    """Builds the automaton of a whole pattern tree out of the fragments that the
    repo's own Operator.apply bodies wire (no black boxes): the sub-automaton of an
    operand is obtained by running the operand's apply in the same symbolic heap,
    and sequences follow expression_to_nfa (item.apply, then Concat.apply)."""
    CLS = {"atom": "Atom", "union": "Union", "opt": "Optional", "star": "ZeroOrMore", "plus": "OneOrMore"}

    def __init__(self, prj: Project):
        self.prj = prj
        base = prj.cls("codelimit.common.gsm.operator.Operator:Operator")
        self.ops = {c.name: c for c in base.all_subclasses()}

    def sequence(self, items: list, frag: Frag) -> tuple[int, int]:
        stack: list[tuple[int, int]] = []
        for it in items:
            self.apply(it, frag, stack)
            self._run(self.ops["Concat"].methods["apply"], frag, stack, None, None)
        if len(stack) != 1:
            raise AnalysisError(f"sequence left {len(stack)} automata on the stack")
        return stack.pop()

    def _items(self, p: Pat) -> list:
        return p.kids if p.op == "seq" else [p]

    def apply(self, p: Pat, frag: Frag, stack):
        if p.op == "seq":
            raise AnalysisError("a list nested directly in a list is not an operand the engine supports")
        ci = self.ops[self.CLS[p.op]]
        fi = ci.methods["apply"]
        fields = [f for f in ("left", "right", "expression")]
        kid_of = {}
        if p.op == "union":
            kid_of = {"left": p.kids[0], "right": p.kids[1]}
        elif p.op in ("opt", "star", "plus"):
            kid_of = {"expression": p.kids[0]}

        def sub(field):
            if field not in kid_of:
                raise Unsupported(f"{ci.name}.apply builds the automaton of unknown field {field}")
            s, a = self.sequence(self._items(kid_of[field]), frag)
            return ("nfa", s, a)
        label = p.pred.args[0] if p.op == "atom" and p.pred.args else None
        self._run(fi, frag, stack, sub, label)

    def _run(self, fi, frag, stack, sub, label):
        it = ApplyInterp(self.prj, fi, {}, 0, frag=frag, stack=stack, sub=sub, atom_label=label)
        it.block(fi.node.body)

    def dfa(self, p: Pat, labels):
        frag = Frag()
        s, a = self.sequence(self._items(p), frag)
        frag.result = (s, a)
        frag.labels = list(set(frag.labels) | set(labels))
        return frag.dfa()


def pat_to_regex(p: Pat):
    if p.op == "atom":
        return ("sym", p.pred.args[0])
    if p.op == "seq":
        r = pat_to_regex(p.kids[0])
        for k in p.kids[1:]:
            r = ("cat", r, pat_to_regex(k))
        return r
    if p.op == "union":
        return ("alt", pat_to_regex(p.kids[0]), pat_to_regex(p.kids[1]))
    return ({"opt": "opt", "star": "star", "plus": "plus"}[p.op], pat_to_regex(p.kids[0]))
