"""The repo's regular-expression engine evaluated by the abstract interpreter.

A pattern tree of the checker (sa.patterns.Pat over Identity atoms) is turned into the repo's own expression objects
(instances of its Operator classes, built by running their __init__), then the repo's expression_to_nfa and nfa_to_dfa are
interpreted on it; the resulting automaton (an object graph of State instances) is read back as a labelled graph and
compared with the reference automaton of the tree by language equivalence.  No file of the package is imported or run by
CPython; what is evaluated is the source text, whatever its shape."""
from __future__ import annotations

from .absint import BoundFunc, ISet, MiniInterp, PyRaise, Sym, Unknown
from .core import AnalysisError, Project
from .patterns import Pat

GSM = "codelimit.common.gsm"
CLS = {"union": "Union", "opt": "Optional", "star": "ZeroOrMore", "plus": "OneOrMore"}


class Engine:
    def __init__(self, prj: Project, max_steps: int = 1500000):
        self.prj = prj
        self.it = MiniInterp(prj, max_steps=max_steps, max_depth=60)
        base = prj.cls(f"{GSM}.operator.Operator:Operator")
        self.ops = {c.name: c for c in base.all_subclasses()}
        self.e2n = prj.func(f"{GSM}.Expression:expression_to_nfa")
        self.n2d = prj.func(f"{GSM}.Expression:nfa_to_dfa")

    def expr(self, p: Pat, shared: dict | None = None):
        """the repo-level expression value of a pattern tree; with `shared`, a tree node that occurs more than once
        (the same Pat object) becomes ONE operator object used at every occurrence"""
        if p.op == "atom":
            return p.pred.args[0]            # a plain item: the engine wraps it in Atom / Identity itself
        if p.op == "seq":
            return [self.expr(k, shared) for k in p.kids]
        if shared is not None and id(p) in shared:
            return shared[id(p)]
        ci = self.ops[CLS[p.op]]
        args = [self.expr(k, shared) for k in p.kids]
        obj = self.it.construct(ci, args, {}, None, self.e2n)
        if shared is not None:
            shared[id(p)] = obj
        return obj

    def dfa_of(self, expr):
        self.it.steps = 0
        nfa = self.it.call(self.e2n, [expr], {})
        return self.it.call(self.n2d, [nfa], {})

    def nfa(self, p: Pat):
        self.it.steps = 0
        return self.it.call(self.e2n, [self.expr(p)], {})

    def dfa(self, p: Pat):
        nfa = self.nfa(p)
        return self.it.call(self.n2d, [nfa], {})

    # ---------------------------------------------------------------- reading automata back
    @staticmethod
    def label(pred) -> str:
        if isinstance(pred, Sym) and "item" in pred.fields and isinstance(pred.fields["item"], str):
            return pred.fields["item"]
        raise Unknown(f"transition label {pred!r} is not an Identity over a plain item")

    def graph(self, automaton):
        """-> (start, accepting set of state uids, eps edges, labelled edges) of an NFA/DFA object graph"""
        start = automaton.fields.get("start")
        acc = automaton.fields.get("accepting")
        if not isinstance(start, Sym):
            raise Unknown("automaton without start state")
        accs = set()
        if isinstance(acc, Sym):
            accs = {acc.uid}
        elif isinstance(acc, (list, tuple)):
            accs = {a.uid for a in acc}
        elif isinstance(acc, ISet):
            accs = {a.uid for a in acc.xs}
        else:
            raise Unknown("automaton without accepting state(s)")
        eps, lab, seen, todo = {}, {}, set(), [start]
        while todo:
            s = todo.pop()
            if s.uid in seen:
                continue
            seen.add(s.uid)
            e = s.fields.get("epsilon_transitions", [])
            t = s.fields.get("transition", [])
            eps[s.uid] = [x.uid for x in e]
            lab[s.uid] = []
            for pair in t:
                if isinstance(pair, Sym) and getattr(pair, "tuple_order", None) and len(pair.tuple_order) == 2:
                    pr, tgt = (pair.fields[k] for k in pair.tuple_order)     # a named-tuple transition
                elif isinstance(pair, (tuple, list)) and len(pair) == 2:
                    pr, tgt = pair[0], pair[1]
                else:
                    raise Unknown(f"transition {pair!r} is neither a pair nor a two-field named tuple")
                lab[s.uid].append((self.label(pr), tgt.uid))
                todo.append(tgt)
            todo.extend(e)
        return start.uid, accs, eps, lab


def language_dfa(start, accs, eps, lab, alphabet):
    """subset construction of the read-back graph -> (states, start, accepting, delta) with total delta over alphabet"""
    def closure(S):
        out, todo = set(S), list(S)
        while todo:
            x = todo.pop()
            for y in eps.get(x, []):
                if y not in out:
                    out.add(y)
                    todo.append(y)
        return frozenset(out)
    s0 = closure({start})
    states, delta, todo = {s0}, {}, [s0]
    while todo:
        S = todo.pop()
        for a in alphabet:
            T = closure({t for x in S for (l, t) in lab.get(x, []) if l == a})
            delta[(S, a)] = T
            if T not in states:
                states.add(T)
                todo.append(T)
    acc = {S for S in states if S & accs}
    return states, s0, acc, delta


def is_deterministic(eps, lab) -> str | None:
    for s, e in eps.items():
        if e:
            return f"state {s} of the DFA has epsilon transitions"
    for s, tr in lab.items():
        ls = [l for l, _ in tr]
        if len(ls) != len(set(ls)):
            return f"state {s} of the DFA has two transitions with the same label {sorted(ls)}"
    return None


def shortest_difference(d1, d2, alphabet):
    """d = (states, start, acc, delta): shortest word accepted by exactly one, or None"""
    (_, s1, a1, t1), (_, s2, a2, t2) = d1, d2
    seen = {(s1, s2)}
    todo = [((s1, s2), ())]
    while todo:
        (x, y), w = todo.pop(0)
        if (x in a1) != (y in a2):
            return w, x in a1
        for a in alphabet:
            nx = (t1[(x, a)], t2[(y, a)])
            if nx not in seen:
                seen.add(nx)
                todo.append((nx, w + (a,)))
    return None


def reference_dfa(p: Pat, alphabet):
    """Thompson construction + subset construction of the checker's own (for the reference language)"""
    n = [0]
    eps, lab = {}, {}

    def new():
        n[0] += 1
        eps[n[0]] = []
        lab[n[0]] = []
        return n[0]

    def build(q: Pat):
        if q.op == "atom":
            s, a = new(), new()
            lab[s].append((q.pred.args[0], a))
            return s, a
        if q.op == "seq":
            s, a = build(q.kids[0])
            for k in q.kids[1:]:
                s2, a2 = build(k)
                eps[a].append(s2)
                a = a2
            return s, a
        if q.op == "union":
            s, a = new(), new()
            for k in q.kids:
                ks, ka = build(k)
                eps[s].append(ks)
                eps[ka].append(a)
            return s, a
        ks, ka = build(q.kids[0])
        s, a = new(), new()
        eps[s].append(ks)
        eps[ka].append(a)
        if q.op in ("opt", "star"):
            eps[s].append(a)
        if q.op in ("star", "plus"):
            eps[ka].append(ks)
        return s, a
    s, a = build(p)
    return language_dfa(s, {a}, eps, lab, alphabet)
