"""get_balanced_symbol_token_indices evaluated on every sequence over {open, close, other} up to a bound: no exception, and
the pairs of the reference bracket matcher (innermost pairs only when nested extraction is asked for, outermost always)"""
from __future__ import annotations

import itertools

from .absint import MiniInterp, PyRaise, Sym, Unknown
from .core import Project

QUAL = "codelimit.common.token_utils:get_balanced_symbol_token_indices"


def reference(seq, extract_nested):
    out, stack = [], []
    for i, k in enumerate(seq):
        if k == "O":
            stack.append(i)
        elif k == "C" and stack:
            s = stack.pop()
            if extract_nested or not stack:
                out.append((s, i))
    return out


def explore(prj: Project, maxlen: int = 4):
    """-> (number of cases, first divergence (seq, nested, got, want) or None)"""
    fi = prj.func(QUAL)

    def hook(it, kind, f, args, kwargs, node, cur):
        if kind == "call" and isinstance(f, tuple) and f and f[0] == "method" and isinstance(f[1], Sym) and f[1].name.startswith("tok:"):
            if f[2] == "is_symbol":
                return (f[1].name == "tok:O" and args[0] == "{") or (f[1].name == "tok:C" and args[0] == "}")
            raise Unknown(f"Token.{f[2]}")
        return NotImplemented
    n = 0
    for ln in range(0, maxlen + 1):
        for seq in itertools.product("OCX", repeat=ln):
            for nested in (True, False):
                n += 1
                toks = [Sym("tok:" + k) for k in seq]
                it = MiniInterp(prj, hook, max_steps=20000)
                try:
                    got = it.call(fi, [toks, "{", "}", nested], {})
                    got = list(got.rest()) if hasattr(got, "rest") else list(got)
                    got = [tuple(x) for x in got]
                except PyRaise as e:
                    return n, ("".join(seq), nested, f"raises {e.name}", reference(seq, nested))
                want = reference(seq, nested)
                if sorted(got) != sorted(want):
                    return n, ("".join(seq), nested, got, want)
    return n, None
