"""Python.extract_blocks evaluated: token programs given by (line, column, text) with the headers handed in; the suite of a
header is, by the reference, the run of lines after the header's last line whose first token is indented strictly deeper than the
header's first token, up to the first line that is not; its range runs from the first token of the first such line to one past the
last token of the last one.  Programs avoid the one shape where the shipped algorithm deliberately differs from that reading
(a nested function whose suite ends its parent's suite)."""
from __future__ import annotations

from .absint import MiniInterp, PyRaise, Sym, Unknown, make_token
from .core import Project

QUAL = "codelimit.languages.Python:Python"

# program: list of lines, each (line number, [(column, text), ...]); headers: list of (index of first token, index one past the last header token)
PROGRAMS = {
    "function followed by a statement at its own indentation": (
        [(1, [(1, "def"), (5, "f"), (6, "("), (7, ")"), (8, ":")]), (2, [(5, "a"), (7, "="), (9, "1")]), (3, [(1, "b")])], [(0, 4)]),
    "two functions, the second directly after the first": (
        [(1, [(1, "def"), (5, "f"), (6, "("), (7, ")"), (8, ":")]), (2, [(5, "a")]), (3, [(5, "b")]),
         (4, [(1, "def"), (5, "g"), (6, "("), (7, ")"), (8, ":")]), (5, [(5, "c")])], [(0, 4), (7, 11)]),
    "header over two lines (continuation line indented deeper than the header)": (
        [(1, [(1, "def"), (5, "f"), (6, "("), (7, "a"), (8, ",")]), (2, [(9, "b"), (10, ")"), (11, ":")]), (3, [(5, "body")]), (4, [(1, "x")])], [(0, 7)]),
    "nested function in the middle of its parent": (
        [(1, [(1, "def"), (5, "f"), (6, "("), (7, ")"), (8, ":")]), (2, [(5, "a")]),
         (3, [(5, "def"), (9, "g"), (10, "("), (11, ")"), (12, ":")]), (4, [(9, "b")]), (5, [(5, "c")]), (6, [(1, "d")])], [(0, 4), (6, 10)]),
    "deeper line after a shallower one does not belong to the function": (
        [(1, [(1, "def"), (5, "f"), (6, "("), (7, ")"), (8, ":")]), (2, [(5, "a")]), (3, [(1, "b")]), (4, [(5, "c")])], [(0, 4)]),
    "one-line function (body on the header's line)": (
        [(1, [(1, "def"), (5, "h"), (6, "("), (7, ")"), (8, ":"), (10, "y")]), (2, [(1, "z")])], [(0, 4)]),
    "header at the very end of the token list": (
        [(1, [(1, "x")]), (2, [(1, "def"), (5, "f"), (6, "("), (7, ")")])], [(1, 5)]),
    "the last function of the file holds a nested function followed by two more lines of its own": (
        [(1, [(1, "x")]), (2, [(1, "def"), (5, "f"), (6, "("), (7, ")"), (8, ":")]), (3, [(5, "a")]),
         (4, [(5, "def"), (9, "g"), (10, "("), (11, ")"), (12, ":")]), (5, [(9, "b")]), (6, [(5, "c")]), (7, [(5, "d")])], [(1, 5), (7, 11)]),
    "two nested siblings and a statement, at the end of the file": (
        [(1, [(1, "def"), (5, "f"), (6, "("), (7, ")"), (8, ":")]),
         (2, [(5, "def"), (9, "g"), (10, "("), (11, ")"), (12, ":")]), (3, [(9, "b")]),
         (4, [(5, "def"), (9, "h"), (10, "("), (11, ")"), (12, ":")]), (5, [(9, "c")]), (6, [(5, "d")])], [(0, 4), (5, 9), (11, 15)]),
    "method inside an indented class body, followed by a sibling method": (
        [(1, [(1, "class"), (7, "A"), (8, ":")]), (2, [(5, "def"), (9, "m"), (10, "("), (11, ")"), (12, ":")]), (3, [(9, "a")]), (4, [(9, "b")]),
         (5, [(5, "def"), (9, "n"), (10, "("), (11, ")"), (12, ":")]), (6, [(9, "c")]), (7, [(1, "d")])], [(3, 7), (10, 14)]),
}


def flat(lines):
    out = []
    for ln, toks in lines:
        for col, text in toks:
            out.append((ln, col, text))
    return out


def reference(lines, headers):
    toks = flat(lines)
    first_index = {}
    i = 0
    for ln, ts in lines:
        first_index[ln] = (i, i + len(ts))
        i += len(ts)
    out = []
    for hs, he in headers:
        if he >= len(toks):
            continue
        hline = toks[he][0]
        hcol = toks[hs][1]
        run = []
        for ln, ts in lines:
            if ln <= hline:
                continue
            if ts[0][0] > hcol:
                run.append(ln)
            else:
                break
        if run:
            out.append((first_index[run[0]][0], first_index[run[-1]][1]))
    return out


def evaluate(prj: Project):
    """-> list of (program name, got ranges | 'raises X', reference ranges)"""
    ci = prj.cls(QUAL)
    eb = ci.find_method("extract_blocks")
    if eb is None:
        raise Unknown("Python.extract_blocks not found")
    H = prj.cls("codelimit.common.scope.Header:Header")
    TR = prj.cls("codelimit.common.TokenRange:TokenRange")
    res = []
    for name, (lines, headers) in PROGRAMS.items():
        it = MiniInterp(prj, max_steps=400000, max_depth=40)
        fi = prj.func(eb.qual)
        tokens = [make_token(it, prj, "Keyword" if text in ("def", "class") else "Punctuation" if text in "():,=" else "Name", text, ln, col)
                  for ln, col, text in flat(lines)]
        hs = [it.construct(H, [tokens[a + 1], it.construct(TR, [a, b], {}, None, fi)], {}, None, fi) for a, b in headers]
        lang = it.construct(ci, [], {}, None, fi)
        try:
            r = it.call(fi, [tokens, hs], {}, lang)
            r = r.rest() if hasattr(r, "rest") else r
            got = [(x.fields.get("start"), x.fields.get("end")) for x in r]
        except PyRaise as e:
            got = f"raises {e.name}"
        res.append((name, got, reference(lines, headers)))
    return res
