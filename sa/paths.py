"""Path enumeration with straight-line substitution for small, loop-free functions.

For each syntactic path through a function body it yields the branch
assumptions taken (as terms over the parameters, local definitions substituted
in the order of execution) and the returned expression (same substitution).
Used where a rule needs 'on every path the tested value has provenance X'."""
from __future__ import annotations

import ast
import copy
from typing import Iterator

from .core import AnalysisError, unparse


class Path:
    def __init__(self):
        self.assumes: list[tuple[ast.AST, bool]] = []
        self.env: dict[str, ast.AST] = {}
        self.ret = None          # substituted return expression (None = falls off / bare return)
        self.returned = False

    def clone(self):
        p = Path()
        p.assumes = list(self.assumes)
        p.env = dict(self.env)
        p.ret, p.returned = self.ret, self.returned
        return p

    def subst(self, e):
        env = self.env

        class S(ast.NodeTransformer):
            def visit_Name(self, n):
                if isinstance(n.ctx, ast.Load) and n.id in env:
                    return copy.deepcopy(env[n.id])
                return n

            def visit_Lambda(self, n):
                return n
        return S().visit(copy.deepcopy(e))


def enumerate_paths(stmts: list[ast.stmt], limit: int = 256) -> list[Path]:
    paths = [Path()]

    def run(block, ps):
        for st in block:
            live = [p for p in ps if not p.returned]
            done = [p for p in ps if p.returned]
            if not live:
                return ps
            if isinstance(st, ast.Return):
                for p in live:
                    p.ret = p.subst(st.value) if st.value is not None else None
                    p.returned = True
                ps = done + live
            elif isinstance(st, ast.Assign) and len(st.targets) == 1 and isinstance(st.targets[0], ast.Name):
                for p in live:
                    p.env[st.targets[0].id] = p.subst(st.value)
                ps = done + live
            elif isinstance(st, ast.AnnAssign) and isinstance(st.target, ast.Name) and st.value is not None:
                for p in live:
                    p.env[st.target.id] = p.subst(st.value)
                ps = done + live
            elif isinstance(st, ast.If):
                out = []
                for p in live:
                    a, b = p.clone(), p.clone()
                    t = p.subst(st.test)
                    a.assumes.append((t, True))
                    b.assumes.append((t, False))
                    out += run(st.body, [a]) + run(st.orelse, [b])
                ps = done + out
                if len(ps) > limit:
                    raise AnalysisError("too many paths")
            elif isinstance(st, (ast.Expr, ast.Pass)):
                continue
            elif isinstance(st, (ast.FunctionDef, ast.Import, ast.ImportFrom)):
                continue
            else:
                raise AnalysisError(f"line {getattr(st, 'lineno', '?')}: statement {type(st).__name__} outside the path-enumerable fragment")
        return ps
    return run(stmts, paths)


def chain_ops(e) -> tuple[str, list]:
    """Decompose value.method().[a:b].method() chains: (base_text, [('call', name, args) | ('slice', lo, hi) | ('index', i)])"""
    ops = []
    cur = e
    while True:
        if isinstance(cur, ast.Call) and isinstance(cur.func, ast.Attribute):
            ops.append(("call", cur.func.attr, cur.args))
            cur = cur.func.value
        elif isinstance(cur, ast.Subscript):
            if isinstance(cur.slice, ast.Slice):
                ops.append(("slice", cur.slice.lower, cur.slice.upper))
            else:
                ops.append(("index", cur.slice, None))
            cur = cur.value
        else:
            break
    return unparse(cur), list(reversed(ops))


def atoms_of(test, pol: bool = True):
    """literals of a test, flattened through not/and/or: list of (atom, polarity, in_disjunction)"""
    if isinstance(test, ast.UnaryOp) and isinstance(test.op, ast.Not):
        return atoms_of(test.operand, not pol)
    if isinstance(test, ast.BoolOp):
        conj = isinstance(test.op, ast.And) == pol
        out = []
        for v in test.values:
            for a, p, d in atoms_of(v, pol):
                out.append((a, p, d or not conj))
        return out
    return [(test, pol, False)]
