"""Exhaustive exploration of matcher.find_all over an abstract model of Pattern.

find_all is evaluated by the abstract interpreter on a sequence of n symbolic items.  The automaton and the Pattern
objects are abstract: whether attempt i (started at position i) after k consumed items is accepting, has no outgoing
transition, or consumes the next item is answered by an oracle.  Every combination of answers that the code (or the
reference) can observe is enumerated (execution-tree exploration: a run records the oracle questions it asked, the
unexplored alternatives of the last questions are then flipped), and the result is compared with the reference
semantics of the property: attempts are tried in start order; an attempt that starts before the end of the last
reported match is dropped; an attempt is reported (end = position of the first item it did not consume) exactly when
it can no longer continue and is accepting; attempts alive at the end of input are reported with end = n under the
same disjointness rule."""
from __future__ import annotations

from .absint import BoundFunc, MiniInterp, PyRaise, Sym, Unknown
from .core import AnalysisError, Project

QUAL = "codelimit.common.gsm.matcher:find_all"


class Oracle:
    def __init__(self, forced: dict, no_dead: bool = False):
        self.no_dead = no_dead
        self.forced = dict(forced)
        self.asked: list = []        # keys in the order they were first asked in this run
        self.ans: dict = {}

    def ask(self, key):
        if key in self.ans:
            return self.ans[key]
        kind, i, k = key
        if kind == "dead" and self.no_dead:
            self.ans[key] = False
            return False
        if kind == "cons" and self.ans.get(("dead", i, k)) is True:
            v = False                # no outgoing transition: nothing can be consumed
        elif kind == "dead" and self.ans.get(("cons", i, k)) is True:
            v = False
        else:
            v = self.forced.get(key, False)
            self.asked.append(key)
        self.ans[key] = v
        return v


def reference(n: int, o: Oracle):
    matches, active = [], []
    for j in range(n):
        active.append(j)
        nxt = []
        for i in active:
            if matches and i < matches[-1][1]:
                continue
            k = j - i
            dead, acc = o.ask(("dead", i, k)), o.ask(("acc", i, k))
            if dead and acc:
                matches.append((i, j))
                continue
            if not dead and o.ask(("cons", i, k)):
                nxt.append(i)
            elif acc:
                matches.append((i, j))
        active = nxt
    for i in active:
        if matches and i < matches[-1][1]:
            continue
        if o.ask(("acc", i, n - i)):
            matches.append((i, n))
    return matches


def run_code(prj: Project, fi, n: int, o: Oracle):
    items = [Sym(f"item{j}") for j in range(n)]
    pats = {}
    pattern_cls = prj.cls("codelimit.common.gsm.Pattern:Pattern")

    def consumed(p):
        return p.fields["_consumed"]

    def hook(it, kind, f, args, kwargs, node, cur):
        if kind == "getattr" and isinstance(f, Sym) and f.name.startswith("pattern@"):
            p, attr = f, args
            i = p.fields["start"]
            if attr == "state":
                dead = o.ask(("dead", i, consumed(p)))
                return Sym("state", transition=[] if dead else [(Sym("pred"), Sym("target"))])
            return NotImplemented
        if kind != "call":
            return NotImplemented
        if isinstance(f, BoundFunc) and f.fi.name in ("nfa_to_dfa", "expression_to_nfa"):
            return Sym("automaton")
        if isinstance(f, tuple) and f and f[0] == "class" and f[1] is pattern_cls:
            if len(args) < 1 or not isinstance(args[0], int):
                raise Unknown("Pattern(...) not started at an integer position")
            # an abstract attempt: an instance of the repo's Pattern class whose consume / is_accepting / state are answered by the
            # oracle; every other method of the class (helpers a refactoring added) is interpreted from its source
            p = Sym(f"pattern@{args[0]}", _cls=pattern_cls, start=args[0], end=args[0], tokens=[], _consumed=0)
            p.fields["automata"] = args[1] if len(args) > 1 else None
            pats.setdefault(args[0], []).append(p)
            return p
        if isinstance(f, BoundFunc) and isinstance(f.self_obj, Sym) and f.self_obj.name.startswith("pattern@") and f.fi.name in ("is_accepting", "consume"):
            f = ("method", f.self_obj, f.fi.name)
        if isinstance(f, tuple) and f and f[0] == "method" and isinstance(f[1], Sym) and f[1].name.startswith("pattern@"):
            p, name = f[1], f[2]
            i = p.fields["start"]
            if name == "is_accepting":
                return o.ask(("acc", i, consumed(p)))
            if name == "consume":
                if not args or not (isinstance(args[0], Sym) and args[0].name == f"item{i + consumed(p)}"):
                    raise Unknown(f"attempt {i} is offered {args[0] if args else None!r} after {consumed(p)} items")
                ok = o.ask(("cons", i, consumed(p)))
                if ok:
                    p.fields["_consumed"] += 1
                    p.fields["tokens"].append(args[0])
                    return Sym("next-state")
                return None
            raise Unknown(f"Pattern.{name}")
        return NotImplemented
    it = MiniInterp(prj, hook, max_steps=200000)
    res = it.call(fi, [Sym("expression"), items], {})
    res = list(res.rest()) if hasattr(res, "rest") else res
    if not isinstance(res, list):
        raise Unknown(f"find_all returns {res!r}")
    out = []
    for p in res:
        if not (isinstance(p, Sym) and p.name.startswith("pattern@")):
            raise Unknown(f"find_all returns an element {p!r}")
        out.append((p.fields["start"], p.fields["end"]))
    return out, pats


def explore(prj: Project, n: int = 3, limit: int = 50000, no_dead: bool = False):
    """-> (scenarios explored, first divergence or None).  Depth-first enumeration of the execution tree: a run is
    determined by the answers to the questions it asks, in order; unasked questions default to False."""
    fi = prj.func(QUAL)
    todo = [[]]          # prefixes: ordered (key, answer) pairs
    count = 0
    while todo:
        prefix = todo.pop()
        count += 1
        if count > limit:
            raise AnalysisError(f"find_all exploration exceeded {limit} scenarios")
        o = Oracle(dict(prefix), no_dead)
        try:
            got, pats = run_code(prj, fi, n, o)
        except PyRaise as e:
            return count, dict(oracle=dict(o.ans), got=f"raises {e.name}", want=reference(n, Oracle(o.ans)), n=n)
        want = reference(n, o)       # same oracle: may ask further questions
        if got != want:
            return count, dict(oracle=dict(o.ans), got=got, want=want, n=n)
        asked = o.asked
        for idx in range(len(prefix), len(asked)):
            todo.append([(k, o.ans[k]) for k in asked[:idx]] + [(asked[idx], True)])
    return count, None


def describe(div) -> str:
    o = div["oracle"]
    n = div["n"]
    lines = []
    for i in range(n):
        ks = sorted({k for (_, ii, k) in o if ii == i})
        st = []
        for k in ks:
            st.append(f"after {k}: " + ", ".join(f"{name}={o[(name, i, k)]}" for name in ("acc", "dead", "cons") if (name, i, k) in o))
        if st:
            lines.append(f"attempt from {i} [{'; '.join(st)}]")
    return f"sequence of {n} items, " + " ".join(lines) + f": find_all reports {div['got']}, required {div['want']}"


class _FixedOracle:
    """answers computed from the reference automaton of a concrete pattern on a concrete sequence"""

    def __init__(self, ans):
        self.ans = ans

    def ask(self, key):
        return self.ans(key)


def concrete(prj: Project, trees, seqs, alphabet=("a", "b")):
    """find_all interpreted through the repo's own engine (expression_to_nfa, nfa_to_dfa, Pattern, predicates) on concrete
    patterns and sequences, compared with the reference semantics instantiated by the reference automaton of the pattern.
    -> (cases, first divergence (pattern, sequence, got, want) or None)"""
    from .engine_eval import Engine, reference_dfa
    fi = prj.func(QUAL)
    n = 0
    for p in trees:
        states, s0, acc, delta = reference_dfa(p, alphabet)
        sink = frozenset()
        for w in seqs:
            def ans(key, w=w):
                kind, i, k = key
                st = s0
                for c in w[i:i + k]:
                    st = delta[(st, c)]
                if kind == "acc":
                    return st in acc
                if kind == "dead":
                    return all(delta[(st, c)] == sink for c in alphabet)
                nxt = w[i + k] if i + k < len(w) else None
                return nxt is not None and delta[(st, nxt)] != sink
            want = reference(len(w), _FixedOracle(ans))
            eng = Engine(prj)
            eng.it.steps = 0
            try:
                r = eng.it.call(fi, [eng.expr(p), list(w)], {})
                r = r.rest() if hasattr(r, "rest") else r
                got = [(x.fields.get("start"), x.fields.get("end")) if isinstance(x, Sym) else x for x in r]
                for x in r:
                    toks = eng.it.getattr(x, "tokens", fi, None) if isinstance(x, Sym) else None
                    s_, e_ = (x.fields.get("start"), x.fields.get("end")) if isinstance(x, Sym) else (None, None)
                    if isinstance(toks, list) and isinstance(s_, int) and isinstance(e_, int) and list(toks) != list(w[s_:e_]):
                        got = f"a match ({s_}, {e_}) whose recorded items are {toks}"
                        break
            except PyRaise as e:
                got = f"raises {e.name}"
            n += 1
            if got != want:
                return n, (p, w, got, want)
    return n, None
