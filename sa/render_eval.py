"""The overview / findings renderers evaluated on tagged reports (every stored figure has a distinct value, so each
rendered cell identifies the (report, language, field) it shows); rich is never executed: console / table calls are
recorded as effects."""
from __future__ import annotations

import re

from .absint import BoundFunc, MiniInterp, PyRaise, Sym, Unknown
from .core import Project
from .evalsite import Run, _hook, deep_strs

FIELDS = ["files", "functions", "loc", "hard_to_maintain", "unmaintainable"]
HEADER_FIELD = {"Files": "files", "Functions": "functions", "Lines of Code": "loc", "⚠": "hard_to_maintain",
                "✖": "unmaintainable", "⛌": "unmaintainable", "❌": "unmaintainable"}

# Alpha is ahead of Beta in every figure except lines of code (so only an ordering by lines of code lists Beta first);
# Alpha and Delta are in both reports and cover: equal, larger, smaller, previous 0 -> positive, positive -> 0, 0 -> 0
CUR = {"Alpha": dict(files=9, functions=40, loc=400, hard_to_maintain=9, unmaintainable=7),
       "Beta": dict(files=7, functions=31, loc=900, hard_to_maintain=8, unmaintainable=6),
       "Delta": dict(files=2, functions=6, loc=100, hard_to_maintain=4, unmaintainable=0)}
CUR["Eps"] = dict(files=3, functions=2, loc=50, hard_to_maintain=1, unmaintainable=0)
PREV = {"Alpha": dict(files=9, functions=38, loc=450, hard_to_maintain=0, unmaintainable=0),
        # present in both reports; in the previous one its files hold no function at all (headers, declarations): every figure but files is 0
        "Eps": dict(files=2, functions=0, loc=0, hard_to_maintain=0, unmaintainable=0),
        "Delta": dict(files=1, functions=6, loc=100, hard_to_maintain=4, unmaintainable=3),
        "Gamma": dict(files=100, functions=1000, loc=20000, hard_to_maintain=70, unmaintainable=90)}


def cell(cur: int, prev) -> str:
    if prev is None or cur == prev:
        return f"{cur}"
    return f"{cur} ({cur - prev:+})"


class Lab:
    def __init__(self, prj: Project):
        self.prj = prj
        self.LT = prj.cls("codelimit.common.LanguageTotals:LanguageTotals")
        self.ST = prj.cls("codelimit.common.ScanTotals:ScanTotals")
        self.Report = prj.cls("codelimit.common.report.Report:Report")

    def interp(self, extra_hook=None):
        run = Run()
        base = _hook(run)

        def hook(it, kind, f, args, kwargs, node, cur):
            if extra_hook is not None:
                r = extra_hook(it, kind, f, args, kwargs, node, cur)
                if r is not NotImplemented:
                    return r
            return base(it, kind, f, args, kwargs, node, cur)
        it = MiniInterp(self.prj, hook, max_steps=400000, max_depth=60)
        return it, run

    def totals(self, it, table: dict) -> dict:
        out = {}
        for lang, vals in table.items():
            t = it.construct(self.LT, [lang], {}, None, self.prj.func(self.LT.find_method("add").qual))
            for k, v in vals.items():
                t.fields[k] = v
            out[lang] = t
        return out

    def scan_totals(self, it, table):
        return it.construct(self.ST, [self.totals(it, table)] if table is not None else [], {}, None, self.prj.func(self.LT.find_method("add").qual))

    def warm_up(self, it):
        """what an earlier scan in the same process does: a ScanTotals of its own, filled through add() with a file of a language
        that occurs in no report rendered afterwards"""
        from .evalsite import measurement
        anchor = self.prj.func(self.LT.find_method("add").qual)
        ec = self.prj.cls("codelimit.common.SourceFileEntry:SourceFileEntry")
        st = it.construct(self.ST, [], {}, None, anchor)
        e = it.construct(ec, ["earlier/z.zz", "sum0", "Zeta", 77, [measurement(77, "zfn", self.prj)]], {}, None, anchor)
        it.call(self.prj.func(self.ST.find_method("add").qual), [e], {}, st)

    def report(self, it, table):
        cb = Sym("codebase", totals=self.totals(it, table))
        return Sym("report", _cls=self.Report, codebase=cb, repository=None)


def text_table(lab: Lab, cur, prev, warm=False):
    """-> (headers, footers, rows) of ScanResultTable(cur, prev) from the recorded add_column / add_row calls"""
    it, run = lab.interp()
    if warm:
        lab.warm_up(it)
        del run.effects[:]
    ci = lab.prj.cls("codelimit.common.ScanResultTable:ScanResultTable")
    anchor = lab.prj.func(ci.find_method("__init__").qual)
    st_c = lab.scan_totals(it, cur)
    args = [st_c] + ([lab.scan_totals(it, prev)] if prev is not None else [])
    it.construct(ci, args, {}, None, anchor)
    headers, footers, rows = [], [], []
    for name, aa, kw in run.effects:
        if name.endswith(".add_column"):
            headers.append(aa[0] if aa else kw.get("header"))
            footers.append(aa[1] if len(aa) > 1 else kw.get("footer"))
        elif name.endswith(".add_row"):
            rows.append(list(aa))
    return headers, footers, rows


def markdown_table(lab: Lab, cur, prev, warm=False):
    it, run = lab.interp()
    if warm:
        lab.warm_up(it)
        del run.effects[:]
    fn = lab.prj.func("codelimit.common.report.format_markdown:print_totals")
    rep_c = lab.report(it, cur)
    kwargs = {}
    args = []
    for p in fn.params():
        if p == "console":
            args.append(Sym("console", _open=True))
        elif p == "report":
            args.append(rep_c)
        elif p == "diff_report":
            args.append(lab.report(it, prev) if prev is not None else None)
        else:
            raise Unknown(f"print_totals parameter {p}")
    it.call(fn, args, kwargs)
    lines = []
    for name, aa, kw in run.effects:
        if name.endswith(".print"):
            parts = [a for a in aa if isinstance(a, str)]
            if len(parts) != len(aa):
                raise Unknown("console.print of a non-string")
            lines.append(" ".join(parts))
    table = [l for l in lines if l.strip().startswith("|") or "|" in l]
    rows = []
    header = None
    totals = None
    for l in table:
        cells = [c.strip() for c in l.strip().strip("|").split("|")]
        if all(set(c) <= set("-: ") for c in cells):
            continue
        if header is None:
            header = [c.strip("*").strip() for c in cells]
            continue
        if cells and cells[0].strip("*").strip().lower() in ("totals", "total"):
            totals = [c.strip("*").strip() for c in cells]
        else:
            rows.append(cells)
    return header, totals, rows


def findings(lab: Lab, q: str, n: int, full: bool, repo: bool):
    """-> (threshold asked for, tags of the units shown in order of first appearance, 'more rows' numbers)"""
    try:
        asked, shown, more = _findings_hooked(lab, q, n, full, repo)
        if asked:
            return asked, shown, more
    except Unknown:
        pass
    return _findings_real(lab, q, n, full, repo)


def findings_again(lab: Lab, q: str, repo: bool, n: int = 12):
    """print_findings twice on ONE report built through the repo's constructors: a short listing (full=False), then the full one
    -> tags shown by the second call"""
    return _findings_real(lab, q, n, True, repo, first_call_full=False)[1]


def _findings_real(lab: Lab, q: str, n: int, full: bool, repo: bool, first_call_full=None):
    """the same observation on a report built through the repo's constructors (whatever method of Report the renderer uses):
    n functions longer than 30 lines (100, 99, ...) and three that are not (30, 29, 7)"""
    from .report_eval import ReportLab
    prj = lab.prj
    rl = ReportLab(prj)
    run = Run()
    base = _hook(run)

    def hook(it, kind, f, args, kwargs, node, cur):
        r = rl.hook(it, kind, f, args, kwargs, node, cur)
        if r is not NotImplemented:
            return r
        return base(it, kind, f, args, kwargs, node, cur)
    rl.it.hook = hook
    cb = rl.new(rl.Codebase, "/root")
    long_ones = [(k, 100 - k) for k in range(n)]
    short = [(90, 30), (91, 29), (92, 7)]
    items = long_ones + short
    for fno in range(2):
        chunk = items[fno::2]
        ms = [rl.new(rl.Measurement, f"fn{k:02d}x", rl.new(rl.Location, 1000 + k, 2000 + k), rl.new(rl.Location, 3000 + k, 4000 + k), v) for k, v in chunk]
        rl.call(cb, "add_file", rl.new(rl.Entry, f"dir/file{fno}.py", "sum", "Python", sum(v for _, v in chunk), ms))
    rl.call(cb, "aggregate")
    rp = rl.new(rl.Repo, "own", "nam", "br") if repo else None
    rep = rl.new(rl.Report, cb, rp) if repo else rl.new(rl.Report, cb)
    fn = prj.func(q)
    args, kwargs = [], {}
    for p_ in fn.params():
        if p_ == "console":
            args.append(Sym("console", _open=True))
        elif p_ == "report":
            args.append(rep)
        elif p_ == "full":
            kwargs["full"] = full
        else:
            raise Unknown(f"print_findings parameter {p_}")
    if first_call_full is not None:
        # an earlier listing of the same report object, with another setting
        k0 = dict(kwargs)
        if "full" in k0:
            k0["full"] = first_call_full
        rl.it.call(fn, list(args), k0)
        del run.effects[:]
    rl.it.call(fn, args, kwargs)
    texts = []
    for name, aa, kw in run.effects:
        texts += deep_strs(list(aa))
    shown = []
    for t in texts:
        for mm in re.finditer(r"fn(\d\d)x", t):
            k = int(mm.group(1))
            if k not in shown:
                shown.append(k)
    more = [int(x) for t in texts if "more" in t.lower() for x in re.findall(r"\d+", t)]
    below = [k for k in shown if k >= 90]
    if below:
        asked = [{90: 29, 91: 28, 92: 0}[max(below)]]      # a function of that length is listed: the cut is below it
    elif full and (n - 1) not in shown:
        asked = [101 - n]
    else:
        asked = [30]
    return asked, [k for k in shown if k < 90], more


def _findings_hooked(lab: Lab, q: str, n: int, full: bool, repo: bool):
    units = []
    M = lab.prj.cls("codelimit.common.Measurement:Measurement")
    for k in range(n):
        m = Sym(f"m{k}", _cls=M, unit_name=f"fn{k:02d}x", value=100 - k, start=Sym("loc", line=1000 + k, column=2000 + k), end=Sym("loc", line=3000 + k, column=4000 + k))
        units.append((f"file{k:02d}x.py", m))
    asked = []

    def hook(it, kind, f, args, kwargs, node, cur):
        if kind == "call" and ((isinstance(f, BoundFunc) and f.fi.name == "all_report_units_sorted_by_length_asc") or
                               (isinstance(f, tuple) and f and f[0] == "method" and f[2] == "all_report_units_sorted_by_length_asc")):
            asked.append(args[0] if args else kwargs.get("threshold", 0))
            return list(units)
        return NotImplemented
    it, run = lab.interp(hook)
    fn = lab.prj.func(q)
    try:
        RU = lab.prj.cls("codelimit.common.report.ReportUnit:ReportUnit")
        units = [it.construct(RU, [f, m], {}, None, fn) for f, m in units]      # instances of the repo's own class (methods, properties)
    except Exception:
        units = [Sym(f"unit{k}", file=f, measurement=m) for k, (f, m) in enumerate(units)]
    rp = None
    if repo:
        rp = Sym("repo")
        rp.fields.update(owner="own", name="nam", branch="br", tag=None)
    rep = Sym("report", _cls=lab.Report, codebase=Sym("codebase"), repository=rp)
    args, kwargs = [], {}
    for p in fn.params():
        if p == "console":
            args.append(Sym("console", _open=True))
        elif p == "report":
            args.append(rep)
        elif p == "full":
            kwargs["full"] = full
        else:
            raise Unknown(f"print_findings parameter {p}")
    it.call(fn, args, kwargs)
    texts = []
    for name, aa, kw in run.effects:
        texts += deep_strs(list(aa))
    shown = []
    for t in texts:
        for mm in re.finditer(r"fn(\d\d)x", t):
            k = int(mm.group(1))
            if k not in shown:
                shown.append(k)
    more = [int(x) for t in texts if "more" in t.lower() for x in re.findall(r"\d+", t)]
    return asked, shown, more


FINDING_LENGTHS = (1, 14, 15, 16, 29, 30, 31, 32, 45, 59, 60, 61, 62, 200)


def findings_listed(prj: Project, q: str, repo: bool):
    """print_findings (q) with full=True on a report built through the repo's own constructors holding one function of every
    length in FINDING_LENGTHS; Report.all_report_units_sorted_by_length_asc and its helpers are interpreted, not replaced.
    -> lengths of the functions that appear in the output, in order of first appearance"""
    from .report_eval import ReportLab
    rl = ReportLab(prj)
    run = Run()
    base = _hook(run)

    def hook(it, kind, f, args, kwargs, node, cur):
        r = rl.hook(it, kind, f, args, kwargs, node, cur)
        if r is not NotImplemented:
            return r
        return base(it, kind, f, args, kwargs, node, cur)
    rl.it.hook = hook
    cb = rl.new(rl.Codebase, "/root")
    lens = list(FINDING_LENGTHS)
    for fno, chunk in enumerate((lens[0::2], lens[1::2])):
        ms = [rl.new(rl.Measurement, f"fn{v:03d}x", rl.new(rl.Location, 1000 + v, 1), rl.new(rl.Location, 1000 + 2 * v, 1), v) for v in chunk]
        rl.call(cb, "add_file", rl.new(rl.Entry, f"dir/file{fno}.py", "sum", "Python", sum(chunk), ms))
    rl.call(cb, "aggregate")
    rp = rl.new(rl.Repo, "own", "nam", "br") if repo else None
    rep = rl.new(rl.Report, cb, rp) if repo else rl.new(rl.Report, cb)
    fn = prj.func(q)
    args, kwargs = [], {}
    for p_ in fn.params():
        if p_ == "console":
            args.append(Sym("console", _open=True))
        elif p_ == "report":
            args.append(rep)
        elif p_ == "full":
            kwargs["full"] = True
        else:
            raise Unknown(f"print_findings parameter {p_}")
    rl.it.call(fn, args, kwargs)
    shown = []
    for name, aa, kw in run.effects:
        for t in deep_strs(list(aa)):
            for mm in re.finditer(r"fn(\d\d\d)x", t):
                k = int(mm.group(1))
                if k not in shown:
                    shown.append(k)
    return shown
