"""Symbolic effect of the accumulator functions (term domain of sa.absint): what each field is increased by, as a linear
form over the symbolic quantities of the entry; independent of temporaries, tuple unpacking, helper methods, += vs =."""
from __future__ import annotations

from .absint import BoundFunc, Lin, MiniInterp, PyRaise, Sym, Unknown
from .core import AnalysisError, Project

LT = "codelimit.common.LanguageTotals:LanguageTotals"
FIELDS = ("files", "loc", "functions", "hard_to_maintain", "unmaintainable")


class SymList(Sym):
    """a symbolic list of measurements: only len() and the profile functions understand it"""


def language_totals_add(prj: Project) -> dict:
    """field -> Lin increment of LanguageTotals.add(entry); quantities: entry.loc, len(ms), cp0..cp3 (count profile of
    entry.measurements()), p0..p3 (line profile)"""
    ci = prj.cls(LT)
    add = prj.func(ci.find_method("add").qual)
    me = Sym("self", _cls=ci, language=Sym("language"))
    for f in FIELDS:
        me.fields[f] = Sym("old." + f)
    ms = SymList("ms")
    entry = Sym("entry", _open=True)

    def hook(it, kind, f, args, kwargs, node, cur):
        if kind == "getattr":
            return NotImplemented
        if isinstance(f, tuple) and f and f[0] == "method" and f[1] is entry and f[2] == "measurements":
            return ms
        if f == ("builtin", "len") and args and args[0] is ms:
            return Sym("len(ms)")
        if isinstance(f, BoundFunc) and f.fi.qual.endswith(":make_count_profile") and args and args[0] is ms:
            return [Sym(f"cp{i}") for i in range(4)]
        if isinstance(f, BoundFunc) and f.fi.qual.endswith(":make_profile") and args and args[0] is ms:
            return [Sym(f"p{i}") for i in range(4)]
        if f == ("builtin", "sum") and args and args[0] is not None and getattr(args[0], "xs", None) is not None:
            return NotImplemented
        return NotImplemented
    it = MiniInterp(prj, hook)
    try:
        it.call(add, [entry], {}, self_obj=me)
    except (Unknown, PyRaise) as e:
        try:
            return _probe_add(prj, ci, add), add
        except (Unknown, PyRaise) as e2:
            raise AnalysisError(f"{add.disp}: cannot evaluate the accumulation, neither symbolically ({e}) nor on representative entries ({e2})")
    out = {}
    for f in FIELDS:
        new = me.fields.get(f)
        try:
            out[f] = Lin.of(new).add(Lin.of(Sym("old." + f)), -1)
        except Unknown:
            raise AnalysisError(f"{add.disp}: field {f} ends up as {new!r}")
    return out, add


def _probe_add(prj: Project, ci, add) -> dict:
    """LanguageTotals.add evaluated on concrete entries (functions of 7, 20, 45 and 90 lines stand for the four categories): the
    increments of every field as an affine function of entry.loc and of the number of functions per category, determined from a
    base entry, one unit step per quantity and one mixed entry (which must agree with the affine form: additivity)"""
    M = prj.cls("codelimit.common.Measurement:Measurement")
    L = prj.cls("codelimit.common.Location:Location")
    E = prj.cls("codelimit.common.SourceFileEntry:SourceFileEntry")
    REP = (7, 20, 45, 90)

    def run(loc, counts):
        it = MiniInterp(prj, max_steps=400000, max_depth=40)
        ms = []
        for cat, n in enumerate(counts):
            for k in range(n):
                ms.append(it.construct(M, [f"f{cat}_{k}", it.construct(L, [1, 1], {}, None, add), it.construct(L, [2, 1], {}, None, add), REP[cat]], {}, None, add))
        entry = it.construct(E, ["a/b.py", "sum", "Python", loc, ms], {}, None, add)
        me = it.construct(ci, ["Python"], {}, None, add)
        before = {f: me.fields.get(f) for f in FIELDS}
        it.call(add, [entry], {}, self_obj=me)
        out = {}
        for f in FIELDS:
            a, b = before[f], me.fields.get(f)
            if not isinstance(a, int) or not isinstance(b, int):
                raise Unknown(f"field {f} is {b!r} after add")
            out[f] = b - a
        return out
    base = run(1000, (0, 0, 0, 0))
    dloc = run(2000, (0, 0, 0, 0))
    units = [run(1000, tuple(1 if i == j else 0 for i in range(4))) for j in range(4)]
    mixed = run(3000, (3, 2, 4, 5))
    out = {}
    for f in FIELDS:
        a = (dloc[f] - base[f]) / 1000
        b = [units[j][f] - base[f] for j in range(4)]
        c = base[f] - a * 1000
        predicted = c + a * 3000 + sum(bj * n for bj, n in zip(b, (3, 2, 4, 5)))
        if predicted != mixed[f] or a != int(a) or c != int(c):
            raise Unknown(f"field {f} is not an affine function of entry.loc and the number of functions per category")
        terms = {}
        if a:
            terms["entry.loc"] = int(a)
        if b == [b[0]] * 4 and b[0]:
            terms["len(ms)"] = b[0]
        else:
            for j, bj in enumerate(b):
                if bj:
                    terms[f"cp{j}"] = bj
        out[f] = Lin(terms, int(c))
    return out


WANT = {
    "files": Lin({}, 1),
    "loc": Lin({"entry.loc": 1}),
    "functions": Lin({"len(ms)": 1}),
    "hard_to_maintain": Lin({"cp2": 1}),
    "unmaintainable": Lin({"cp3": 1}),
}
WORDS = {
    "files": "1", "loc": "entry.loc", "functions": "len(entry.measurements())",
    "hard_to_maintain": "make_count_profile(entry.measurements())[2]", "unmaintainable": "make_count_profile(entry.measurements())[3]",
}


def describe(l: Lin) -> str:
    t = repr(l)
    for i in range(4):
        t = t.replace(f"cp{i}", f"make_count_profile(ms)[{i}]").replace(f"p{i}", f"make_profile(ms)[{i}]") if False else t
    return t.replace("cp", "count_profile_cell_").replace("len(ms)", "len(entry.measurements())")
