"""Symbolic effect of the accumulator functions (term domain of sa.absint): what each field is increased by, as a linear
form over the symbolic quantities of the entry; independent of temporaries, tuple unpacking, helper methods, += vs =."""
from __future__ import annotations

from .absint import BoundFunc, Lin, MiniInterp, PyRaise, Sym, Unknown
from .core import AnalysisError, Project

LT = "codelimit.common.LanguageTotals:LanguageTotals"
FIELDS = ("files", "loc", "functions", "hard_to_maintain", "unmaintainable")


class SymList(Sym):
    """a symbolic list of measurements: only len() and the profile functions understand it"""


def language_totals_add(prj: Project) -> dict:
    """field -> Lin increment of LanguageTotals.add(entry); quantities: entry.loc, len(ms), cp0..cp3 (count profile of
    entry.measurements()), p0..p3 (line profile)"""
    ci = prj.cls(LT)
    add = prj.func(ci.find_method("add").qual)
    me = Sym("self", _cls=ci, language=Sym("language"))
    for f in FIELDS:
        me.fields[f] = Sym("old." + f)
    ms = SymList("ms")
    entry = Sym("entry", _open=True)

    def hook(it, kind, f, args, kwargs, node, cur):
        if kind == "getattr":
            return NotImplemented
        if isinstance(f, tuple) and f and f[0] == "method" and f[1] is entry and f[2] == "measurements":
            return ms
        if f == ("builtin", "len") and args and args[0] is ms:
            return Sym("len(ms)")
        if isinstance(f, BoundFunc) and f.fi.qual.endswith(":make_count_profile") and args and args[0] is ms:
            return [Sym(f"cp{i}") for i in range(4)]
        if isinstance(f, BoundFunc) and f.fi.qual.endswith(":make_profile") and args and args[0] is ms:
            return [Sym(f"p{i}") for i in range(4)]
        if f == ("builtin", "sum") and args and args[0] is not None and getattr(args[0], "xs", None) is not None:
            return NotImplemented
        return NotImplemented
    it = MiniInterp(prj, hook)
    try:
        it.call(add, [entry], {}, self_obj=me)
    except (Unknown, PyRaise) as e:
        raise AnalysisError(f"{add.disp}: cannot evaluate the accumulation symbolically ({e})")
    out = {}
    for f in FIELDS:
        new = me.fields.get(f)
        try:
            out[f] = Lin.of(new).add(Lin.of(Sym("old." + f)), -1)
        except Unknown:
            raise AnalysisError(f"{add.disp}: field {f} ends up as {new!r}")
    return out, add


WANT = {
    "files": Lin({}, 1),
    "loc": Lin({"entry.loc": 1}),
    "functions": Lin({"len(ms)": 1}),
    "hard_to_maintain": Lin({"cp2": 1}),
    "unmaintainable": Lin({"cp3": 1}),
}
WORDS = {
    "files": "1", "loc": "entry.loc", "functions": "len(entry.measurements())",
    "hard_to_maintain": "make_count_profile(entry.measurements())[2]", "unmaintainable": "make_count_profile(entry.measurements())[3]",
}


def describe(l: Lin) -> str:
    t = repr(l)
    for i in range(4):
        t = t.replace(f"cp{i}", f"make_count_profile(ms)[{i}]").replace(f"p{i}", f"make_profile(ms)[{i}]") if False else t
    return t.replace("cp", "count_profile_cell_").replace("len(ms)", "len(entry.measurements())")
