"""Evaluate a site function through the abstract interpreter with everything outside the project (rich, typer, print,
pathlib ...) recorded as an effect instead of executed. Gives the *outcome* of a decision site for one value of its
subject independently of the shape of the code (tables, helpers, lambdas, bisect ...)."""
from __future__ import annotations

import ast

from .absint import BoundFunc, Closure, Lin, MiniInterp, PyRaise, Sym, Unknown
from .core import AnalysisError, FuncInfo, Project, attr_chain, const_int, unparse


class Run:
    def __init__(self):
        self.effects = []      # (name, args, kwargs)
        self.result = None
        self.raised = None
        self.self_obj = None


def _hook(run: Run):
    def hook(it, kind, f, args, kwargs, node, cur):
        if kind != "call":
            return NotImplemented
        if isinstance(f, tuple) and f and f[0] == "external":
            name = f[1].replace(":", ".")
            base = name.split(".")[-1]
            if name.split(".")[0] in ("json", "re", "hashlib", "operator", "functools", "itertools", "collections", "bisect", "copy", "heapq", "dataclasses"):
                return NotImplemented        # interpreted (or the real, pure library function) by the interpreter itself
            if base in ("bisect", "bisect_left", "bisect_right", "deepcopy", "copy", "ceil", "floor"):
                if base in ("ceil", "floor") and len(args) == 1 and isinstance(args[0], (int, float)):
                    import math
                    return getattr(math, base)(args[0])
                return NotImplemented
            run.effects.append((name, list(args), dict(kwargs)))
            return Sym("ext:" + base, _open=True, args=list(args), **{k: v for k, v in kwargs.items() if k not in ("args",)})
        if isinstance(f, tuple) and f and f[0] == "method" and isinstance(f[1], Sym) and (f[1].cls is None or f[1].cls.find_method(f[2]) is None):
            obj, name = f[1], f[2]
            cands = it.prj.methods_named(name)
            if obj.name.startswith("ext:") or obj.name.startswith("ext.") or not cands or obj.cls is not None or getattr(obj, "open", False):
                run.effects.append((f"{obj.name}.{name}", list(args), dict(kwargs)))
                r = Sym(f"ext.{obj.name}.{name}()", _open=True, args=list(args))
                return r
            return NotImplemented
        if isinstance(f, tuple) and f and f[0] == "builtin" and f[1] == "print":
            run.effects.append(("print", list(args), dict(kwargs)))
            return None
        return NotImplemented
    return hook


def run_site(prj: Project, fi: FuncInfo, args: list, kwargs: dict | None = None, self_obj=None, max_steps=40000) -> Run:
    run = Run()
    it = MiniInterp(prj, _hook(run), max_steps=max_steps)
    run.interp = it
    run.self_obj = self_obj
    try:
        run.result = it.call(fi, args, kwargs or {}, self_obj=self_obj)
    except PyRaise as e:
        run.raised = e
    return run


def new_instance(prj: Project, ci, args=(), kwargs=None):
    it = MiniInterp(prj, _hook(Run()))
    anchor = next(iter(ci.methods.values()), None) or MiniInterp.module_anchor(ci.module, None) or next(iter(prj.funcs.values()))
    return it.construct(ci, list(args), kwargs or {}, None, anchor)


def deep_values(x, seen=None, depth=0):
    """all leaf values reachable from x (through containers, symbolic objects' fields / recorded arguments)"""
    seen = seen if seen is not None else set()
    if depth > 12 or id(x) in seen:
        return
    seen.add(id(x))
    if isinstance(x, (str, int, float, bool)) or x is None:
        yield x
    elif isinstance(x, (list, tuple, set, frozenset)):
        for y in x:
            yield from deep_values(y, seen, depth + 1)
    elif isinstance(x, dict):
        for k, v in x.items():
            yield from deep_values(k, seen, depth + 1)
            yield from deep_values(v, seen, depth + 1)
    elif isinstance(x, Sym):
        for v in x.fields.values():
            yield from deep_values(v, seen, depth + 1)
    elif isinstance(x, Lin):
        yield x


def deep_strs(x) -> list:
    return [v for v in deep_values(x) if isinstance(v, str)]


def measurement(v, name="f", prj=None, start=(7, 3), end=None):
    """a function measurement of length v: with a project, an instance of the repo's own Measurement (with its Locations) built through
    its constructors, so that whatever the class defines (properties, comparison methods) is what the sites see; a plain record otherwise"""
    end = end or (start[0] + v, 1)
    if prj is not None:
        try:
            mc = prj.cls("codelimit.common.Measurement:Measurement")
            lc = prj.cls("codelimit.common.Location:Location")
            a, b = new_instance(prj, lc, list(start)), new_instance(prj, lc, list(end))
            try:
                return new_instance(prj, mc, [], {"unit_name": name, "start": a, "end": b, "value": v})
            except PyRaise:
                return new_instance(prj, mc, [name, a, b, v])
        except (Unknown, PyRaise, AnalysisError, KeyError, AttributeError):
            pass
    return Sym("measurement", value=v, unit_name=name, start=Sym("loc", line=start[0], column=start[1]), end=Sym("loc", line=end[0], column=end[1]))


def default_args(prj: Project, fi: FuncInfo, v: int):
    """arguments for a site function: the subject value for int-like / Measurement parameters, open terms otherwise"""
    params = fi.params()
    self_obj = None
    if fi.is_method() and not fi.is_static():
        self_obj = new_instance(prj, fi.cls)
        params = params[1:]
    args = []
    for p in params:
        ann = fi.param_annotation(p)
        at = unparse(ann) if ann is not None else ""
        d = fi.param_default(p)
        if "GithubRepository" in at or p == "repository":
            try:
                rc = prj.cls("codelimit.common.GithubRepository:GithubRepository")
                args.append(MiniInterp(prj).construct(rc, ["own", "nam", "br"], {}, None, fi))
            except Exception:
                args.append(Sym(p, _open=True))
        elif "ReportUnit" in at or p in ("report_units", "units"):
            ru = prj.cls("codelimit.common.report.ReportUnit:ReportUnit")
            m = measurement(v, prj=prj)
            unit = MiniInterp(prj).construct(ru, ["dir/file.py", m], {}, None, fi)
            args.append([unit] if ("list" in at or "List" in at or "Iterable" in at or "Sequence" in at or p.endswith("s")) else unit)
        elif "Measurement" in at and ("list" in at or "List" in at or "Iterable" in at or "Sequence" in at):
            args.append([measurement(v, prj=prj)])
        elif "Measurement" in at or p in ("m", "measurement"):
            args.append(measurement(v, prj=prj))
        elif at == "int" or p in ("value", "length", "loc"):
            args.append(v)
        elif p == "measurements":
            args.append([measurement(v, prj=prj)])
        elif d is not None:
            break
        else:
            args.append(Sym(p, _open=True))
    return args, self_obj
