#!/venv/bin/python
"""Driver: /venv/bin/python /verif/sa/check.py <ID> [--tier quick|thorough] [--repo DIR]

exit 0: every rule instance of the property holds (or only known findings)
exit 1: VIOLATION property=<ID> replay=<path>
exit 2: ANALYSIS-ERROR (no verdict)
"""
from __future__ import annotations

import argparse
import importlib
import os
import sys
import traceback
from pathlib import Path

HERE = Path(__file__).resolve().parent
sys.path.insert(0, str(HERE.parent))

PROPS = [f"C{i:02d}" for i in range(1, 20)]

LEVELS = {"C02": "proof", "C15": "proof"}


def run_one(prop: str, tier: str) -> int:
    from sa import core, report
    try:
        mod = importlib.import_module(f"sa.props.{prop.lower()}")
    except ModuleNotFoundError as e:
        return report.fail_analysis(prop, tier, f"no rule module for {prop}: {e}")
    except Exception as e:      # a broken checker module is an analysis error, never a verdict
        return report.fail_analysis(prop, tier, f"checker module failed to load: {type(e).__name__}: {e}")
    try:
        prj = core.Project(core.REPO)
        ctx = report.Ctx(prop, tier, LEVELS.get(prop, "other"))
        ctx.extra["analysed"] = {
            "repo": str(prj.root), "files": len(prj.modules), "lines": prj.lines,
            "functions": len(prj.funcs), "classes": len(prj.classes),
        }
        mod.run(ctx, prj)
        if tier == "thorough" and hasattr(mod, "run_thorough"):
            mod.run_thorough(ctx, prj)
        if tier == "thorough" and not os.environ.get("VERIF_NO_SELFTEST"):
            from sa import selftest
            selftest.run_for_property(ctx, prop)
        return ctx.finish()
    except core.AnalysisError as e:
        return report.fail_analysis(prop, tier, str(e))
    except Exception as e:  # a crash of the checker is never a violation
        tb = traceback.format_exc(limit=6)
        return report.fail_analysis(prop, tier, f"checker crashed: {type(e).__name__}: {e}\n{tb}")


def main(argv=None) -> int:
    ap = argparse.ArgumentParser()
    ap.add_argument("prop")
    ap.add_argument("--tier", default=os.environ.get("VERIF_TIER", "quick"), choices=["quick", "thorough"])
    ap.add_argument("--repo", default=None)
    a = ap.parse_args(argv)
    if a.repo:
        os.environ["CODELIMIT_REPO"] = a.repo
        from sa import core
        core.REPO = Path(a.repo)
    if a.prop == "all":
        rc = 0
        for p in PROPS:
            rc = max(rc, run_one(p, a.tier))
        return rc
    if a.prop not in PROPS:
        print(f"ANALYSIS-ERROR unknown property {a.prop}")
        return 2
    return run_one(a.prop, a.tier)


if __name__ == "__main__":
    rc_ = main()
    # leave without running finalisers: generators of the interpreted program that were never exhausted own helper threads
    sys.stdout.flush()
    sys.stderr.flush()
    os._exit(rc_)
