"""C15 - Built-in header patterns are unambiguous on every token (exhaustive)."""
from __future__ import annotations

import itertools

from ..core import AnalysisError, Project
from ..patterns import (AToken, DFAModel, Interp, Pat, PredModel, consume_rule, extract_header_patterns,
                        language_classes, token_classes)


def duplicate_stateful_atoms(pat: Pat):
    seen = []
    for a in pat.atoms():
        if any(p.cls == "Balanced" for p in a.pred.walk()):
            if a.pred in seen:
                return a.pred
            seen.append(a.pred)
    return None


def explore(ctx, interp: Interp, pat: Pat, cap: int, priority_open: bool, label: str, site: str, key: str, rid="R1"):
    """Exhaustive product exploration.  Returns (configs, checked, witnesses)."""
    dup = duplicate_stateful_atoms(pat)
    if dup:
        raise AnalysisError(f"{key}: the expression contains {dup} as more than one atom; which copy labels a DFA "
                            f"transition depends on set iteration order in nfa_to_dfa (reported by C06-R6), so the "
                            f"per-copy depth state is not modelled here")
    dfa = DFAModel(pat)
    models = {}
    for T, outs in dfa.trans.items():
        for p, _ in outs:
            if p not in models:
                models[p] = PredModel(interp, p, cap)
    stateful = [p for p, m in models.items() if m.stateful]
    toks = token_classes(pat)
    init = (dfa.start, tuple(models[p].initial() for p in stateful))
    seen = {init: None}
    todo = [init]
    witnesses = []
    checked = 0
    while todo:
        cfg = todo.pop()
        T, ps = cfg
        pstate = dict(zip(stateful, ps))
        trans = dfa.trans[T]
        if priority_open:
            opened = [(p, t) for p, t in trans if models[p].stateful and models[p].is_open(pstate[p])]
            if opened:
                trans = opened
        for tok in toks:
            per = []
            for p, tgt in trans:
                outs = models[p].accept(pstate.get(p, ()), tok)
                per.append([(p, tgt, r, nxt) for r, nxt in outs])
            for combo in itertools.product(*per):
                checked += 1
                acc = [(p, tgt) for p, tgt, r, _ in combo if r]
                if len(acc) > 1:
                    path = []
                    c = cfg
                    while seen[c] is not None:
                        c, tk = seen[c]
                        path.append(repr(tk))
                    witnesses.append(dict(state=dfa.name(T), depths={repr(p): pstate[p] for p in stateful},
                                          token=repr(tok), predicates=[repr(p) for p, _ in acc],
                                          path=" ".join(reversed(path))))
                    continue
                if len(acc) == 1:
                    new_ps = dict(pstate)
                    for p, tgt, r, nxt in combo:
                        if p in new_ps:
                            new_ps[p] = nxt
                    ncfg = (acc[0][1], tuple(new_ps[p] for p in stateful))
                    if ncfg not in seen:
                        seen[ncfg] = (cfg, tok)
                        todo.append(ncfg)
    ctx.obligations += checked
    ctx.discharged += checked - len(witnesses)
    return len(seen), checked, witnesses, dfa, toks


def run(ctx, prj: Project, cap: int = 2, tag=""):
    ctx.explanation = (
        "Exhaustive static exploration of the finite space (DFA state x depth class of every balanced-group "
        "predicate x token class) for every header and follow-up expression written in codelimit/languages/*.py. "
        "The expressions are evaluated symbolically from the get_headers(...) call sites; predicate semantics are "
        "obtained by abstract interpretation of the predicate classes' accept()/is_open() and Token.is_* source "
        "over kind x distinguished-value token classes; the subset DFA is built by the checker's own model of the "
        "engine (whose agreement with the repo's operator wiring is C13-R1); the selection rule of Pattern.consume "
        "(priority of an open balanced group) is read from its source.")
    ctx.trust("pygments token kinds Keyword/Name/Punctuation/Operator/Literal/Other are disjoint sub-trees",
              "the engine builds the subset DFA of the Thompson NFA with predicate identity = __eq__ (checked by C13-R1/R3)",
              "CPython ast")
    ctx.rule("R1" + tag, "in every reachable (state, depth class) configuration of every shipped header/follow-up "
             "expression and for every token class, at most one transition applies under the selection rule of "
             "Pattern.consume", floor=16)
    hps = extract_header_patterns(prj)
    langs = {h.language for h in hps}
    if len(langs) < 7:
        raise AnalysisError(f"only {len(langs)} languages with header patterns found (7 confirmed by reading)")
    rule = consume_rule(prj)
    if rule.priority_open is None:
        raise AnalysisError(f"{rule.fi.disp}: the selection rule fits none of the recognised forms: {rule.other[:3]}")
    ctx.extra["consume_rule"] = dict(priority_open=rule.priority_open, raises_on_second=rule.raises_on_second,
                                     first_match=rule.first_match)
    if not tag:
        ctx.rule("R2", "the selection rule is applied per attempt: Pattern.consume evaluated on a two-transition state gives the same "
                       "outcome whatever another attempt over the same automaton (find_all runs one per start position on one automaton) "
                       "consumed before it - 16 x 16 (earlier attempt, this attempt) scenarios of open / accepting predicates", floor=0)
        if rule.history_dependent:
            ctx.viol("R2", "Pattern.consume/history-dependent", rule.fi.site(),
                     f"the outcome of Pattern.consume depends on an earlier attempt over the same automaton: {rule.history_dependent[0]} "
                     f"({len(rule.history_dependent)} of {rule.history_scenarios} scenario pairs): what one attempt leaves on the shared automaton "
                     f"switches the open-group priority of the next, so two transitions can apply (ValueError) or the wrong one is taken")
        elif rule.history_scenarios:
            ctx.ok("R2", rule.fi.site(), f"Pattern.consume: {rule.history_scenarios} scenario pairs, the second attempt's outcome never depends on the first")
        else:
            ctx.info(f"R2: pairs of attempts not evaluable ({rule.history_unknown}); not judged")
    interp = Interp(prj)
    total_cfg = total_chk = 0
    for h in hps:
        for which, pat in (("header", h.expr), ("follow-up", h.follow)):
            if pat is None:
                continue
            ncfg, nchk, wit, dfa, toks = explore(ctx, interp, pat, cap, rule.priority_open, h.key, h.fi.site(h.call), h.key)
            total_cfg += ncfg
            total_chk += nchk
            what = f"{h.key}/{which}: {pat!r}"
            if wit:
                # one violation per (expression, pair of predicates)
                groups = {}
                for w in wit:
                    groups.setdefault(tuple(w["predicates"]), w)
                for preds, w in groups.items():
                    ctx.viol("R1" + tag, f"{h.key}/{which}/{'&'.join(preds)}", h.fi.site(h.call),
                             f"ambiguous: in state {w['state']} with depths {w['depths']} the token {w['token']} is accepted by "
                             f"{' and '.join(preds)}; reached by tokens: {w['path'] or '<start>'}; expression {pat!r}",
                             witness=w)
            else:
                ctx.instances.setdefault("R1" + tag, []).append(dict(
                    site=h.fi.site(h.call), what=f"{what}: {len(dfa.states)} DFA states, {ncfg} configurations x {len(toks)} token classes",
                    verdict="ok"))
                ctx.lines.append(f"OK rule=R1{tag} site={h.fi.site(h.call)} construct={h.key}/{which} dfa_states={len(dfa.states)} "
                                 f"configs={ncfg} token_classes={len(toks)} checked={nchk} depth_cap={cap}")
                ctx.sample({"pattern": what, "dfa_states": len(dfa.states), "configurations": ncfg, "token_classes": len(toks)})
    ctx.extra.setdefault("states", 0)
    ctx.extra["states"] += total_cfg
    ctx.extra.setdefault("transitions", 0)
    ctx.extra["transitions"] += total_chk
    ctx.extra["depth_classes" + tag] = f"0..{cap-1}, >={cap}"
    ctx.exhaustive = True


def run_thorough(ctx, prj: Project):
    # the verdict must not depend on the depth abstraction: repeat with one more exact level
    run(ctx, prj, cap=3, tag="-cap3")
