"""C19 - Summary percentages and verdict are sane (identity, decision table, zero guard; rounding not decided)."""
from __future__ import annotations

import ast
import copy

from ..core import (AnalysisError, FuncInfo, Project, attr_chain, const_int, const_str, enclosing, expand, guards_of,
                    local_defs, term, unparse)
from ..absint import BoundFunc, Lin, MiniInterp, PyRaise, Sym, Unknown
from ..evalsite import Run, _hook, deep_strs, run_site

QPP = "codelimit.common.report.Report:Report.quality_profile_percentage"
CATS = ("easy", "verbose", "hard_to_maintain", "unmaintainable")



def linear(e, names) -> dict | None:
    """linear normal form {name: coeff, '1': const} of an expression over `names`, or None"""
    c = const_int(e)
    if c is not None:
        return {"1": c}
    if isinstance(e, ast.Name) and e.id in names:
        return {e.id: 1}
    if isinstance(e, ast.BinOp) and isinstance(e.op, (ast.Add, ast.Sub)):
        a, b = linear(e.left, names), linear(e.right, names)
        if a is None or b is None:
            return None
        out = dict(a)
        for k, v in b.items():
            out[k] = out.get(k, 0) + (v if isinstance(e.op, ast.Add) else -v)
        return {k: v for k, v in out.items() if v != 0}
    if isinstance(e, ast.UnaryOp) and isinstance(e.op, ast.USub):
        a = linear(e.operand, names)
        return None if a is None else {k: -v for k, v in a.items()}
    return None


POS_HINT = "the profile total is positive"


def qpp_eval(prj, profile=None):
    """quality_profile_percentage evaluated on a symbolic profile [p0..p3] with a positive total (comparisons of the
    total with 0/1 answered accordingly; ceil/round/int/floor/min/max kept as uninterpreted terms), or on a concrete
    profile. -> (tuple of 4 values, FuncInfo)"""
    fi = prj.func(QPP)
    ps = [Sym(f"p{i}") for i in range(4)] if profile is None else list(profile)
    run = Run()
    base = _hook(run)

    def positive(v):
        l = Lin.of(v)
        return bool(l.terms) and all(c > 0 for c in l.terms.values()) and l.const >= 0 and all(k in ("p0", "p1", "p2", "p3") for k in l.terms)

    def hook(it, kind, f, args, kwargs, node, cur):
        if kind == "call" and isinstance(f, BoundFunc) and f.fi.name == "quality_profile":
            return list(ps)
        if kind == "compare" and profile is None:
            op, (x, y) = f, args
            flip = {ast.Lt: ast.Gt, ast.Gt: ast.Lt, ast.LtE: ast.GtE, ast.GtE: ast.LtE, ast.Eq: ast.Eq, ast.NotEq: ast.NotEq}
            t = type(op)
            if isinstance(y, (Sym, Lin)) and not isinstance(x, (Sym, Lin)) and t in flip:
                x, y, t = y, x, flip[t]
            if isinstance(y, (int, float)) and positive(x):
                if y <= 0:
                    return {ast.Gt: True, ast.GtE: True, ast.NotEq: True, ast.Lt: False, ast.LtE: False, ast.Eq: False}.get(t, NotImplemented)
                if y == 1:
                    return {ast.GtE: True, ast.Lt: False}.get(t, NotImplemented)
            return NotImplemented
        if kind == "truth" and profile is None and positive(f):
            return True
        if kind == "call" and profile is None:
            nm = None
            if isinstance(f, tuple) and f and f[0] == "external":
                nm = f[1].replace(":", ".").split(".")[-1]
            elif isinstance(f, tuple) and f and f[0] == "builtin":
                nm = f[1]
            if nm in ("ceil", "floor", "trunc", "round", "int", "min", "max") and any(isinstance(x, (Sym, Lin)) for x in args):
                return it.opaque(nm, *args)
        return base(it, kind, f, args, kwargs, node, cur)
    it = MiniInterp(prj, hook)
    me = Sym("report", _cls=fi.cls)
    try:
        r = it.call(fi, [], {}, self_obj=me)
    except Unknown as e:
        raise AnalysisError(f"{fi.disp}: cannot evaluate symbolically ({e})")
    if isinstance(r, Sym) and getattr(r, "tuple_order", None):
        r = tuple(r.fields[k] for k in r.tuple_order)
    if not (isinstance(r, (tuple, list)) and len(r) == 4):
        raise AnalysisError(f"{fi.disp}: does not return four values ({r!r})")
    qpp_eval.terms = dict(it.terms)
    return tuple(r), fi


def _op(v):
    return v.fields.get("op") if isinstance(v, Sym) else None


def _share_of(v):
    """v = k * Div(m * p_i, total) + c  (any association) -> (i, k*m, c) else None"""
    try:
        l = Lin.of(v)
    except Unknown:
        return None
    if len(l.terms) != 1:
        return None
    (name, k), = l.terms.items()
    return name, k, l.const


def _find_term(v, name):
    """the opaque Sym with this name inside v"""
    seen = []

    def rec(x):
        if isinstance(x, Sym):
            if x.name == name:
                seen.append(x)
            for y in x.fields.get("args", []) or []:
                rec(y)
        elif isinstance(x, Lin):
            pass
    rec(v)
    return seen[0] if seen else None


class Terms:
    """registry of opaque terms by name (Lin only keeps names)"""

    def __init__(self):
        self.by_name = {}

    def scan(self, v):
        if isinstance(v, Sym):
            self.by_name[v.name] = v
            for y in v.fields.get("args", []) or []:
                self.scan(y)
        elif isinstance(v, (tuple, list)):
            for y in v:
                self.scan(y)


def _numerator_cells(v, reg: Terms, in_den=False, out=None):
    out = out if out is not None else set()
    if isinstance(v, Lin):
        for k in v.terms:
            if k in ("p0", "p1", "p2", "p3"):
                if not in_den:
                    out.add(k)
            elif k in reg.by_name:
                _numerator_cells(reg.by_name[k], reg, in_den, out)
    elif isinstance(v, Sym):
        if v.name in ("p0", "p1", "p2", "p3"):
            if not in_den:
                out.add(v.name)
        elif _op(v) in ("Div", "FloorDiv"):
            _numerator_cells(v.fields["a"], reg, in_den, out)
            _numerator_cells(v.fields["b"], reg, True, out)
        else:
            for y in v.fields.get("args", []) or []:
                _numerator_cells(y, reg, in_den, out)
    return out


class _Reg(Terms):
    pass


def _registry(it_vals):
    reg = Terms()
    reg.by_name.update(getattr(qpp_eval, "terms", {}))

    def deep(v):
        if isinstance(v, Sym):
            reg.by_name[v.name] = v
            for y in v.fields.get("args", []) or []:
                deep(y)
        elif isinstance(v, (tuple, list)):
            for y in v:
                deep(y)
    deep(it_vals)
    return reg


def rule_R1(ctx, prj):
    ctx.rule("R1", "the displayed percentages (easy+verbose, hard-to-maintain, unmaintainable) sum to 100 identically: the "
                   "four values of quality_profile_percentage, evaluated symbolically with the roundings as uninterpreted "
                   "terms, add up to the constant 100; each rounded term is computed from its own profile cell; each display "
                   "site shows exactly easy+verbose, hard-to-maintain, unmaintainable", floor=4)
    vals, fi = qpp_eval(prj)
    tot = Lin({}, 0)
    try:
        for x in vals:
            tot = tot.add(Lin.of(x))
    except Unknown:
        raise AnalysisError(f"{fi.disp}: values {vals!r} are not numbers")
    if not tot.terms and tot.const == 100:
        ctx.ok("R1", fi.site(), "easy + verbose + hard_to_maintain + unmaintainable = 100 identically (sum of the four symbolic values)")
    else:
        ctx.viol("R1", "quality_profile_percentage/easy", fi.site(),
                 f"the four percentages add up to `{tot}`, not to the constant 100: the first value is not the remainder 100 - (the three rounded terms), "
                 f"so the displayed percentages do not sum to 100 (e.g. when the rounded-up terms exceed 100 for lengths 16, 31, 61)")
    reg = _registry(list(vals))
    # Lin values refer to opaque terms by name only: collect them from all results first
    for nm, idx in (("verbose", 1), ("hard_to_maintain", 2), ("unmaintainable", 3)):
        cells = sorted(_numerator_cells(vals[idx], reg))
        if cells == [f"p{idx}"]:
            ctx.ok("R1", fi.site(), f"{nm} is computed from profile[{idx}]")
        else:
            ctx.viol("R1", f"quality_profile_percentage/{nm}", fi.site(), f"{nm} is computed from profile cells {[int(c[1]) for c in cells]}; required [{idx}]")
    # display sites
    import re
    sample = (37, 11, 23, 29)
    for q, args_of in (("codelimit.common.SummaryTable:SummaryTable.__init__", None), ("codelimit.common.report.format_markdown:print_summary", None)):
        f = prj.func(q)
        texts = _render_summary(prj, f, sample)
        shown = [int(x) for t in texts for x in re.findall(r"(\d+)\s*%", t)]
        first3 = shown[:3]
        want = [sample[0] + sample[1], sample[2], sample[3]]
        if first3 == want:
            ctx.ok("R1", f.site(), f"{f.local}: shows easy+verbose, hard-to-maintain, unmaintainable (evaluated with {sample}: {first3})")
        elif sorted(first3) == sorted(want):
            ctx.viol("R1", f"{f.local}/displayed-triple", f.site(), f"for (easy, verbose, hard, unmaintainable) = {sample} the columns show {first3}; required {want} in this order")
        else:
            ctx.viol("R1", f"{f.local}/displayed-triple", f.site(), f"for (easy, verbose, hard, unmaintainable) = {sample} the percentages shown are {first3}: they do not cover easy, verbose, hard-to-maintain and unmaintainable exactly once (sum is not 100)")


def _render_summary(prj, f, sample, through_profile=True):
    """texts printed / built by a summary renderer when the percentages are `sample` (which sums to 100): the report's
    quality_profile() is made to return `sample` as line counts, so quality_profile_percentage() - interpreted, whatever it
    returns (tuple, named tuple, object) - yields exactly these percentages; if that is not evaluable, the result of
    quality_profile_percentage() itself is replaced by the plain tuple"""
    if through_profile and sum(sample) == 100:
        try:
            return _render_summary(prj, f, sample, through_profile=None)
        except AnalysisError:
            return _render_summary(prj, f, sample, through_profile=False)
    run = Run()
    base = _hook(run)
    target = "quality_profile" if through_profile is None else "quality_profile_percentage"

    def hook(it, kind, fn, args, kwargs, node, cur):
        if kind == "call" and isinstance(fn, BoundFunc) and fn.fi.name == target:
            return list(sample) if through_profile is None else tuple(sample)
        if kind == "call" and isinstance(fn, tuple) and fn and fn[0] == "method" and fn[2] == target:
            return list(sample) if through_profile is None else tuple(sample)
        return base(it, kind, fn, args, kwargs, node, cur)
    it = MiniInterp(prj, hook)
    rep = Sym("report", _cls=prj.cls("codelimit.common.report.Report:Report"))
    params = f.params()
    self_obj = None
    if f.is_method() and not f.is_static():
        self_obj = Sym("self", _cls=f.cls)
        params = params[1:]
    args = []
    for p in params:
        ann = f.param_annotation(p)
        at = unparse(ann) if ann is not None else ""
        if "Report" in at or p == "report":
            args.append(rep)
        elif f.param_default(p) is not None:
            break
        else:
            args.append(Sym(p, _open=True))
    try:
        it.call(f, args, {}, self_obj=self_obj)
    except (Unknown, PyRaise) as e:
        raise AnalysisError(f"{f.disp}: cannot evaluate the renderer ({e})")
    out = []
    for name, aa, kw in run.effects:
        out += [x for x in deep_strs(list(aa)) if isinstance(x, str)]
    return out


def rule_R2(ctx, prj):
    ctx.rule("R2", "both print_summary functions choose the verdict by the same table: unmaintainable >= 1 -> refactoring "
                   "necessary (shows the unmaintainable percentage); else hard_to_maintain >= 21 -> refactoring necessary "
                   "(shows the hard-to-maintain percentage); else no refactoring necessary (shows easy + verbose) - evaluated "
                   "for 8 (unmaintainable, hard_to_maintain) pairs around the boundaries", floor=8)
    import re
    samples = [(0, 0), (0, 19), (0, 20), (0, 21), (0, 57), (1, 0), (1, 21), (3, 57)]
    tables = {}
    for q in ("codelimit.common.report.format_text:print_summary", "codelimit.common.report.format_markdown:print_summary"):
        f = prj.func(q)
        table = {}
        bad = None
        for unm, hard in samples:
            verbose = 5
            easy = 100 - verbose - unm - hard
            texts = _render_summary(prj, f, (easy, verbose, hard, unm))
            verdicts = [t for t in texts if "refactoring" in t.lower()]
            label = None
            if verdicts:
                t = verdicts[-1]
                necessary = "no refactoring" not in t.lower()
                nums = [int(x) for x in re.findall(r"(\d+)\s*%", t)]
                shown = nums[0] if nums else None
                label = (necessary, shown)
            want = (True, unm) if unm >= 1 else (True, hard) if hard >= 21 else (False, easy + verbose)
            names = {unm: "unmaintainable", hard: "hard_to_maintain", easy + verbose: "easy + verbose"}
            table[(unm, hard)] = label
            ctx.obligations += 1
            if label is None or label[0] != want[0] or label[1] != want[1]:
                ctx.bad_instance("R2", f.site(), f"unm={unm} hard={hard} -> {label}")
            if label is None:
                bad = bad or ((unm, hard), "no verdict is printed", want, names)
            elif label[0] != want[0]:
                bad = bad or ((unm, hard), f"declares refactoring {'necessary' if label[0] else 'not necessary'}", want, names)
            elif label[1] != want[1]:
                bad = bad or ((unm, hard), f"the message shows {label[1]} % ({names.get(label[1], 'another number')})", want, names)
            else:
                ctx.discharged += 1
                ctx.instances.setdefault("R2", []).append(dict(site=f.site(), what=f"{f.module.name.split('.')[-1]}.print_summary unm={unm} hard={hard} -> {label}", verdict="ok"))
        tables[q] = table
        key = f"{f.module.name.split('.')[-1]}.print_summary"
        if bad:
            (unm, hard), got, want, names = bad
            ctx.viol("R2", key, f.site(), f"with unmaintainable={unm} %, hard-to-maintain={hard} %: {got}; required "
                     f"{'refactoring necessary' if want[0] else 'no refactoring necessary'} showing {names[want[1]]} "
                     f"(necessary exactly when unmaintainable > 0 or hard-to-maintain > 20)")
        else:
            ctx.lines.append(f"OK rule=R2 site={f.site()} construct={key} rows={len(samples)}")
    a, b = list(tables.values())
    diff = [k for k in a if a[k] != b[k] and (a[k] is None or b[k] is None or a[k][0] != b[k][0])]
    if diff:
        ctx.viol("R2", "print_summary/renderers-disagree", prj.func("codelimit.common.report.format_text:print_summary").site(),
                 f"text and Markdown summaries give different verdicts for (unmaintainable, hard-to-maintain) = {diff}")


def rule_R3(ctx, prj):
    ctx.rule("R3", "the all-zero profile is handled: quality_profile_percentage and render_quality_profile evaluated on the "
                   "profile [0, 0, 0, 0] do not divide by the (zero) total and show 0 % for the three rounded categories", floor=2)
    try:
        vals, fi = qpp_eval(prj, profile=[0, 0, 0, 0])
    except PyRaise as e:
        fi = prj.func(QPP)
        ctx.viol("R3", "quality_profile_percentage/division-1", fi.site(e.node) if e.node is not None else fi.site(),
                 f"for a codebase without functions (profile [0, 0, 0, 0]) quality_profile_percentage raises {e.name}: a division by the profile total is not guarded by `total > 0`")
    else:
        if tuple(vals[1:]) == (0, 0, 0):
            ctx.ok("R3", fi.site(), f"quality_profile_percentage([0,0,0,0]) = {tuple(vals)}: no division by the zero total")
        else:
            ctx.viol("R3", "quality_profile_percentage/zero-profile", fi.site(), f"for the all-zero profile the percentages are {tuple(vals)}; required 0 % for verbose, hard-to-maintain and unmaintainable")
    rq = prj.func("codelimit.common.utils:render_quality_profile")
    try:
        run = run_site(prj, rq, [[0, 0, 0, 0]])
    except Unknown as e:
        raise AnalysisError(f"{rq.disp}: cannot evaluate on the zero profile ({e})")
    if run.raised is not None:
        ctx.viol("R3", "render_quality_profile/division-1", rq.site(run.raised.node) if run.raised.node is not None else rq.site(),
                 f"render_quality_profile([0, 0, 0, 0]) raises {run.raised.name}: a division by the profile total is not guarded by `total > 0`")
    else:
        ctx.ok("R3", rq.site(), "render_quality_profile([0,0,0,0]): no division by the zero total")


def _strip_clamp(v):
    while isinstance(v, Sym) and _op(v) in ("min", "max"):
        inner = [x for x in v.fields.get("args", []) if isinstance(x, (Sym, Lin))]
        if len(inner) != 1:
            break
        v = inner[0]
    return v


def rule_R4(ctx, prj):
    ctx.rule("R4", "a hard-to-maintain / unmaintainable category above 0.001 % never shows as 0 %: each of the two rounded "
                   "terms has the form ceil(S - c) with S the category's share in percent and a constant 0 <= c <= 0.001 "
                   "(then the result is >= 1 exactly when S > c); forms that are known to map small positive shares to 0 "
                   "(round, int, floor, ceil(round(S, n)) with n < 3) are violations", floor=2)
    vals, fi = qpp_eval(prj)
    reg = _registry(list(vals))
    for nm, idx in (("hard_to_maintain", 2), ("unmaintainable", 3)):
        v = vals[idx]
        if isinstance(v, Lin) and len(v.terms) == 1 and v.const == 0 and list(v.terms.values()) == [1]:
            v = reg.by_name.get(next(iter(v.terms)), v)
        if isinstance(v, Lin) and len(v.terms) == 1 and v.const == 0 and list(v.terms.values()) == [-1]:
            # -floor(X) is ceil(-X) (the mirrored way of rounding up)
            t = reg.by_name.get(next(iter(v.terms)))
            if t is not None and _op(t) == "floor":
                try:
                    neg = Lin.of(t.fields["a"]).scale(-1).simplify()
                    v = Sym(f"ceil({neg!r})", op="ceil", a=neg, b=None, args=[neg])
                except Unknown:
                    pass
        v = _strip_clamp(v)
        key = f"quality_profile_percentage/{nm}/rounding"
        op = _op(v)
        if op == "ceil":
            a = v.fields["a"]
            if isinstance(a, Sym) and _op(a) == "round":
                nd = a.fields.get("b")
                nd = 0 if nd is None else nd
                if isinstance(nd, int) and nd >= 3:
                    ctx.ok("R4", fi.site(), f"{nm} = ceil(round(S, {nd})): shares above 0.0005 % survive the inner rounding")
                else:
                    ctx.viol("R4", key, fi.site(), f"{nm} = {v.name[:70]}: the inner round(…, {nd}) turns every share below {0.5 * 10 ** -(nd or 0):g} % into 0 "
                             f"before ceil is applied, so a category holding e.g. 0.004 % of the code shows as 0 % (and the verdict ignores it)")
                continue
            sh = _share_of(a)
            if sh is None:
                raise AnalysisError(f"{fi.disp}: percentage term {v.name[:80]} is not of a recognised form")
            tname, k, c = sh
            t = reg.by_name.get(tname)
            scale = None
            if t is not None and _op(t) == "Div":
                try:
                    num = Lin.of(t.fields["a"])
                    if len(num.terms) == 1 and next(iter(num.terms)) in ("p0", "p1", "p2", "p3") and num.const == 0:
                        scale = k * next(iter(num.terms.values()))     # which cell it is: R1
                except Unknown:
                    pass
            if scale == 100 and -0.001 - 1e-12 <= c <= 0:
                ctx.ok("R4", fi.site(), f"{nm} = ceil(S - {-c:g}) with S = share * 100")
            elif scale == 100 and c < 0:
                ctx.viol("R4", key, fi.site(), f"{nm} = {v.name[:70]} subtracts {-c:g} before rounding up: shares up to {-c:g} % show as 0 % (allowed at most 0.001)")
            else:
                raise AnalysisError(f"{fi.disp}: percentage term {v.name[:80]} is not of a recognised form (scale {scale}, offset {c})")
        elif op in ("round", "int", "floor", "trunc", "FloorDiv"):
            ctx.viol("R4", key, fi.site(), f"{nm} = {v.name[:70]} rounds small positive shares down to 0: a category above 0.001 % can show as 0 %")
        else:
            raise AnalysisError(f"{fi.disp}: percentage term {getattr(v, 'name', v)!r:.80} is not of a recognised form")


def rule_R5(ctx, prj):
    ctx.rule("R5", "range: the remainder 100 - a - b - c stays >= 0 only if the subtracted terms cannot overshoot 100 "
                   "together, i.e. if they are rounded down (or by a sum-preserving scheme); terms that are each rounded up "
                   "or to nearest independently can exceed 100 in sum and drive the shown easy/verbose percentage negative", floor=1)
    vals, fi = qpp_eval(prj)
    reg = _registry(list(vals))
    kinds = []
    for nm, idx in (("verbose", 1), ("hard_to_maintain", 2), ("unmaintainable", 3)):
        v = vals[idx]
        if isinstance(v, Lin) and len(v.terms) == 1 and v.const == 0:
            v = reg.by_name.get(next(iter(v.terms)), v)
        op = _op(v)
        if op in ("min", "max"):
            kinds.append("clamped")
        elif op == "ceil":
            kinds.append("up")
        elif op == "round":
            kinds.append("nearest")
        elif op in ("int", "floor", "trunc", "FloorDiv"):
            kinds.append("down")
        else:
            raise AnalysisError(f"{fi.disp}: rounding of {nm} not recognised: {getattr(v, 'name', v)!r:.60}")
    easy = vals[0]
    clamped = isinstance(easy, Sym) and _op(easy) == "max"
    if all(k == "down" for k in kinds) or clamped or "clamped" in kinds:
        ctx.ok("R5", fi.site(), f"remainder of terms rounded {kinds}: cannot become negative")
    else:
        ctx.viol("R5", "quality_profile_percentage/remainder-of-independently-rounded-terms/" + "-".join(kinds), fi.site(),
                 f"the first percentage is the remainder of three terms that are each rounded {set(kinds)} independently: their sum can reach 101 or 102, "
                 f"so the shown easy/verbose percentage can be negative (function lengths 31 and 62 alone give 34 % + 67 % and -1 % easy/verbose; "
                 f"lengths 16, 31, 61 give -1 % easy)")


def rule_R6(ctx, prj):
    """the summary's input: the profile of the measurements the report holds at the moment it is asked"""
    from ..report_eval import ReportLab
    ctx.rule("R6", "the summary describes the report as it is: Report.quality_profile() evaluated on a code base built through the repo's "
                   "constructors gives, per category, the sum of the lengths of the functions the code base holds at that moment - asked "
                   "once, again after a file's entry was replaced under the same path (the file was measured again), again after a file "
                   "was added, and through a second Report object on the same code base", floor=0)
    rfi = prj.func("codelimit.common.report.Report:Report.quality_profile")

    def cat(v):
        return 0 if v <= 15 else 1 if v <= 30 else 2 if v <= 60 else 3

    def want(files):
        p = [0, 0, 0, 0]
        for vals in files.values():
            for v in vals:
                p[cat(v)] += v
        return p
    try:
        lab = ReportLab(prj)
        cb = lab.new(lab.Codebase, "/root")
        files = {}

        def put(path, vals):
            ms = [lab.new(lab.Measurement, f"f{i}", lab.new(lab.Location, 1, 1), lab.new(lab.Location, 2, 1), v) for i, v in enumerate(vals)]
            lab.call(cb, "add_file", lab.new(lab.Entry, path, f"sum{len(files)}{sum(vals)}", "Python", sum(vals), ms))
            files[path] = list(vals)
        put("a.py", [10, 12])
        put("pkg/b.py", [20])
        rep = lab.new(lab.Report, cb)
        steps = []
        steps.append(("a report of two files with short functions", list(lab.call(rep, "quality_profile")), want(files)))
        put("a.py", [10, 100])
        steps.append(("the same report after a.py was measured again and its entry replaced (now a 100-line function)", list(lab.call(rep, "quality_profile")), want(files)))
        put("pkg/c.py", [45])
        steps.append(("the same report after pkg/c.py was added", list(lab.call(rep, "quality_profile")), want(files)))
        put("pkg/c.py", [16])
        rep2 = lab.new(lab.Report, cb)
        steps.append(("a second Report object on the same code base after pkg/c.py was replaced", list(lab.call(rep2, "quality_profile")), want(files)))
    except (Unknown, PyRaise, AnalysisError, TypeError) as e:
        ctx.info(f"R6: Report.quality_profile not evaluable ({type(e).__name__}: {e}); not judged")
        return
    for what, got, w in steps:
        if got != w:
            ctx.viol("R6", "quality_profile/stale", rfi.site(), f"{what}: quality_profile() gives {got}; the functions it holds give {w}: the summary (percentages and verdict) "
                     f"describes measurements the report no longer contains")
            return
    ctx.ok("R6", rfi.site(), f"quality_profile() follows the code base through {len(steps)} steps (entry replaced, file added, second report)")


def run(ctx, prj: Project):
    ctx.explanation = (
        "Decided: the sum-to-100 identity as a linear normal form over the three rounded terms together with the triples "
        "the three display sites show; the verdict as a folded decision table over (unmaintainable, hard-to-maintain) for "
        "both renderers with sibling agreement; zero guards on every division by the profile total. NOT decided: that each "
        "percentage lies in 0..100, is within two points of the true share, or is non-zero for a non-negligible category - "
        "numeric facts about ceil/rounding over all profiles (the known negative 'easy' percentage for lengths 16, 31, 61 is "
        "therefore outside this family's reach and is neither fixed nor listed as a finding by this machinery).")
    ctx.not_decided = ["within two points of the true share (numeric accuracy of the rounding scheme)"]
    ctx.trust("CPython ast", "integer comparison semantics")
    rule_R1(ctx, prj)
    rule_R2(ctx, prj)
    rule_R3(ctx, prj)
    rule_R4(ctx, prj)
    rule_R5(ctx, prj)
    rule_R6(ctx, prj)
    from .c06 import rule_no_state_left
    rule_no_state_left(ctx, prj, "R7", ["codelimit.common.report.format_text:print_summary", "codelimit.common.report.format_markdown:print_summary",
                                        "codelimit.common.report.Report:Report.quality_profile_percentage"],
                       "the summary renderers (text and Markdown) and the percentages")
