"""C19 - Summary percentages and verdict are sane (identity, decision table, zero guard; rounding not decided)."""
from __future__ import annotations

import ast
import copy

from ..core import (AnalysisError, FuncInfo, Project, attr_chain, const_int, const_str, enclosing, expand, guards_of,
                    local_defs, term, unparse)
from ..intdec import Specializer

QPP = "codelimit.common.report.Report:Report.quality_profile_percentage"
CATS = ("easy", "verbose", "hard_to_maintain", "unmaintainable")


def linear(e, names) -> dict | None:
    """linear normal form {name: coeff, '1': const} of an expression over `names`, or None"""
    c = const_int(e)
    if c is not None:
        return {"1": c}
    if isinstance(e, ast.Name) and e.id in names:
        return {e.id: 1}
    if isinstance(e, ast.BinOp) and isinstance(e.op, (ast.Add, ast.Sub)):
        a, b = linear(e.left, names), linear(e.right, names)
        if a is None or b is None:
            return None
        out = dict(a)
        for k, v in b.items():
            out[k] = out.get(k, 0) + (v if isinstance(e.op, ast.Add) else -v)
        return {k: v for k, v in out.items() if v != 0}
    if isinstance(e, ast.UnaryOp) and isinstance(e.op, ast.USub):
        a = linear(e.operand, names)
        return None if a is None else {k: -v for k, v in a.items()}
    return None


def rule_R1(ctx, prj):
    ctx.rule("R1", "the displayed percentages (easy+verbose, hard-to-maintain, unmaintainable) sum to 100 identically: easy "
                   "is defined as the linear expression 100 - unmaintainable - hard_to_maintain - verbose of the three "
                   "rounded terms, and each display site shows exactly that triple", floor=4)
    fi = prj.func(QPP)
    rets = [r for r in fi.walk() if isinstance(r, ast.Return) and isinstance(r.value, ast.Tuple)]
    if not rets or len(rets[0].value.elts) != 4 or not all(isinstance(x, ast.Name) for x in rets[0].value.elts):
        raise AnalysisError("quality_profile_percentage does not return a 4-tuple of local names")
    names = [x.id for x in rets[0].value.elts]     # easy, verbose, hard, unm
    easy, rest = names[0], names[1:]
    defs = [v for v, _ in local_defs(fi, easy) if v is not None]
    if len(defs) != 1:
        raise AnalysisError("quality_profile_percentage: `easy` does not have a single definition")
    lin = linear(defs[0], set(rest))
    want = {"1": 100, **{r: -1 for r in rest}}
    if lin == want:
        ctx.ok("R1", fi.site(defs[0]), f"{easy} = 100 - {' - '.join(rest)}: the four values sum to 100 identically")
    elif lin is None:
        ctx.viol("R1", "quality_profile_percentage/easy", fi.site(defs[0]),
                 f"{easy} = {unparse(defs[0])} is not the linear remainder 100 - {' - '.join(rest)}: when the three rounded-up "
                 f"percentages exceed 100 (e.g. lengths 16, 31, 61) the displayed percentages no longer sum to 100")
    else:
        ctx.viol("R1", "quality_profile_percentage/easy", fi.site(defs[0]), f"{easy} = {unparse(defs[0])} has linear form {lin}; required {want}")
    # the other three are rounded shares of their own profile cell
    cell = {rest[0]: 1, rest[1]: 2, rest[2]: 3}
    for nm, idx in cell.items():
        ds = [v for v, _ in local_defs(fi, nm) if v is not None]
        t = unparse(ds[0]) if ds else ""
        subs = [s for s in ast.walk(ds[0]) if isinstance(s, ast.Subscript)] if ds else []
        idxs = {const_int(s.slice) for s in subs}
        if idxs == {idx}:
            ctx.ok("R1", fi.site(ds[0]), f"{nm} is computed from profile[{idx}]")
        else:
            ctx.viol("R1", f"quality_profile_percentage/{nm}", fi.site(ds[0]) if ds else fi.site(), f"{nm} is computed from profile cells {sorted(x for x in idxs if x is not None)}; required [{idx}]")
    # display sites
    sites = [("codelimit.common.SummaryTable:SummaryTable.__init__", 3), ("codelimit.common.report.format_markdown:print_summary", 3)]
    for q, n in sites:
        f = prj.func(q)
        tup = None
        for node in f.walk():
            if isinstance(node, ast.Assign) and isinstance(node.targets[0], ast.Tuple) and "quality_profile_percentage" in unparse(node.value):
                tup = [x.id for x in node.targets[0].elts]
        if tup is None or len(tup) != 4:
            raise AnalysisError(f"{f.disp}: unpacking of quality_profile_percentage() not found")
        shown = []
        for node in f.walk():
            if isinstance(node, ast.JoinedStr):
                vals = node.values
                for i, v in enumerate(vals):
                    if isinstance(v, ast.FormattedValue) and i + 1 < len(vals) and isinstance(vals[i + 1], ast.Constant) and str(vals[i + 1].value).startswith("%"):
                        shown.append(v.value)
        # the table line(s): take the first three percentage placeholders (the verdict messages repeat one of them)
        first3 = shown[:3]
        total = {}
        ok = len(first3) == 3
        for e in first3:
            l = linear(e, set(tup))
            if l is None:
                ok = False
                break
            for k, v in l.items():
                total[k] = total.get(k, 0) + v
        if ok and total == {t: 1 for t in tup}:
            ctx.ok("R1", f.site(), f"{f.local}: shows {[unparse(e) for e in first3]} (each of the four values exactly once)")
        else:
            ctx.viol("R1", f"{f.local}/displayed-triple", f.site(), f"the percentages shown are {[unparse(e) for e in first3]}: they do not cover easy, verbose, hard-to-maintain and unmaintainable exactly once (sum is not 100)")


def rule_R2(ctx, prj):
    ctx.rule("R2", "both print_summary functions choose the verdict by the same table: unmaintainable >= 1 -> refactoring "
                   "necessary (shows the unmaintainable percentage); else hard_to_maintain >= 21 -> refactoring necessary "
                   "(shows the hard-to-maintain percentage); else no refactoring necessary (shows easy + verbose) - folded "
                   "for 8 (unmaintainable, hard_to_maintain) pairs around the boundaries", floor=8)
    samples = [(0, 0), (0, 19), (0, 20), (0, 21), (0, 57), (1, 0), (1, 21), (3, 57)]
    tables = {}
    for q in ("codelimit.common.report.format_text:print_summary", "codelimit.common.report.format_markdown:print_summary"):
        f = prj.func(q)
        tup = None
        for node in f.walk():
            if isinstance(node, ast.Assign) and isinstance(node.targets[0], ast.Tuple) and "quality_profile_percentage" in unparse(node.value):
                tup = [x.id for x in node.targets[0].elts]
        if tup is None:
            raise AnalysisError(f"{f.disp}: unpacking of quality_profile_percentage() not found")
        hard_n, unm_n = tup[2], tup[3]
        table = {}
        bad = None
        for unm, hard in samples:
            def val(n, unm=unm, hard=hard):
                if isinstance(n, ast.Name) and isinstance(n.ctx, ast.Load):
                    if n.id == unm_n:
                        return unm
                    if n.id == hard_n:
                        return hard
                return None
            sp = Specializer(None, valuation=val)
            tree = sp.visit(copy.deepcopy(f.node))
            # the verdict message: the last print whose text mentions 'refactoring'
            label = None
            for st in tree.body:
                for c in ast.walk(st):
                    if isinstance(c, ast.Call) and isinstance(c.func, ast.Attribute) and c.func.attr == "print" and c.args and "refactoring" in unparse(c.args[0]):
                        if isinstance(st, ast.If):
                            raise AnalysisError(f"{f.disp}: the verdict depends on something besides the two percentages: {unparse(st.test)[:60]}")
                        txt = unparse(c.args[0])
                        necessary = "no refactoring" not in txt
                        fv = [x for x in ast.walk(c.args[0]) if isinstance(x, ast.FormattedValue)]
                        shown = None
                        if fv:
                            v = fv[0].value
                            if isinstance(v, ast.Constant):
                                shown = "unmaintainable" if (v.value == unm and unm != hard) else "hard_to_maintain" if v.value == hard and unm != hard else "?"
                            else:
                                shown = unparse(v)
                        label = (necessary, shown)
            want = (True, "unmaintainable") if unm >= 1 else (True, "hard_to_maintain") if hard >= 21 else (False, f"{tup[0]} + {tup[1]}")
            table[(unm, hard)] = label
            ctx.obligations += 1
            if label is None or label[0] != want[0] or label[1] not in (want[1], "?"):
                ctx.bad_instance("R2", f.site(), f"unm={unm} hard={hard} -> {label}")
            if label is None:
                bad = bad or ((unm, hard), "no verdict is printed", want)
            elif label[0] != want[0]:
                bad = bad or ((unm, hard), f"declares refactoring {'necessary' if label[0] else 'not necessary'}", want)
            elif label[1] not in (want[1], "?"):
                bad = bad or ((unm, hard), f"the message shows the percentage `{label[1]}`", want)
            else:
                ctx.discharged += 1
                ctx.instances.setdefault("R2", []).append(dict(site=f.site(), what=f"{f.module.name.split('.')[-1]}.print_summary unm={unm} hard={hard} -> {label}", verdict="ok"))
        tables[q] = table
        key = f"{f.module.name.split('.')[-1]}.print_summary"
        if bad:
            (unm, hard), got, want = bad
            ctx.viol("R2", key, f.site(), f"with unmaintainable={unm} %, hard-to-maintain={hard} %: {got}; required "
                     f"{'refactoring necessary' if want[0] else 'no refactoring necessary'} showing {want[1]} "
                     f"(necessary exactly when unmaintainable > 0 or hard-to-maintain > 20)")
        else:
            ctx.lines.append(f"OK rule=R2 site={f.site()} construct={key} rows={len(samples)}")
    a, b = list(tables.values())
    diff = [k for k in a if a[k] != b[k] and (a[k] is None or b[k] is None or a[k][0] != b[k][0])]
    if diff:
        ctx.viol("R2", "print_summary/renderers-disagree", prj.func("codelimit.common.report.format_text:print_summary").site(),
                 f"text and Markdown summaries give different verdicts for (unmaintainable, hard-to-maintain) = {diff}")


def rule_R3(ctx, prj):
    ctx.rule("R3", "every division by the profile total is dominated by `total > 0` (the all-zero profile shows 0 %)", floor=6)
    for q in (QPP, "codelimit.common.utils:render_quality_profile"):
        f = prj.func(q)
        n = 0
        for d in f.walk():
            if isinstance(d, ast.BinOp) and isinstance(d.op, (ast.Div, ast.FloorDiv, ast.Mod)):
                den = term(f, d.right)
                if "sum(" not in den and "total" not in unparse(d.right):
                    continue
                n += 1
                ok = False
                for g in guards_of(f, d):
                    t = g.test
                    if isinstance(t, ast.Compare) and len(t.ops) == 1 and unparse(t.left) == unparse(d.right):
                        c = const_int(t.comparators[0])
                        op = type(t.ops[0])
                        if g.polarity and ((op is ast.Gt and c == 0) or (op is ast.GtE and c == 1) or (op is ast.NotEq and c == 0)):
                            ok = True
                        if not g.polarity and ((op is ast.Eq and c == 0) or (op is ast.LtE and c == 0) or (op is ast.Lt and c == 1)):
                            ok = True
                    if unparse(t) == unparse(d.right) and g.polarity:
                        ok = True
                if ok:
                    ctx.ok("R3", f.site(d), f"{f.local}: {unparse(d)[:40]} guarded by {unparse(d.right)} > 0")
                else:
                    ctx.viol("R3", f"{f.local}/division-{n}", f.site(d), f"{unparse(d)[:50]} divides by the profile total without a dominating `> 0` test: ZeroDivisionError for a codebase without functions")
        if n == 0:
            raise AnalysisError(f"{f.disp}: no division by the profile total found")


def rule_R4(ctx, prj):
    ctx.rule("R4", "a hard-to-maintain / unmaintainable category above 0.001 % never shows as 0 %: each of the three rounded "
                   "terms has the form ceil(S - c) with S the category's share in percent and a constant 0 <= c <= 0.001 "
                   "(then the result is >= 1 exactly when S > c); forms that are known to map small positive shares to 0 "
                   "(round, int, floor, ceil(round(S, n)) with n < 3) are violations", floor=2)
    fi = prj.func(QPP)
    rets = [r for r in fi.walk() if isinstance(r, ast.Return) and isinstance(r.value, ast.Tuple)]
    names = [x.id for x in rets[0].value.elts][2:]      # hard-to-maintain, unmaintainable (the property's two categories)
    for nm in names:
        ds = [v for v, _ in local_defs(fi, nm) if v is not None]
        if not ds:
            raise AnalysisError(f"quality_profile_percentage: {nm} undefined")
        e = ds[0]
        if isinstance(e, ast.IfExp):       # ... if total > 0 else 0
            e = e.body
        key = f"quality_profile_percentage/{nm}/rounding"
        fn = attr_chain(e.func) if isinstance(e, ast.Call) else None
        if fn in ("ceil", "math.ceil") and len(e.args) == 1:
            a = e.args[0]
            if isinstance(a, ast.Call) and attr_chain(a.func) == "round":
                nd = const_int(a.args[1]) if len(a.args) > 1 else 0
                if nd is not None and nd >= 3:
                    ctx.ok("R4", fi.site(e), f"{nm} = ceil(round(S, {nd})): shares above 0.0005 % survive the inner rounding")
                else:
                    ctx.viol("R4", key, fi.site(e), f"{nm} = {unparse(e)[:70]}: the inner round(…, {nd}) turns every share below {0.5 * 10 ** -(nd or 0):g} % into 0 "
                             f"before ceil is applied, so a category holding e.g. 0.004 % of the code shows as 0 % (and the verdict ignores it)")
                continue
            c = 0.0
            if isinstance(a, ast.BinOp) and isinstance(a.op, ast.Sub) and isinstance(a.right, ast.Constant) and isinstance(a.right.value, (int, float)):
                c = float(a.right.value)
                a = a.left
            div = [x for x in ast.walk(a) if isinstance(x, ast.BinOp) and isinstance(x.op, ast.Div)]
            hundred = any(const_int(x) == 100 for x in ast.walk(a))
            if div and hundred and 0.0 <= c <= 0.001:
                ctx.ok("R4", fi.site(e), f"{nm} = ceil(S - {c:g}) with S = share * 100")
            elif div and hundred:
                ctx.viol("R4", key, fi.site(e), f"{nm} = {unparse(e)[:70]} subtracts {c:g} before rounding up: shares up to {c:g} % show as 0 % (allowed at most 0.001)")
            else:
                raise AnalysisError(f"{fi.site(e)}: percentage term {unparse(e)[:80]} is not of a recognised form")
        elif fn in ("round", "int", "floor", "math.floor", "trunc", "math.trunc"):
            ctx.viol("R4", key, fi.site(e), f"{nm} = {unparse(e)[:70]} rounds small positive shares down to 0: a category above 0.001 % can show as 0 %")
        else:
            raise AnalysisError(f"{fi.site(e)}: percentage term {unparse(e)[:80]} is not of a recognised form")


def rule_R5(ctx, prj):
    ctx.rule("R5", "range: the remainder 100 - a - b - c stays >= 0 only if the subtracted terms cannot overshoot 100 "
                   "together, i.e. if they are rounded down (or by a sum-preserving scheme); terms that are each rounded up "
                   "or to nearest independently can exceed 100 in sum and drive the shown easy/verbose percentage negative", floor=1)
    fi = prj.func(QPP)
    rets = [r for r in fi.walk() if isinstance(r, ast.Return) and isinstance(r.value, ast.Tuple)]
    names = [x.id for x in rets[0].value.elts]
    kinds = []
    for nm in names[1:]:
        ds = [v for v, _ in local_defs(fi, nm) if v is not None]
        e = ds[0].body if ds and isinstance(ds[0], ast.IfExp) else ds[0] if ds else None
        fn = attr_chain(e.func) if isinstance(e, ast.Call) else None
        if isinstance(e, ast.Call) and fn in ("min", "max"):
            kinds.append("clamped")
        elif fn in ("ceil", "math.ceil"):
            kinds.append("up")
        elif fn == "round":
            kinds.append("nearest")
        elif fn in ("int", "floor", "math.floor", "trunc", "math.trunc") or (isinstance(e, ast.BinOp) and isinstance(e.op, ast.FloorDiv)):
            kinds.append("down")
        else:
            raise AnalysisError(f"{fi.site()}: rounding of {nm} not recognised: {unparse(e)[:60] if e is not None else '?'}")
    easy_def = [v for v, _ in local_defs(fi, names[0]) if v is not None][0]
    clamped = isinstance(easy_def, ast.Call) and attr_chain(easy_def.func) in ("max",)
    if all(k == "down" for k in kinds) or clamped or "clamped" in kinds:
        ctx.ok("R5", fi.site(easy_def), f"remainder of terms rounded {kinds}: cannot become negative")
    else:
        ctx.viol("R5", "quality_profile_percentage/remainder-of-independently-rounded-terms/" + "-".join(kinds), fi.site(easy_def),
                 f"{names[0]} = {unparse(easy_def)} subtracts three terms that are each rounded {set(kinds)} independently: their sum can reach 101 or 102, "
                 f"so the shown easy/verbose percentage can be negative (function lengths 31 and 62 alone give 34 % + 67 % and -1 % easy/verbose; "
                 f"lengths 16, 31, 61 give -1 % easy)")


def run(ctx, prj: Project):
    ctx.explanation = (
        "Decided: the sum-to-100 identity as a linear normal form over the three rounded terms together with the triples "
        "the three display sites show; the verdict as a folded decision table over (unmaintainable, hard-to-maintain) for "
        "both renderers with sibling agreement; zero guards on every division by the profile total. NOT decided: that each "
        "percentage lies in 0..100, is within two points of the true share, or is non-zero for a non-negligible category - "
        "numeric facts about ceil/rounding over all profiles (the known negative 'easy' percentage for lengths 16, 31, 61 is "
        "therefore outside this family's reach and is neither fixed nor listed as a finding by this machinery).")
    ctx.not_decided = ["within two points of the true share (numeric accuracy of the rounding scheme)"]
    ctx.trust("CPython ast", "integer comparison semantics")
    rule_R1(ctx, prj)
    rule_R2(ctx, prj)
    rule_R3(ctx, prj)
    rule_R4(ctx, prj)
    rule_R5(ctx, prj)
