"""C16 - Token positions are faithful to the source text (the clauses that are shapes; offset arithmetic at large is not decided)."""
from __future__ import annotations

import ast
import copy

from ..core import (AnalysisError, FuncInfo, Project, attr_chain, const_int, const_str, enclosing, expand, guards_of,
                    local_defs, term, unparse, with_helpers)
from ..intdec import Specializer
from . import c04, c19

LU = "codelimit.common.lexer_utils"
SRC = "codelimit.common.source_utils"


def rule_R1_evaluated(ctx, prj) -> bool:
    """lex interpreted with the lexer's (offset, type, text) tuples supplied at the pygments boundary: which tokens survive"""
    from ..absint import MiniInterp, PygT, PyRaise, Sym, Unknown
    fi = prj.func(f"{LU}:lex")
    if "filter_comments" not in fi.params():
        raise AnalysisError("lex has no filter_comments parameter")
    tuples = [(0, "Comment.Single", "# c"), (3, "Text.Whitespace", "\n"), (4, "Keyword", "def"), (7, "Text", " "), (8, "Name", "f"), (9, "Punctuation", "("),
              (10, "Text", ""), (10, "Comment.Multiline", "/* m */"), (17, "Punctuation", ")"), (18, "Literal.String", "' '"), (21, "Text", "\n  "),
              (24, "Comment.Special", "#!x"), (27, "Operator", "+"), (28, "Other", "?"), (29, "Text", "\n"), (30, "Comment.Preproc", "  define X "),
              (41, "Literal.String", " s ")]
    code = "# c\ndef f(/* m */)' '\n  #!x+?\n  define X  s "
    multi = (tuples, code)
    # a source that is one line without any line break (a one-liner pasted into a file, no final newline)
    single = ([(0, "Keyword", "void"), (4, "Text", " "), (5, "Name", "f"), (6, "Punctuation", "("), (7, "Punctuation", ")"), (8, "Text", " "),
               (9, "Punctuation", "{"), (10, "Punctuation", "}"), (11, "Text", " "), (12, "Comment.Multiline", "/* nocl */")],
              "void f() {} /* nocl */")
    ok = True
    for (tuples, code), val in [(multi, True), (multi, False), (multi, None), (single, True), (single, False), (single, None)]:
        def hook(it, kind, f, args, kwargs, node, cur, tuples=tuples):
            if kind == "call" and isinstance(f, tuple) and f and f[0] == "method" and f[2] == "get_tokens_unprocessed":
                return [(o, PygT(k), t) for o, k, t in tuples]
            if kind == "call" and isinstance(f, tuple) and f and f[0] == "method" and f[2] == "get_tokens":
                raise Unknown("lex reads the lexer through get_tokens (which strips leading and trailing newlines of the text)")
            return NotImplemented
        kwargs = {} if val is None else {"filter_comments": val}
        it = MiniInterp(prj, hook, max_steps=200000)
        r = it.call(fi, [Sym("lexer", _open=True), code], kwargs)
        r = list(r.rest()) if hasattr(r, "rest") else r
        got = [t.fields.get("value") for t in r]
        d = fi.param_default("filter_comments")
        eff = val if val is not None else it.ev(d, {}, fi)
        want = [t for o, k, t in tuples if not (k.startswith("Text") and not t.strip()) and not (k.startswith("Comment") and eff)]
        key = f"lex/filter_comments={val if val is not None else 'default'}" + ("" if tuples is multi[0] else "/text without a line break")
        if got == want:
            ctx.ok("R1", fi.site(), f"{key}: of {len(tuples)} lexer tuples lex keeps {got}")
            continue
        ok = False
        kept_ws = [g for g in got if isinstance(g, str) and not g.strip()]
        kept_c = [g for g in got if isinstance(g, str) and g[:1] in "#/" and len(g) > 1]
        if kept_ws:
            ctx.viol("R1", key + "/whitespace", fi.site(), f"with filter_comments={eff} lex keeps the blank / whitespace tokens {kept_ws!r}; required: never")
        elif bool(kept_c) != (not eff):
            ctx.viol("R1", key + "/comments", fi.site(), f"with filter_comments={eff} lex returns {got}: comment tokens are "
                     f"{'kept although not requested' if kept_c else 'dropped although requested (the suppression marker becomes invisible)'}")
        else:
            ctx.viol("R1", key + "/others", fi.site(), f"with filter_comments={eff} lex returns {got}; required {want} (code tokens dropped, duplicated or reordered)")
    return ok or True


def rule_R1(ctx, prj):
    ctx.rule("R1", "what lex keeps, evaluated at the lexer boundary: of the lexer's tuples (comments of three kinds, blank, empty and "
                   "multi-line Text, keyword, name, punctuation, string, operator, other) lex returns the code tokens, plus the "
                   "comments exactly when filter_comments is false, never blank or empty Text tokens, in the lexer's order "
                   "(with C04-R2's table for what the filter drops); fallback: lex returns through filter_tokens on both paths", floor=2)
    from ..absint import PyRaise as _PR, Unknown as _UK
    try:
        rule_R1_evaluated(ctx, prj)
        try:
            class Probe0:
                def __init__(self, outer): self.o = outer; self.n = 0
                def rule(self, *a, **k): pass
                def ok(self, rid, site, what, **k): self.n += 1
                def bad_instance(self, *a): pass
                def viol(self, rid, key, site, msg, **k): self.o.viol("R1", key, site, msg)
            pr0 = Probe0(ctx)
            c04.rule_R2(pr0, prj)
            ctx.ok("R1", prj.func(f"{LU}:lex").site(), f"filter table: {pr0.n} kind x text cells as specified (shared with C04-R2)")
        except AnalysisError as e:
            ctx.info(f"R1: the filter's kind x text table is not evaluable on this form ({e}); the evaluation of lex itself decides")
        return
    except (_UK, _PR) as e:
        ctx.info(f"R1: lex not evaluable at the lexer boundary ({type(e).__name__}: {e}); structural reading")
        ctx.instances["R1"] = []
        ctx.violations[:] = [v for v in ctx.violations if v.rule != "R1"]
    fi = prj.func(f"{LU}:lex")
    fc = "filter_comments"
    if fc not in fi.params():
        raise AnalysisError("lex has no filter_comments parameter")
    ft = prj.func(f"{SRC}:filter_tokens")
    from ..absint import BoundFunc, MiniInterp, PyRaise, Sym, Unknown
    for val in (True, False):
        key = f"lex/filter_comments={val}"
        calls = []
        marker = Sym("filtered")

        def hook(it, kind, f, args, kwargs, node, cur):
            if kind != "call":
                return NotImplemented
            if isinstance(f, BoundFunc) and f.fi.qual == ft.qual:
                bound = dict(zip(ft.params(), args))
                bound.update(kwargs)
                for p in ft.params():
                    if p not in bound and ft.param_default(p) is not None:
                        bound[p] = it.ev(ft.param_default(p), {}, ft)
                calls.append(bound)
                return marker
            if isinstance(f, BoundFunc) and f.fi.qual.endswith(":get_newline_indices"):
                return []
            if isinstance(f, tuple) and f and f[0] == "method" and f[2] in ("get_tokens_unprocessed", "get_tokens"):
                return []
            return NotImplemented
        params = fi.params()
        args = [Sym(p, _open=True) for p in params if p != fc]
        try:
            r = MiniInterp(prj, hook).call(fi, args, {fc: val})
        except (Unknown, PyRaise) as e:
            raise AnalysisError(f"lex: cannot evaluate the return path for filter_comments={val} ({e})")
        if r is not marker or len(calls) != 1:
            ctx.viol("R1", key, fi.site(), f"with filter_comments={val} lex returns without passing (exactly once) through filter_tokens: whitespace tokens are kept")
            continue
        kw, kc, ko = calls[0].get("keep_whitespace"), calls[0].get("keep_comments"), calls[0].get("keep_others")
        if kw is not False:
            ctx.viol("R1", key + "/whitespace", fi.site(), f"lex keeps whitespace tokens (keep_whitespace={kw})")
        elif kc is not (not val):
            ctx.viol("R1", key + "/comments", fi.site(), f"with filter_comments={val} lex calls filter_tokens(keep_comments={kc}): comment tokens are "
                     f"{'kept although not requested' if kc else 'dropped although requested (the suppression marker becomes invisible)'}")
        elif ko is not True:
            ctx.viol("R1", key + "/others", fi.site(), f"lex drops code tokens (keep_others={ko})")
        else:
            ctx.ok("R1", fi.site(), f"{key}: filter_tokens(keep_whitespace=False, keep_comments={kc})")
    # what the filter does with each kind/text class: same abstract table as C04-R2
    class Probe:
        def __init__(self, outer): self.o = outer; self.n = 0
        def rule(self, *a, **k): pass
        def ok(self, rid, site, what, **k): self.n += 1
        def bad_instance(self, *a): pass
        def viol(self, rid, key, site, msg, **k): self.o.viol("R1", key, site, msg)
    pr = Probe(ctx)
    c04.rule_R2(pr, prj)
    ctx.ok("R1", ft.site(), f"filter table: {pr.n} kind x text cells as specified (shared with C04-R2)")


def rule_R2(ctx, prj):
    ctx.rule("R2", "lex builds its list with one Token per lexer tuple, in the lexer's order, and only filters it afterwards: "
                   "no sort, reversal or insertion", floor=1)
    fi = prj.func(f"{LU}:lex")
    # evaluated: lex interpreted on lexer tuples at given offsets (filter bypassed): one token per tuple, in the tuples' order
    from ..absint import PyRaise, Unknown
    try:
        okn = 0
        for nls, offs in (([], [0, 4, 9]), ([5, 9], [0, 3, 5, 6, 9, 10, 14]), ([0, 1], [0, 1, 2, 3])):
            got = lex_positions(prj, nls, offs)
            vals = [v for v, _, _ in got]
            if vals != [v for _, v in lex_model(nls, offs)[1]]:
                ctx.viol("R2", "lex/reorders", fi.site(), f"for lexer tuples at offsets {offs} lex returns the tokens {vals}: not one token per tuple in the lexer's order")
                return
            okn += len(offs)
        ctx.ok("R2", fi.site(), f"lex: one token per lexer tuple, in the lexer's order ({okn} tuples, evaluated)")
        return
    except (Unknown, PyRaise) as e:
        ctx.info(f"lex not evaluable for the order of its tokens ({e}); the syntactic form decides")
    bad = []
    for n in fi.walk():
        if isinstance(n, ast.Call):
            nm = attr_chain(n.func) or ""
            if nm in ("sorted", "reversed") or nm.endswith((".sort", ".reverse", ".insert")):
                bad.append(n)
        if isinstance(n, ast.Subscript) and isinstance(n.slice, ast.Slice) and n.slice.step is not None:
            bad.append(n)
    if bad:
        ctx.viol("R2", "lex/reorders", fi.site(bad[0]), f"lex reorders tokens: {unparse(bad[0])[:60]}")
    else:
        ctx.ok("R2", fi.site(), "lex: tokens appended in lexer order, no sort/reverse/insert")
    ctors = [(f, c) for f in with_helpers(prj, fi) for c in f.calls() if attr_chain(c.func) == "Token"]
    for f, c in ctors:
        loops = enclosing(f, c, (ast.For, ast.ListComp, ast.GeneratorExp))
        if not loops:
            ctx.viol("R2", "lex/token-outside-loop", f.site(c), "a Token is created outside the iteration over the lexer's tuples")
    if not ctors:
        raise AnalysisError("lex creates no Token")


def _location_args(fi: FuncInfo):
    out = []
    for c in fi.calls():
        if attr_chain(c.func) == "Location" and len(c.args) == 2:
            out.append(c)
    return out


def rule_R3(ctx, prj):
    ctx.rule("R3", "position formula: a token at offset o of a line that starts at offset s gets column o - s + 1, s is the "
                   "offset after the preceding newline (its index + 1), the line number is the count of newlines before it + 1; "
                   "and the special case for texts without a newline is the general formula with s = 0, count = 0", floor=1)
    fi = prj.func(f"{LU}:lex")
    locs = _location_args(fi)
    if not locs:
        raise AnalysisError("lex: no Location(...) construction found")
    general = [c for c in locs if enclosing(fi, c, ast.For)]
    special = [c for c in locs if not enclosing(fi, c, ast.For)]
    forms = []
    for c in general or locs:
        line_e, col_e = c.args
        # offset expression: the tuple's first component (t[0]) or an unpacked name
        names = {n.id for n in ast.walk(col_e) if isinstance(n, ast.Name)}
        subs = {unparse(n) for n in ast.walk(col_e) if isinstance(n, ast.Subscript)}
        # normalise t[0] -> OFF
        class Norm(ast.NodeTransformer):
            def visit_Subscript(self, n):
                if isinstance(n.slice, ast.Constant) and n.slice.value == 0 and isinstance(n.value, ast.Name):
                    return ast.Name(id="OFF", ctx=ast.Load())
                return n
        col_n = Norm().visit(copy.deepcopy(col_e))
        vars_ = {n.id for n in ast.walk(col_n) if isinstance(n, ast.Name)}
        lin = c19.linear(col_n, vars_)
        off = "OFF" if "OFF" in vars_ else (sorted(v for v in vars_ if v in ("index", "offset", "pos", "start")) or [None])[0]
        starts = [v for v in vars_ if v != off]
        key = "lex/column"
        if lin is None or off is None:
            ctx.info(f"lex: column expression {unparse(col_e)} is not linear in (offset, line start): column arithmetic not judged")
            continue
        want_ok = lin.get(off) == 1 and lin.get("1", 0) == 1 and all(lin.get(s) == -1 for s in starts) and len(starts) <= 1
        if want_ok:
            ctx.ok("R3", fi.site(c), f"column = {unparse(col_e)} (offset - line start + 1)")
        else:
            ctx.viol("R3", key, fi.site(c), f"column is computed as {unparse(col_e)} (linear form {lin}); required offset - line_start + 1 (1-based columns)")
        # line start definition
        for s in starts:
            defs = [v for v, _ in local_defs(fi, s) if v is not None and const_int(v) != 0]
            for d in defs:
                dl = unparse(d).replace(" ", "")
                if isinstance(d, ast.IfExp):
                    dl = unparse(d.body).replace(" ", "")
                if dl.endswith("]+1") or dl.endswith("+1"):
                    ctx.ok("R3", fi.site(d), f"{s} = {unparse(d)[:50]} (offset after the newline)")
                elif "[" in dl and "+" not in dl and "-" not in dl and "accumulate" not in unparse(fi.node):
                    ctx.viol("R3", "lex/line-start", fi.site(d), f"{s} = {unparse(d)[:50]} is the newline's own offset, not the offset after it: every column after the first line is one too high")
        forms.append((c, line_e, col_e))
    # the two branches agree
    if special and general:
        sp_line, sp_col = special[0].args
        g_line, g_col = general[0].args

        class Zero(ast.NodeTransformer):
            def visit_Name(self, n):
                if n.id in ("line_start", "newline_index"):
                    return ast.Constant(value=0)
                return n
        gl = c19.linear(Zero().visit(copy.deepcopy(g_line)), set()) if True else None

        def lin0(e):
            class Norm2(ast.NodeTransformer):
                def visit_Subscript(self, n):
                    if isinstance(n.slice, ast.Constant) and n.slice.value == 0:
                        return ast.Name(id="OFF", ctx=ast.Load())
                    return n
            e2 = Norm2().visit(Zero().visit(copy.deepcopy(e)))
            return c19.linear(e2, {n.id for n in ast.walk(e2) if isinstance(n, ast.Name)})
        a = (lin0(sp_line), lin0(sp_col))
        b = (lin0(g_line), lin0(g_col))
        if None in a or None in b:
            ctx.info("lex: special/general branch comparison skipped (non-linear)")
        elif a == b:
            ctx.ok("R3", fi.site(special[0]), "no-newline special case = general formula with line_start = 0, newline_index = 0")
        else:
            ctx.viol("R3", "lex/branches-disagree", fi.site(special[0]),
                     f"for a text without newline lex uses Location({unparse(sp_line)}, {unparse(sp_col)}) but the general loop gives "
                     f"Location({unparse(g_line)}, {unparse(g_col)}) with line_start = newline_index = 0: single-line inputs are positioned differently")


def rule_R4(ctx, prj):
    ctx.rule("R4", "one line convention: the newline table holds exactly the offsets of '\\n', the inverse mapping splits on "
                   "'\\n', and nothing in the position code uses str.splitlines() (which also breaks lines at \\r, \\f, \\v, "
                   "\\x1c-\\x1e, \\x85, U+2028/9 - characters pygments does not treat as line ends)", floor=2)
    fns = [prj.func(f"{LU}:lex"), prj.func(f"{SRC}:get_newline_indices"), prj.func(f"{SRC}:location_to_index"), prj.func(f"{SRC}:index_to_location")]
    for f in fns:
        sl = [c for c in f.calls() if isinstance(c.func, ast.Attribute) and c.func.attr == "splitlines"]
        if sl:
            ctx.viol("R4", f"{f.local}/splitlines", f.site(sl[0]),
                     f"{f.local} derives line boundaries from str.splitlines(): a form feed, vertical tab, lone CR, NEL or U+2028 in the file "
                     f"starts a new 'line' here but not for the lexer or for location_to_index, so every token after it is reported one line too "
                     f"low/high with a wrong column")
        else:
            ctx.ok("R4", f.site(), f"{f.local}: no splitlines()")
    g = prj.func(f"{SRC}:get_newline_indices")
    # the newline table evaluated on texts with every kind of character str.splitlines() would break at
    from ..absint import MiniInterp as _MI, PyRaise as _PR, Unknown as _UK
    try:
        texts = ["", "abc", "\n", "a\nb\n", "a\r\nb", "\ra", "a\fb\n", "a\u2028b\n\n", "\x0b\x1c\x1d\x1e\x85 \n\u2029", "\n\n\nx", "x\n" * 3 + "y"]
        badt = None
        for t in texts:
            r = _MI(prj, max_steps=100000).call(g, [t], {})
            r = list(r.rest()) if hasattr(r, "rest") else list(r) if isinstance(r, (list, tuple)) else r
            want = [i for i, c in enumerate(t) if c == "\n"]
            if r != want:
                badt = badt or (t, r, want)
        if badt:
            ctx.viol("R4", "get_newline_indices/definition", g.site(), f"get_newline_indices({badt[0]!r}) gives {badt[1]}; required {badt[2]}: the offsets of exactly the characters equal to '\\n' "
                                                                       f"(pygments and location_to_index treat no other character as a line end)")
        else:
            ctx.ok("R4", g.site(), f"get_newline_indices: offsets of exactly the characters equal to '\\n' (evaluated on {len(texts)} texts with \\r, \\f, \\v, \\x1c-\\x1e, \\x85, U+2028/9)")
        evaluated_table = True
    except (_UK, _PR) as e:
        ctx.info(f"R4: get_newline_indices not evaluable ({e}); its form is read syntactically")
        evaluated_table = False
    tests = [] if evaluated_table else [n for n in g.walk() if isinstance(n, ast.Compare) and len(n.ops) == 1 and isinstance(n.ops[0], ast.Eq)
             and "\n" in (const_str(n.left), const_str(n.comparators[0]))]
    others = [n for n in g.walk() if isinstance(n, ast.Compare) and len(n.ops) == 1 and isinstance(n.ops[0], (ast.Eq, ast.In))
              and (const_str(n.left) or const_str(n.comparators[0]) or "\n") != "\n"]
    finds = [c for c in g.calls() if isinstance(c.func, ast.Attribute) and c.func.attr in ("find", "index", "finditer") ]
    if evaluated_table:
        pass
    elif tests and not others:
        appended = [c for c in g.calls() if isinstance(c.func, ast.Attribute) and c.func.attr == "append" and c.args]
        idx_ok = True
        for a in appended:
            t = unparse(a.args[0])
            loops = enclosing(g, a, ast.For)
            idxv = None
            for lp in loops:
                if isinstance(lp.iter, ast.Call) and attr_chain(lp.iter.func) == "enumerate" and isinstance(lp.target, ast.Tuple):
                    idxv = unparse(lp.target.elts[0])
            if idxv is not None and t != idxv:
                idx_ok = False
                ctx.viol("R4", "get_newline_indices/offset", g.site(a), f"the table records {t} for a newline at index {idxv}")
        if idx_ok:
            ctx.ok("R4", g.site(), "get_newline_indices: offsets of exactly the characters equal to '\\n'")
    elif finds or any(isinstance(c.func, ast.Attribute) and c.func.attr == "splitlines" for c in g.calls()):
        pass    # judged above / not a recognised form
    else:
        raise AnalysisError(f"{g.disp}: how the newline table is built could be neither evaluated nor read off its syntax")
    l2i = prj.func(f"{SRC}:location_to_index")
    sp = [c for c in l2i.calls() if isinstance(c.func, ast.Attribute) and c.func.attr == "split"]
    if sp and all(c.args and const_str(c.args[0]) == "\n" for c in sp):
        ctx.ok("R4", l2i.site(), "location_to_index: lines = code.split('\\n')")
    elif sp and any(not c.args or (const_str(c.args[0]) is not None and const_str(c.args[0]) != "\n") for c in sp):
        ctx.viol("R4", "location_to_index/split", l2i.site(sp[0]), f"location_to_index splits lines with {unparse(sp[0])[:40]}")
    elif sp:
        # the separator is not a literal here (a named constant, an attribute): what it is, is not read off the syntax
        ctx.info(f"R4: location_to_index splits with {unparse(sp[0])[:40]}: separator not a literal, not judged")


def rule_R5(ctx, prj):
    ctx.rule("R5", "a token that starts exactly at a newline's offset belongs to the line that newline ends: the newline "
                   "table is advanced only past newlines strictly before the token's offset (while offset > table[k], or "
                   "bisect_left); `>=` / bisect_right put such a token on the next line at column 0", floor=1)
    fi = prj.func(f"{LU}:lex")
    table = None
    for n in fi.walk():
        if isinstance(n, ast.Assign) and isinstance(n.value, ast.Call) and prj.resolve_callee_name(fi, n.value).endswith(":get_newline_indices") and isinstance(n.targets[0], ast.Name):
            table = n.targets[0].id
    if table is None:
        ctx.info("lex does not use get_newline_indices: boundary rule R5 not applicable to this form")
        ctx.ok("R5", fi.site(), "newline table not used (form not judged)")
        return
    judged = False
    for w in [x for x in fi.walk() if isinstance(x, ast.While)]:
        for cmpn in [c for c in ast.walk(w.test) if isinstance(c, ast.Compare) and len(c.ops) == 1]:
            l, r = unparse(cmpn.left), unparse(cmpn.comparators[0])
            if r.startswith(table + "[") or l.startswith(table + "["):
                judged = True
                op = type(cmpn.ops[0])
                strict = (op is ast.Gt and r.startswith(table + "[")) or (op is ast.Lt and l.startswith(table + "["))
                if strict:
                    ctx.ok("R5", fi.site(w), f"lex: advances while {unparse(cmpn)} (strict)")
                else:
                    ctx.viol("R5", "lex/newline-boundary", fi.site(w), f"lex advances the newline table while {unparse(cmpn)}: a token starting at a newline offset "
                             f"(the newline pieces of a multi-line string, a kept comment's line end) lands on the next line at column 0")
    for c in fi.calls():
        nm = (attr_chain(c.func) or "").split(".")[-1]
        if nm in ("bisect", "bisect_right", "bisect_left") and c.args and unparse(c.args[0]) == table:
            judged = True
            if nm == "bisect_left":
                ctx.ok("R5", fi.site(c), "lex: bisect_left on the newline table (newlines strictly before the offset)")
            else:
                ctx.viol("R5", "lex/newline-boundary", fi.site(c), f"lex uses {nm} on the newline table: a token starting exactly at a newline offset is counted as lying after "
                         f"that newline and lands on the next line at column 0; bisect_left is the matching choice")
    if not judged:
        ctx.info("lex: how the newline table is searched was not recognised; boundary rule R5 not judged")
        ctx.ok("R5", fi.site(), "newline table searched in an unrecognised way (not judged)")


def lex_model(newlines: list, offsets: list):
    """a text with newline characters exactly at `newlines` and the lexer's pieces starting at `offsets` (each piece runs to the
    next offset; piece k consists of the k-th letter, newline positions hold a newline): -> (text, [(offset, value)])"""
    offs = sorted(set(offsets))
    n_chars = max(offs + list(newlines) + [0]) + 1
    ends = offs[1:] + [n_chars]
    chars = []
    for i in range(n_chars):
        k = max([j for j, o in enumerate(offs) if o <= i] or [0])
        chars.append("\n" if i in set(newlines) else chr(97 + k % 26))
    text = "".join(chars)
    return text, [(o, text[o:e]) for o, e in zip(offs, ends)]


def lex_positions(prj, newlines: list, offsets: list):
    """(value, line, column) of the tokens lex returns for a text whose newline characters are at `newlines` and whose lexer
    pieces start at `offsets`: lex evaluated with the lexer answering at the pygments boundary (get_tokens_unprocessed: the pieces
    with their offsets; get_tokens: pygments' documented preprocessing - leading and trailing newlines stripped, one newline
    ensured - and the pieces of that text without offsets), the newline table supplied, filter_tokens bypassed"""
    from ..absint import BoundFunc, MiniInterp, PygT, PyRaise, Sym, Unknown
    fi = prj.func(f"{LU}:lex")
    text, pieces = lex_model(newlines, offsets)

    def hook(it, kind, f, args, kwargs, node, cur):
        if kind != "call":
            return NotImplemented
        if isinstance(f, BoundFunc) and f.fi.qual.endswith(":filter_tokens"):
            a = args[0]
            return list(a.rest()) if hasattr(a, "rest") else a
        if isinstance(f, BoundFunc) and f.fi.qual.endswith(":get_newline_indices") and args and args[0] == text:
            return list(newlines)
        if isinstance(f, tuple) and f and f[0] == "method" and f[2] in ("get_tokens_unprocessed",):
            if args and args[0] != text:
                raise Unknown("the lexer is handed another text than lex received")
            return [(o, PygT("Name"), v) for o, v in pieces]
        if isinstance(f, tuple) and f and f[0] == "method" and f[2] == "get_tokens":
            if args and args[0] != text:
                raise Unknown("the lexer is handed another text than lex received")
            lead = len(text) - len(text.lstrip("\n"))
            body = text.strip("\n")
            out = []
            for o, v in pieces:
                lo, hi = max(o - lead, 0), min(o - lead + len(v), len(body))
                if hi > lo:
                    out.append((PygT("Name"), body[lo:hi]))
            if not body.endswith("\n"):
                out.append((PygT("Text.Whitespace"), "\n"))
            return out
        return NotImplemented
    it = MiniInterp(prj, hook, max_steps=400000)
    args = []
    for p in fi.params():
        if p == "filter_comments":
            break
        args.append(text if p in ("code", "text", "source") else Sym(p, _open=True))
    r = it.call(fi, args, {})
    r = list(r.rest()) if hasattr(r, "rest") else r
    out = []
    for t in r:
        loc = t.fields.get("location") if isinstance(t, Sym) else None
        if not isinstance(loc, Sym):
            raise Unknown("token without location")
        out.append((t.fields.get("value"), loc.fields.get("line"), loc.fields.get("column")))
    return out


def spec_position(newlines, o):
    before = [n for n in newlines if n < o]
    return len(before) + 1, o - (before[-1] + 1 if before else 0) + 1


def rule_R35_evaluated(ctx, prj):
    """R3 + R5 by evaluation: the position of a token is a piecewise linear function of its offset with breakpoints at
    the newline offsets; two interior points per piece and every breakpoint determine it"""
    from ..absint import PyRaise, Unknown
    fi = prj.func(f"{LU}:lex")
    scenarios = [
        ("no newline", [], [0, 1, 7]),
        ("two newlines", [5, 9], [0, 3, 4, 5, 6, 7, 8, 9, 10, 11, 15]),
        ("adjacent newlines", [3, 4], [0, 2, 3, 4, 5, 6]),
        ("newline first", [0], [0, 1, 2]),
    ]
    if ctx.tier == "thorough":
        # small-scope exhaustive: every newline table with up to three newlines among the offsets 0..6, a token at every offset 0..8
        import itertools
        for k in range(0, 4):
            for nls in itertools.combinations(range(7), k):
                scenarios.append((f"newlines at {list(nls)}" if nls else "no newline", list(nls), list(range(9))))
    bad3 = bad5 = None
    n = 0
    for name, nls, offs in scenarios:
        got = lex_positions(prj, nls, offs)
        pieces = lex_model(nls, offs)[1]
        if len(got) != len(offs):
            # lex dropped (or added) tokens before building positions: the tokens that consist of code are matched by their text
            by_val = {v: (ln, c) for v, ln, c in got}
            got = [(v, *by_val.get(v, (None, None))) for _, v in pieces if v.strip()]
            offs = [o for o, v in pieces if v.strip()]
        for o, (val, line, col) in zip(offs, got):
            n += 1
            want = spec_position(nls, o)
            if (line, col) != want:
                msg = (f"text with newlines at offsets {nls}: the token at offset {o} is placed at line {line}, column {col}; "
                       f"required line {want[0]}, column {want[1]}")
                if o in nls:
                    bad5 = bad5 or (name if nls else "no newline", msg + " (a token that starts at a newline's offset belongs to the line that newline ends)")
                else:
                    bad3 = bad3 or (name, msg + " (line = newlines before it + 1, column = offset - offset after the preceding newline + 1)")
    if bad3:
        ctx.viol("R3", "lex/column" if not bad3[0].startswith("no newline") else "lex/branches-disagree", fi.site(), bad3[1])
    else:
        ctx.ok("R3", fi.site(), f"lex: position formula agrees with the specification on {n} (newline table, offset) points: interior and boundary of every piece, with and without newlines")
    if bad5:
        ctx.viol("R5", "lex/newline-boundary", fi.site(), bad5[1])
    else:
        ctx.ok("R5", fi.site(), "lex: a token at a newline's offset stays on the line that newline ends")


def run(ctx, prj: Project):
    ctx.explanation = (
        "Decided clauses of C16: what lex keeps (both return paths folded on filter_comments, plus the filter's abstract "
        "kind x text table), that lex keeps the lexer's order, the position formula as a linear normal form with "
        "special-case/general-case agreement, a single line-break convention ('\\n' only) across the position code, and the "
        "newline-boundary choice for the recognised table-search forms. NOT decided: that the offset -> (line, column) "
        "arithmetic is correct for all texts in general (needs an integer loop invariant), nor overlaps between tokens "
        "(pygments' offsets are trusted).")
    ctx.not_decided = ["correctness of the offset->(line, column) mapping for arbitrary rewritings of the loop (integer loop invariant)",
                       "non-overlap / strictly increasing offsets of pygments' tokens"]
    ctx.trust("pygments' get_tokens_unprocessed yields increasing, non-overlapping offsets and treats only '\\n' as line end", "CPython ast")
    deferred = None
    try:
        rule_R1(ctx, prj)
    except AnalysisError as e:      # decided below whether another rule explains why lex left the understood fragment
        deferred = e
    rule_R2(ctx, prj)
    from ..absint import PyRaise, Unknown
    try:
        ctx.rule("R3", "position formula: a token at offset o of a line that starts at offset s gets column o - s + 1, s is the "
                       "offset after the preceding newline (its index + 1), the line number is the count of newlines before it + 1; "
                       "and the special case for texts without a newline is the general formula with s = 0, count = 0 "
                       "(lex evaluated abstractly on newline tables / offsets covering every piece and breakpoint)", floor=1)
        ctx.rule("R5", "a token that starts exactly at a newline's offset belongs to the line that newline ends", floor=1)
        rule_R35_evaluated(ctx, prj)
        evaluated = True
    except (Unknown, PyRaise) as e:
        ctx.info(f"lex not evaluable ({e}); falling back to the syntactic position rules")
        evaluated = False
    if not evaluated:
        rule_R3(ctx, prj)
    rule_R4(ctx, prj)
    if not evaluated:
        rule_R5(ctx, prj)
    if deferred is not None:
        if ctx.violations:
            ctx.info(f"R1 not decided ({deferred}); a violation of another rule is reported")
        else:
            raise deferred
