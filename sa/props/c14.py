"""C14 - Search returns sound, ordered, disjoint, longest and complete matches (structural part)."""
from __future__ import annotations

import ast

from ..core import (AnalysisError, FuncInfo, Project, attr_chain, const_int, enclosing, expand, guards_of, unparse,
                    Guard)
from ..patterns import AToken, Interp, Pred, PredModel

GSM = "codelimit.common.gsm"


def _append_sites(fi: FuncInfo):
    """Calls X.append(p) whose receiver is the result collection (… .matches)."""
    out = []
    for c in fi.calls():
        if isinstance(c.func, ast.Attribute) and c.func.attr == "append" and len(c.args) == 1:
            recv = unparse(c.func.value)
            if recv.endswith("matches") or recv == "result":
                out.append(c)
    return sorted(out, key=lambda c: c.lineno)


def _flatten(test, pol: bool):
    """Literals (atom, polarity) that are all known to hold, and for a negated
    conjunction / plain disjunction the alternatives (only one is known)."""
    if isinstance(test, ast.UnaryOp) and isinstance(test.op, ast.Not):
        return _flatten(test.operand, not pol)
    if isinstance(test, ast.BoolOp):
        conj = isinstance(test.op, ast.And) == pol     # and/True or or/False: all hold
        parts = [_flatten(v, pol) for v in test.values]
        if conj:
            return ("all", [x for p in parts for x in ([p] if p[0] != "all" else p[1])])
        return ("any", parts)
    return ("lit", test, pol)


def _is_emptiness_of_matches(lit) -> bool:
    """literal says: the matches collection is empty"""
    if lit[0] != "lit":
        return False
    t, pol = lit[1], lit[2]
    txt = unparse(t)
    if (txt.endswith("matches")) and not pol:
        return True
    if isinstance(t, ast.Compare) and "len(" in txt and "matches" in txt:
        c = const_int(t.comparators[0]) if len(t.comparators) == 1 else None
        op = type(t.ops[0])
        if c == 0 and ((op is ast.Eq and pol) or (op in (ast.Gt, ast.NotEq) and not pol)):
            return True
        if c == 1 and ((op is ast.Lt and pol) or (op is ast.GtE and not pol)):
            return True
    return False


def _disjoint_lit(lit, var: str):
    """'exact' if the literal says var.start >= <matches>[-1].end, 'strict' if it
    says var.start > ...(drops adjacent matches), 'wrong' for other comparisons of
    these two quantities, None if unrelated."""
    if lit[0] != "lit":
        return None
    t, pol = lit[1], lit[2]
    if not (isinstance(t, ast.Compare) and len(t.ops) == 1):
        return None
    l, r = unparse(t.left), unparse(t.comparators[0])
    op = type(t.ops[0])
    flip = {ast.Lt: ast.Gt, ast.Gt: ast.Lt, ast.LtE: ast.GtE, ast.GtE: ast.LtE, ast.Eq: ast.Eq, ast.NotEq: ast.NotEq}
    neg = {ast.Lt: ast.GtE, ast.GtE: ast.Lt, ast.Gt: ast.LtE, ast.LtE: ast.Gt, ast.Eq: ast.NotEq, ast.NotEq: ast.Eq}

    def is_start(x):
        return x == f"{var}.start"

    def is_last_end(x):
        return x.endswith("[-1].end") or x == "<fresh-last-end>" or x == "<stale-last-end>"
    if is_last_end(l) and is_start(r):
        l, r, op = r, l, flip[op]
    if not (is_start(l) and is_last_end(r)):
        return None
    if not pol:
        op = neg[op]
    if "<stale-last-end>" in (l, r):
        return "stale"
    if op is ast.GtE:
        return "exact"
    if op is ast.Gt:
        return "strict"
    return "wrong"


def _resolve_last_end_names(fi: FuncInfo, site, test):
    """Replace local names that hold `<matches>[-1].end` by a marker that says whether the
    value is recomputed in the iteration that reports the match (fresh) or was taken
    before the loop that appends to the matches (stale)."""
    import copy
    from ..core import local_defs
    loops = enclosing(fi, site, (ast.For, ast.While))

    class R(ast.NodeTransformer):
        def visit_Name(self, n):
            defs = [(v, st) for v, st in local_defs(fi, n.id) if v is not None]
            if defs and all("[-1].end" in unparse(v) for v, st in defs):
                inner = loops[0] if loops else None
                fresh = inner is not None and all(any(st is x for x in ast.walk(inner)) for v, st in defs)
                return ast.Name(id="<fresh-last-end>" if fresh else "<stale-last-end>", ctx=ast.Load())
            return n
    return R().visit(copy.deepcopy(test))


def _guard_status(fi: FuncInfo, site, var: str) -> str:
    best = "missing"
    for g in guards_of(fi, site):
        f = _flatten(_resolve_last_end_names(fi, site, g.test), g.polarity)
        lits = [f] if f[0] == "lit" else f[1] if f[0] == "all" else None
        if lits is not None:
            for l in lits:
                if l[0] == "lit":
                    d = _disjoint_lit(l, var)
                    if d:
                        return d
                elif l[0] == "any":
                    alts = l[1]
                    ds = [_disjoint_lit(a, var) for a in alts]
                    if any(ds) and all(d or _is_emptiness_of_matches(a) for a, d in zip(alts, ds)):
                        return [d for d in ds if d][0]
        else:   # top-level disjunction
            alts = f[1]
            ds = [_disjoint_lit(a, var) for a in alts]
            if any(ds) and all(d or _is_emptiness_of_matches(a) for a, d in zip(alts, ds)):
                return [d for d in ds if d][0]
    return best


def rule_R1(ctx, prj, fi: FuncInfo, sites):
    ctx.rule("R1", "every place where find_all adds a match is dominated, in the same iteration, by the guard that the "
                   "attempt does not start before the end of the last reported match (start >= matches[-1].end, "
                   "vacuous while there is none) - including the loop that drains attempts alive at the end of input",
             floor=3)
    for i, c in enumerate(sites):
        var = unparse(c.args[0])
        st = _guard_status(fi, c, var)
        loop = enclosing(fi, c, ast.For)
        where = "end-of-input drain loop" if len(loop) == 1 else "main loop"
        key = f"find_all/append#{i}({where})"
        if st == "exact":
            ctx.ok("R1", fi.site(c), f"{key}: guarded by {var}.start >= matches[-1].end")
        elif st == "strict":
            ctx.viol("R1", key, fi.site(c), f"the guard requires {var}.start > matches[-1].end: a match that begins exactly where "
                     f"the previous one ended is dropped (ends are exclusive)")
        elif st == "stale":
            ctx.viol("R1", key, fi.site(c), f"the disjointness guard compares {var}.start with an end that was read before this loop started; "
                     f"matches reported inside the loop are not taken into account, so overlapping matches are reported")
        elif st == "wrong":
            ctx.viol("R1", key, fi.site(c), f"the comparison between {var}.start and the last match's end does not express disjointness")
        else:
            ctx.viol("R1", key, fi.site(c), f"{var} is added to the matches without the disjointness guard that the other "
                     f"site(s) apply: overlapping matches are reported when several attempts are alive here")


def rule_R2(ctx, prj, fi: FuncInfo, sites, structural=True):
    ctx.rule("R2", "a reported match's end is the exclusive end: the index of the first item not consumed (the enumerate "
                   "index in the main loop, len(sequence) after it), and get_headers uses it as such", floor=2)
    seq = fi.params()[1] if len(fi.params()) > 1 else "sequence"
    for i, c in enumerate(sites if structural else []):
        var = unparse(c.args[0])
        loops = enclosing(fi, c, ast.For)
        idx = None
        for lp in loops:
            if isinstance(lp.iter, ast.Call) and attr_chain(lp.iter.func) == "enumerate" and isinstance(lp.target, ast.Tuple):
                idx = unparse(lp.target.elts[0])
        # nearest assignment var.end = ... before the append in the same block
        blk = fi.parents[fi.parents[c]] if isinstance(fi.parents[c], ast.Expr) else None
        val = None
        if blk is not None:
            for fld in ("body", "orelse"):
                lst = getattr(blk, fld, None)
                if isinstance(lst, list) and fi.parents[c] in lst:
                    for st in lst[: lst.index(fi.parents[c])]:
                        if isinstance(st, ast.Assign) and unparse(st.targets[0]) == f"{var}.end":
                            val = st.value
        key = f"find_all/end#{i}"
        if val is None:
            raise AnalysisError(f"{fi.site(c)}: no assignment to {var}.end found before the match is reported")
        txt = unparse(val)
        good = [f"len({seq})"] if idx is None else [idx]
        good.append(f"{var}.start + len({var}.tokens)")
        if txt in good:
            ctx.ok("R2", fi.site(c), f"{key}: {var}.end = {txt} (exclusive)")
        elif any(txt in (f"{g} + 1", f"{g} - 1", f"1 + {g}") for g in good):
            ctx.viol("R2", key, fi.site(c), f"{var}.end = {txt}: off by one from the exclusive end {good[0]}")
        elif idx is None and txt == "idx" or (idx is not None and txt == f"len({seq})"):
            ctx.viol("R2", key, fi.site(c), f"{var}.end = {txt} is the wrong end for this site (expected {good[0]})")
        else:
            raise AnalysisError(f"{fi.site(c)}: {var}.end = {txt} is not a recognised form of the exclusive end")
    gh = prj.func("codelimit.common.scope.scope_utils:get_headers")
    uses = []
    for n in gh.walk():
        if isinstance(n, ast.Subscript) and isinstance(n.slice, ast.Slice) and n.slice.lower is not None and unparse(n.slice.lower).endswith(".end"):
            uses.append(("slice-from-end", n))
        if isinstance(n, ast.Call) and attr_chain(n.func) == "TokenRange" and len(n.args) == 2:
            uses.append(("range", n))
    for kind, n in uses:
        if kind == "slice-from-end":
            if n.slice.upper is None:
                ctx.ok("R2", gh.site(n), f"get_headers: follow-up is matched on {unparse(n)} (tokens from the exclusive end)")
            else:
                ctx.viol("R2", "get_headers/follow-slice", gh.site(n), f"follow-up slice {unparse(n)}")
        else:
            a, b = unparse(n.args[0]), unparse(n.args[1])
            if a.endswith(".start") and b.endswith(".end") and a.split(".")[0] == b.split(".")[0]:
                ctx.ok("R2", gh.site(n), f"get_headers: TokenRange({a}, {b})")
            else:
                ctx.viol("R2", "get_headers/token-range", gh.site(n), f"header range is TokenRange({a}, {b}); required (p.start, p.end) of the same match")
    if len(uses) < 1:
        raise AnalysisError("get_headers: no use of the match end found")
    # the follow-up variant: slices starting at end+1 / end-1
    for n in gh.walk():
        if isinstance(n, ast.Subscript) and isinstance(n.slice, ast.Slice) and n.slice.lower is not None:
            low = unparse(n.slice.lower)
            if ".end" in low and not low.endswith(".end"):
                ctx.viol("R2", "get_headers/follow-slice", gh.site(n), f"follow-up is matched from {low}, not from the exclusive end")


def headers_evaluated(prj):
    """-> [(with follow-up, [(name, start, end)], wanted)] of get_headers interpreted through the repo's engine; raises Unknown & co."""
    from ..absint import MiniInterp, PyRaise, Sym, Unknown, make_token
    gh = prj.func("codelimit.common.scope.scope_utils:get_headers")
    if True:
        it = MiniInterp(prj, max_steps=2_000_000, max_depth=80)
        toks = [("Name", "x"), ("Name", "f"), ("Punctuation", "("), ("Name", "a"), ("Punctuation", ")"), ("Punctuation", "{"),
                ("Name", "y"), ("Name", "g"), ("Punctuation", "("), ("Punctuation", ")"), ("Punctuation", ";"),
                ("Name", "h"), ("Punctuation", "("), ("Punctuation", ")")]
        tokens = [make_token(it, prj, k, v, 1, 2 * i + 1) for i, (k, v) in enumerate(toks)]
        P = "codelimit.common.token_matching.predicate."
        name = it.construct(prj.cls(P + "Name:Name"), [], {}, None, gh)
        bal = it.construct(prj.cls(P + "Balanced:Balanced"), ["(", ")"], {}, None, gh)
        plus = it.construct(prj.cls("codelimit.common.gsm.operator.OneOrMore:OneOrMore"), [bal], {}, None, gh)
        brace = it.construct(prj.cls(P + "Symbol:Symbol"), ["{"], {}, None, gh)
        res = []
        # a follow-up that spans many tokens (a long `throws` clause): twelve names, then the brace
        toks2 = [("Name", "m"), ("Punctuation", "("), ("Punctuation", ")")] + [("Name", f"e{i}") for i in range(12)] + [("Punctuation", "{"), ("Name", "z")]
        tokens2 = [make_token(it, prj, k, v, 1, 2 * i + 1) for i, (k, v) in enumerate(toks2)]
        name2 = it.construct(prj.cls(P + "Name:Name"), [], {}, None, gh)
        many = it.construct(prj.cls("codelimit.common.gsm.operator.ZeroOrMore:ZeroOrMore"), [name2], {}, None, gh)
        brace2 = it.construct(prj.cls(P + "Symbol:Symbol"), ["{"], {}, None, gh)
        for follow, want, toklist in ((brace, [("f", 1, 5)], tokens), (None, [("f", 1, 5), ("g", 7, 10), ("h", 11, 14)], tokens),
                                      ([many, brace2], [("m", 0, 3)], tokens2)):
            r = it.call(gh, [toklist, [name, plus]] + ([follow] if follow is not None else []), {})
            r = r.rest() if hasattr(r, "rest") else r
            got = []
            for h in r:
                tr = it.getattr(h, "token_range", gh, None)
                nm = h.fields.get("name_token") if "name_token" in h.fields else None
                if nm is None:
                    nmv = it.call_callable(it.getattr(h, "name", gh, None), [], {})
                else:
                    nmv = nm.fields.get("value")
                got.append((nmv, tr.fields.get("start"), tr.fields.get("end")))
            res.append((follow is not None if toklist is tokens else "long", got, want))
    return res


def stateful_first_evaluated(prj):
    """find_all interpreted through the engine for a pattern that BEGINS with a balanced group: [(name, got, want)]"""
    from ..absint import MiniInterp, make_token
    fa = prj.func(f"{GSM}.matcher:find_all")
    it = MiniInterp(prj, max_steps=2_000_000, max_depth=80)
    P = "codelimit.common.token_matching.predicate."
    out = []
    for text, want in (("( a ) => {", [(0, 4)]), ("( ) => x", [(0, 3)]), ("( a ) => ( ( b ) ) => c", [(0, 4), (4, 10)]), ("a ) => ( b", [])):
        words = text.split()
        tokens = [make_token(it, prj, "Name" if w.isalpha() else "Punctuation", w, 1, 2 * i + 1) for i, w in enumerate(words)]
        bal = it.construct(prj.cls(P + "Balanced:Balanced"), ["(", ")"], {}, None, fa)
        plus = it.construct(prj.cls("codelimit.common.gsm.operator.OneOrMore:OneOrMore"), [bal], {}, None, fa)
        arrow = it.construct(prj.cls(P + "Symbol:Symbol"), ["=>"], {}, None, fa)
        r = it.call(fa, [[plus, arrow], tokens], {})
        r = r.rest() if hasattr(r, "rest") else r
        got = [(x.fields.get("start"), x.fields.get("end")) for x in r]
        out.append((text, got, want))
    return out


def rule_R2_evaluated(ctx, prj) -> bool:
    """get_headers interpreted through the repo's engine on a small token list: the header's range is (start, exclusive end) of
    its match, the name is a token of that match, and the follow-up is matched from the exclusive end"""
    from ..absint import PyRaise, Unknown
    gh = prj.func("codelimit.common.scope.scope_utils:get_headers")
    try:
        res = headers_evaluated(prj)
    except (Unknown, PyRaise, AnalysisError, AttributeError, KeyError) as e:
        ctx.info(f"R2: get_headers not evaluable through the engine ({type(e).__name__}: {e}); its use of the match end is read syntactically")
        return False
    ok = True
    for with_follow, got, want in res:
        what = "with the follow-up `{`" if with_follow is True else "without follow-up" if with_follow is False else \
            "on `m ( ) e0 .. e11 { z` with a follow-up of any number of names and `{` (thirteen tokens)"
        if got != want:
            ok = False
            ctx.viol("R2", "get_headers/token-range" if [g[0] for g in got] == [w[0] for w in want] else "get_headers/follow-slice", gh.site(),
                     f"get_headers {'on `x f ( a ) { y g ( ) ; h ( )` ' if with_follow != 'long' else ''}{what} gives (name, start, end) {got}; required {want} "
                     f"(range = the match's start and exclusive end, follow-up matched from that end)")
        else:
            ctx.ok("R2", gh.site(), f"get_headers {what}: {got} (exclusive ends, follow-up from the end)")
    return True


def rule_R3_sequences(ctx, prj):
    """Balanced observed from outside, whatever it keeps inside: an instance built by its constructor is fed every sequence over
    {left, right, other} up to length 5; after each accepted token accept()'s answer and is_open() are those of the nesting depth"""
    from ..absint import MiniInterp, PyRaise, Unknown, make_token
    import itertools
    bal_c = prj.cls("codelimit.common.token_matching.predicate.Balanced:Balanced")
    acc_m = prj.func(bal_c.find_method("accept").qual, raw=True)
    open_m = prj.func(bal_c.find_method("is_open").qual, raw=True)
    it = MiniInterp(prj, max_steps=3_000_000, max_depth=60)
    toks = {"L": make_token(it, prj, "Punctuation", "(", 1, 1), "R": make_token(it, prj, "Punctuation", ")", 1, 2), "X": make_token(it, prj, "Name", "x", 1, 3)}
    n = 0
    for k in range(1, 6):
        for seq in itertools.product("LRX", repeat=k):
            b = it.construct(bal_c, ["(", ")"], {}, None, acc_m)
            depth = 0
            for i, c in enumerate(seq):
                want = (c == "L") if depth == 0 else True
                got = it.truth(it.call(acc_m, [toks[c]], {}, b))
                n += 1
                if got != want:
                    return n, f"after {' '.join(seq[:i]) or 'nothing'} (depth {depth}) accept({c}) is {got}; required {want}"
                if not want:
                    break
                depth += 1 if c == "L" else -1 if c == "R" else 0
                op = it.truth(it.call(open_m, [], {}, b))
                if op != (depth > 0):
                    return n, f"after {' '.join(seq[:i + 1])} (depth {depth}) is_open() is {op}; required {depth > 0}"
    return n, None


def rule_R3(ctx, prj):
    try:
        return rule_R3_model(ctx, prj)
    except AnalysisError as e:
        from ..absint import PyRaise, Unknown
        bal = prj.func("codelimit.common.token_matching.predicate.Balanced:Balanced.accept")
        try:
            n, bad = rule_R3_sequences(ctx, prj)
        except (Unknown, PyRaise) as e2:
            raise AnalysisError(f"{e}; and not evaluable on token sequences either ({e2})")
        ctx.floors.pop("R3", None)
        ctx.info(f"R3: the transfer table could not be read off Balanced's fields ({e}); decided on token sequences")
        if bad:
            ctx.viol("R3", "Balanced.accept/table", bal.site(), f"Balanced('(', ')') fed L = `(`, R = `)`, X = another token: {bad}")
        else:
            ctx.ok("R3", bal.site(), f"Balanced on every sequence over (left, right, other) up to length 5 ({n} steps): opens on left, rejects right/other at depth 0, "
                                    f"accepts everything inside, open exactly while the depth is positive")


def rule_R3_model(ctx, prj):
    ctx.rule("R3", "Balanced.accept/is_open over depth {0,1,2,3} x token {left, right, other}: opens on left, rejects "
                   "right/other at depth 0, accepts everything while depth >= 1 with depth +1 / -1 / unchanged, and is "
                   "open exactly while depth > 0 (so a group never ends before nesting returns to zero)", floor=12)
    interp = Interp(prj)
    pm = PredModel(interp, Pred("Balanced", (Pred("TokenValue", ("(",)), Pred("TokenValue", (")",)))), cap=50)
    toks = {"left": AToken("Punctuation", "("), "right": AToken("Punctuation", ")"), "other": AToken("Name", "x")}
    bal = prj.func("codelimit.common.token_matching.predicate.Balanced:Balanced.accept")
    bad = []
    names = pm.slot_names()
    if names.count("depth") != 1 or any(not isinstance(v, bool) for v, nm in zip(pm.initial(), names) if nm != "depth"):
        raise AnalysisError(f"{bal.disp}: the state read by accept()/is_open() is {names}; one integer `depth` (and flags) expected")
    di = names.index("depth")
    # the flag combinations that occur: states reachable from the initial one by left/right/other tokens, depth <= 3
    reach, todo = {pm.initial()}, [pm.initial()]
    while todo:
        cur = todo.pop()
        for tok in toks.values():
            for acc, nst in pm.accept(cur, tok):
                if acc and 0 <= nst[di] <= 3 and nst not in reach:
                    reach.add(nst)
                    todo.append(nst)
    if {s_[di] for s_ in reach} != {0, 1, 2, 3}:
        bad.append(f"depths reachable by parentheses and other tokens: {sorted({s_[di] for s_ in reach})} (0..3 expected)")
    for state in sorted(reach):
        d = state[di]
        ftxt = "".join(f" {nm}={v}" for nm, v in zip(names, state) if nm != "depth")
        for tn, tok in toks.items():
            outs = pm.accept(state, tok)
            if len(outs) != 1:
                raise AnalysisError(f"{bal.disp}: accept at depth {d} is not deterministic in the model")
            (acc, nst), = outs
            nd = nst[di]
            if d == 0:
                want = {"left": (True, 1), "right": (False, None), "other": (False, 0)}[tn]
            else:
                want = (True, {"left": d + 1, "right": d - 1, "other": d}[tn])
            ok = acc == want[0] and (want[1] is None or nd == want[1])
            if ok:
                ctx.ok("R3", bal.site(), f"Balanced depth={d}{ftxt} token={tn}: accept={acc} depth'={nd}")
            else:
                bad.append(f"depth={d}{ftxt} token={tn}: accept={acc}, depth'={nd}; required accept={want[0]}"
                           + (f", depth'={want[1]}" if want[1] is not None else ""))
                ctx.bad_instance("R3", bal.site(), bad[-1])
        op = pm.is_open(state)
        if op is not None and op != (d > 0):
            bad.append(f"is_open at depth {d}{ftxt} is {op}")
    if bad:
        ctx.viol("R3", "Balanced.accept/table", bal.site(), "; ".join(bad))


def rule_R4(ctx, prj, fi: FuncInfo, sites):
    ctx.rule("R4", "matches are reported in increasing start order: attempts are created with the enumerate index as "
                   "start, appended at the end of the active list and only filtered; nothing in find_all sorts, "
                   "reverses or inserts", floor=2)
    bad = []
    for n in fi.walk():
        if isinstance(n, ast.Call):
            nm = attr_chain(n.func) or ""
            if nm in ("sorted", "reversed") or nm.endswith(".sort") or nm.endswith(".reverse") or nm.endswith(".insert"):
                bad.append(n)
        if isinstance(n, ast.Subscript) and isinstance(n.slice, ast.Slice) and n.slice.step is not None:
            bad.append(n)
    if bad:
        ctx.viol("R4", "find_all/reorder", fi.site(bad[0]), f"find_all reorders a pattern list: {unparse(bad[0])[:80]}")
    else:
        ctx.ok("R4", fi.site(), "find_all: no sort/reverse/insert/stepped slice")
    news = [c for c in fi.calls() if attr_chain(c.func) == "Pattern"]
    if not news:
        raise AnalysisError("find_all creates no Pattern attempts")
    for c in news:
        loops = enclosing(fi, c, ast.For)
        idx = None
        for lp in loops:
            if isinstance(lp.iter, ast.Call) and attr_chain(lp.iter.func) == "enumerate" and isinstance(lp.target, ast.Tuple):
                idx = unparse(lp.target.elts[0])
        par = fi.parents[c]
        appended = isinstance(par, ast.Call) and isinstance(par.func, ast.Attribute) and par.func.attr == "append"
        if idx is not None and c.args and unparse(c.args[0]) == idx and appended:
            ctx.ok("R4", fi.site(c), f"find_all: one attempt per position, Pattern({idx}, …) appended")
        else:
            ctx.viol("R4", "find_all/attempt-start", fi.site(c),
                     f"attempt created as {unparse(c)[:60]} (required: Pattern(<position>, dfa) appended once per position)")


def rule_R5(ctx, prj, fi: FuncInfo, sites):
    ctx.rule("R5", "a match is reported only for an attempt that is in an accepting state, and inside the main loop only "
                   "when it cannot continue (consume failed, or the state has no outgoing transition): soundness and "
                   "longest-match shape", floor=3)
    for i, c in enumerate(sites):
        var = unparse(c.args[0])
        gs = guards_of(fi, c)
        acc = any(g.polarity and f"{var}.is_accepting()" in unparse(g.test) and not _under_not_or_or(g.test, f"{var}.is_accepting()") for g in gs)
        loops = enclosing(fi, c, ast.For)
        in_main = len(loops) >= 2
        key = f"find_all/append#{i}"
        if not acc:
            ctx.viol("R5", key + "/accepting", fi.site(c), f"{var} is reported without a dominating {var}.is_accepting() test")
            continue
        if in_main:
            stuck = any((not g.polarity and ".consume(" in unparse(g.test)) or
                        (g.polarity and "transition" in unparse(g.test) and "== 0" in unparse(g.test)) or
                        (g.polarity and unparse(g.test).startswith("not ") and "transition" in unparse(g.test))
                        for g in gs)
            if not stuck:
                ctx.viol("R5", key + "/longest", fi.site(c), f"{var} is reported while it could still consume input (not the longest match)")
                continue
        ctx.ok("R5", fi.site(c), f"{key}: accepting" + (" and stuck" if in_main else " at end of input"))


def _under_not_or_or(test, needle: str) -> bool:
    """needle occurs only under an `or` or a `not` (then it is not known to hold)."""
    def holds(t, pol=True, conj=True):
        if isinstance(t, ast.UnaryOp) and isinstance(t.op, ast.Not):
            return holds(t.operand, not pol, conj)
        if isinstance(t, ast.BoolOp):
            c = isinstance(t.op, ast.And) == pol
            return any(holds(v, pol, conj and c) for v in t.values)
        return unparse(t) == needle and pol and conj
    return not holds(test)


def run(ctx, prj: Project):
    ctx.explanation = (
        "Structural part of C14 on matcher.find_all and Balanced: dominance of every result-append by the disjointness "
        "guard (contradiction rule between sibling sites), by an accepting test and, in the main loop, by a 'cannot "
        "continue' condition; exclusive-end bookkeeping; the Balanced transfer table by abstract interpretation of its "
        "source; order preservation. Soundness/longest/completeness for all patterns and sequences is NOT decided.")
    ctx.not_decided = ["each reported match is a word of the language and the longest from its start (algorithmic)",
                       "every position from which greedy matching succeeds is covered (algorithmic)"]
    fi = prj.func(f"{GSM}.matcher:find_all")
    from ..absint import PyRaise, Unknown
    from .. import findall_model
    ctx.rule("R6", "control logic of find_all: evaluated on a sequence of n symbolic items with abstract attempts (whether an "
                   "attempt is accepting / has no outgoing transition / consumes the next item is answered by an oracle, all "
                   "answer combinations enumerated), find_all reports exactly the matches the property requires: in start "
                   "order, disjoint (also at the end of input), only accepting attempts that cannot continue, end = first "
                   "item not consumed", floor=1)
    explored = None
    try:
        plan = [(2, False), (3, True)] if ctx.tier != "thorough" else [(2, False), (3, False), (4, True)]
        div = None
        for n, no_dead in plan:
            count, div = findall_model.explore(prj, n, no_dead=no_dead, limit=100000)
            explored = (n, count)
            if div is not None:
                break
            ctx.ok("R6", fi.site(), f"find_all agrees with the reference on all {count} abstract scenarios for sequences of {n} items"
                                    + (" (states without outgoing transitions excluded)" if no_dead else ""))
            ctx.obligations += count
            ctx.discharged += count
        if div is not None:
            got, want = div["got"], div["want"]
            kind = "overlap" if isinstance(got, list) and any(a[1] > b[0] for a, b in zip(got, got[1:])) else \
                "order" if isinstance(got, list) and got != sorted(got) else \
                "end" if isinstance(got, list) and [g[0] for g in got] == [w[0] for w in want] else "selection"
            ctx.viol("R6", f"find_all/{kind}", fi.site(), findall_model.describe(div))
    except (Unknown, PyRaise) as e:
        ctx.info(f"find_all not evaluable on the abstract model ({e}); evaluating it through the engine on concrete patterns")
    # find_all through the repo's own engine on concrete patterns and sequences (always, as a second view; it is the deciding one
    # when the abstract attempts could not stand in for this form of Pattern)
    try:
        from .c13 import corpus
        trees = [t for t in corpus(False) if t.op != "atom" and not t.nullable()]
        trees = trees[::max(1, len(trees) // (24 if ctx.tier == "thorough" else 8))]
        L = 4 if ctx.tier == "thorough" else 3
        import itertools as _it
        seqs = [list(w) for k in range(1, L + 1) for w in _it.product("ab", repeat=k)]
        cases, cdiv = findall_model.concrete(prj, trees, seqs)
        if cdiv is not None:
            p_, w_, got_, want_ = cdiv
            ctx.viol("R6", "find_all/concrete", fi.site(), f"find_all({p_!r}, [{' '.join(w_)}]) {'reports ' + str(got_) if isinstance(got_, list) else got_}; required {want_} "
                                                        f"(start order, disjoint also at the end of input, only accepting attempts that cannot continue, exclusive ends)")
            explored = explored or (0, cases)
        else:
            ctx.ok("R6", fi.site(), f"find_all through the interpreted engine agrees with the reference on {cases} (pattern, sequence) pairs "
                                    f"({len(trees)} non-nullable trees x all sequences over {{a, b}} up to length {L})")
            ctx.obligations += cases
            ctx.discharged += cases
            explored = explored or (0, cases)
    except (Unknown, PyRaise) as e:
        ctx.info(f"find_all not evaluable through the engine either ({type(e).__name__}: {e})")
    # a pattern that begins with a stateful predicate (a balanced group), on tokens
    try:
        for text, got, want in stateful_first_evaluated(prj):
            if got != want:
                ctx.viol("R6", "find_all/stateful-first", fi.site(), f"find_all([OneOrMore(Balanced('(', ')')), Symbol('=>')], `{text}`) reports {got}; required {want}: "
                         f"an attempt must begin exactly where its first (balanced) group opens and see a fresh predicate state")
                break
        else:
            ctx.ok("R6", fi.site(), "find_all on token lists for a pattern that begins with a balanced group: 4 sequences as the reference")
    except (Unknown, PyRaise, AnalysisError, AttributeError, KeyError) as e:
        ctx.info(f"find_all with a stateful first predicate not evaluable ({type(e).__name__}: {e}); not judged")
    sites = _append_sites(fi)
    if explored is not None:
        ctx.rule("R2", "a reported match's end is the exclusive end (decided by R6 for find_all) and get_headers uses it as such: "
                       "get_headers interpreted through the engine on a token list with a header followed by `{`, one followed by "
                       "`;` and one at the end of input - ranges (start, exclusive end), follow-up matched from the end", floor=2)
        if not rule_R2_evaluated(ctx, prj):
            ctx.complement("R2", lambda: rule_R2(ctx, prj, fi, sites, structural=False), decided=False)
        rule_R3(ctx, prj)
        return
    ctx.rule("R6", "not evaluable: structural rules R1, R2, R4, R5 apply instead", floor=0)
    ctx.ok("R6", fi.site(), "fallback to structural rules")

    if len(sites) < 2:
        raise AnalysisError(f"find_all: only {len(sites)} result-append site(s) recognised (3 confirmed by reading)")
    rule_R1(ctx, prj, fi, sites)
    rule_R2(ctx, prj, fi, sites)
    rule_R3(ctx, prj)
    rule_R4(ctx, prj, fi, sites)
    rule_R5(ctx, prj, fi, sites)
