"""C13 - The pattern engine implements regular-expression semantics (structural part)."""
from __future__ import annotations

import ast
import itertools

from ..core import (AnalysisError, FuncInfo, Project, attr_chain, const_int, expand, guards_of, local_defs, term,
                    unparse, enclosing)
from ..patterns import (Pat, Pred, dfa_difference, operator_fragments, regex_dfa)

GSM = "codelimit.common.gsm"

SPEC = {
    # operator class -> (stack depth for the scenario, expected regex over labels)
    "Atom": (0, ("sym", "item")),
    "Union": (0, ("alt", ("sym", "left"), ("sym", "right"))),
    "Optional": (0, ("opt", ("sym", "expression"))),
    "ZeroOrMore": (0, ("star", ("sym", "expression"))),
    "OneOrMore": (0, ("plus", ("sym", "expression"))),
    "Concat": (2, ("cat", ("sym", "S0"), ("sym", "S1"))),
}


def _labels(rx):
    if rx[0] == "sym":
        return {rx[1]}
    out = set()
    for r in rx[1:]:
        out |= _labels(r)
    return out


def _rx_str(rx):
    k = rx[0]
    if k == "sym":
        return rx[1]
    if k == "cat":
        return f"{_rx_str(rx[1])}·{_rx_str(rx[2])}"
    if k == "alt":
        return f"({_rx_str(rx[1])}|{_rx_str(rx[2])})"
    return f"({_rx_str(rx[1])})" + {"opt": "?", "star": "*", "plus": "+"}[k]


def rule_R1(ctx, prj: Project):
    ctx.rule("R1", "the automaton fragment wired by each Operator.apply denotes the operator's regular language over "
                   "its operands as black boxes (language equality by DFA equivalence; any rewiring that keeps the "
                   "language passes) and re-establishes the invariants that reading relies on (no edge enters the "
                   "result's start, none leaves its accepting state), and expression_to_nfa concatenates list items left to right", floor=7)
    base = prj.cls(f"{GSM}.operator.Operator:Operator")
    subs = {c.name: c for c in base.all_subclasses()}
    missing = set(SPEC) - set(subs)
    if missing:
        raise AnalysisError(f"operator classes {sorted(missing)} not found")
    for name, ci in sorted(subs.items()):
        if name not in SPEC:
            raise AnalysisError(f"operator {ci.qual} has no specified language (new operator: extend the table)")
        depth, rx = SPEC[name]
        fi, frags = operator_fragments(prj, ci, depth)
        labels = _labels(rx)
        want = regex_dfa(rx, labels)
        bad = None
        inv_bad = None
        for choice, frag in frags:
            used = set(frag.labels)
            diff = dfa_difference(frag.dfa(), want, labels | used)
            ctx.obligations += 1
            if diff is not None:
                bad = (choice, diff)
            else:
                ctx.discharged += 1
            br = frag.invariant_breaches()
            ctx.obligations += 1
            if br:
                inv_bad = br
            else:
                ctx.discharged += 1
        if inv_bad:
            ctx.viol("R1", f"{name}.apply/invariant", fi.site(),
                     f"{name}.apply returns an automaton that breaks the construction's invariant ({'; '.join(inv_bad)}): "
                     f"operators that wrap it add edges to these states, so nested patterns accept wrong words "
                     f"(e.g. a repetition whose body begins with a repetition)")
        if bad:
            choice, w = bad
            ctx.viol("R1", f"{name}.apply", fi.site(),
                     f"the fragment built by {name}.apply does not denote {_rx_str(rx)}: the word "
                     f"[{' '.join(w) or 'ε'}] is accepted by exactly one of them"
                     + (f" (branch {choice})" if choice else ""))
        else:
            ctx.instances["R1"].append(dict(site=fi.site(), what=f"{name}.apply == {_rx_str(rx)} ({len(frags)} branch combination(s))", verdict="ok"))
            ctx.lines.append(f"OK rule=R1 site={fi.site()} construct={name}.apply language={_rx_str(rx)} branches={len(frags)}")
            ctx.sample({"operator": name, "language": _rx_str(rx)})
        # Concat with fewer than two operands must leave the stack alone
        if name == "Concat":
            for d in (0, 1):
                _, fr = operator_fragments(prj, ci, d)
                for choice, frag in fr:
                    ok = (d == 0 and frag.result is None) or (d == 1 and frag.result is not None and frag.dfa()[2] and
                                                            dfa_difference(frag.dfa(), regex_dfa(("sym", "S0"), {"S0"}), {"S0"}) is None)
                    if not ok:
                        ctx.viol("R1", "Concat.apply/short-stack", fi.site(), f"with {d} operand(s) on the stack Concat changes the stack's language")
                    else:
                        ctx.ok("R1", fi.site(), f"Concat.apply with {d} operand(s): stack unchanged")
    # expression_to_nfa: items in order, item.apply then Concat().apply, result = pop
    fi = prj.func(f"{GSM}.Expression:expression_to_nfa")
    loops = [n for n in fi.walk() if isinstance(n, ast.For)]
    okloop = None
    for lp in loops:
        calls = [c for c in ast.walk(lp) if isinstance(c, ast.Call) and isinstance(c.func, ast.Attribute) and c.func.attr == "apply"]
        if len(calls) >= 2:
            okloop = (lp, calls)
    if okloop is None:
        raise AnalysisError(f"{fi.disp}: loop applying each item and then Concat not found")
    lp, calls = okloop
    calls = sorted(calls, key=lambda c: (c.lineno, c.col_offset))
    first_is_item = isinstance(calls[0].func.value, ast.Name) and calls[0].func.value.id == getattr(lp.target, "id", None)
    second_is_concat = isinstance(calls[1].func.value, ast.Call) and attr_chain(calls[1].func.value.func) == "Concat"
    it = expand(fi, lp.iter)
    it_txt = unparse(it)
    reversed_iter = "reversed(" in it_txt or "[::-1]" in it_txt
    # every definition of the iterated list preserves the order of `expression`
    order_ok = not reversed_iter
    if isinstance(lp.iter, ast.Name):
        for val, st in local_defs(fi, lp.iter.id):
            if val is None:
                continue
            t = unparse(val)
            if "reversed(" in t or "[::-1]" in t or "sorted(" in t:
                order_ok = False
    if first_is_item and second_is_concat and order_ok:
        ctx.ok("R1", fi.site(lp), "expression_to_nfa: for item in expression (in order): item.apply(stack); Concat().apply(stack)")
    else:
        ctx.viol("R1", "expression_to_nfa/sequence", fi.site(lp),
                 f"sequence items are not applied left to right each followed by Concat (item-first={first_is_item}, "
                 f"concat-second={second_is_concat}, order-preserved={order_ok})")
    # non-operator items are wrapped as Atom
    wraps = [n for n in fi.walk() if isinstance(n, ast.IfExp) and "isinstance" in unparse(n.test) and "Operator" in unparse(n.test)]
    for w in wraps:
        good = isinstance(w.orelse, ast.Call) and attr_chain(w.orelse.func) == "Atom" and not isinstance(w.body, ast.Call)
        if good:
            ctx.ok("R1", fi.site(w), "expression_to_nfa: non-operator item wrapped in Atom")
        else:
            ctx.viol("R1", "expression_to_nfa/atom-wrap", fi.site(w), f"item wrapping is {unparse(w)}; required: item if Operator else Atom(item)")


# ----------------------------------------------------------------------------
# R2 visited guards
# ----------------------------------------------------------------------------

def _follows_edges(fi: FuncInfo) -> bool:
    return any(isinstance(n, ast.Attribute) and n.attr in ("epsilon_transitions", "transition") and isinstance(n.ctx, ast.Load)
               for n in fi.walk())


def _membership_guard(fi: FuncInfo, node) -> list[tuple[str, str]]:
    """(element, collection) pairs known NOT to be members when `node` runs."""
    out = []
    for g in guards_of(fi, node):
        t = g.test
        if isinstance(t, ast.Compare) and len(t.ops) == 1:
            if isinstance(t.ops[0], ast.In) and not g.polarity:
                out.append((unparse(t.left), unparse(t.comparators[0])))
            if isinstance(t.ops[0], ast.NotIn) and g.polarity:
                out.append((unparse(t.left), unparse(t.comparators[0])))
    return out


def rule_R2(ctx, prj: Project):
    ctx.rule("R2", "every function of the engine that follows automaton edges recursively or with a worklist tests "
                   "membership in an accumulated visited collection before descending, adds to it, and threads it "
                   "through the recursion (the operators can create epsilon cycles: repetitions of nullable patterns)",
             floor=4)
    cg = prj.callgraph
    cands = [fi for fi in prj.funcs.values() if fi.module.name.startswith(GSM) and _follows_edges(fi)]
    n = 0
    for fi in sorted(cands, key=lambda f: f.qual):
        rec_calls = [c for c in fi.calls() if fi in prj.resolve_call(fi, c)[0]]
        whiles = [w for w in fi.walk() if isinstance(w, ast.While)]
        if not rec_calls and not whiles:
            continue
        key = fi.local
        if rec_calls:
            n += 1
            bad = None
            memo_bad = None
            for c in rec_calls:
                gs = _membership_guard(fi, c)
                ok = False
                for elem, coll in gs:
                    adds = [x for x in fi.calls() if isinstance(x.func, ast.Attribute) and x.func.attr in ("add", "append")
                            and unparse(x.func.value) == coll and x.args and unparse(x.args[0]) == elem]
                    adds += [x for x in fi.walk() if isinstance(x, ast.Assign) and any(
                        isinstance(t, ast.Subscript) and unparse(t.value) == coll and unparse(t.slice) == elem for t in x.targets)]
                    memo = [r for r in fi.walk() if isinstance(r, ast.Return) and r.value is not None
                            and isinstance(r.value, ast.Subscript) and unparse(r.value.value) == coll]
                    if memo and adds:
                        memo_bad = memo[0]
                    threaded = any(unparse(a) == coll for a in list(c.args) + [k.value for k in c.keywords])
                    coll_is_param = coll in fi.params()
                    if adds and threaded and coll_is_param:
                        ok = True
                if not ok:
                    bad = c
            if memo_bad is not None:
                ctx.viol("R2", f"{key}/memoised-partial-result", fi.site(memo_bad),
                         f"{key} caches a per-state result before it is complete and returns the cached value when the state is "
                         f"met again ({unparse(memo_bad)}): on an epsilon cycle the caller receives a partial closure, so the "
                         f"subset construction loses transitions (repetitions of nullable patterns)")
            elif bad is not None:
                ctx.viol("R2", f"{key}/recursion", fi.site(bad),
                         f"{key} recurses along automaton edges ({unparse(bad)[:70]}) without a visited guard that is "
                         f"tested, extended and passed down: unbounded recursion on any epsilon cycle "
                         f"(e.g. ZeroOrMore(Optional(x)))")
            else:
                ctx.ok("R2", fi.site(), f"{key}: {len(rec_calls)} recursive call(s) guarded by a threaded visited collection")
        for w in whiles:
            # worklist loop: the loop condition is the worklist; body must skip marked elements
            n += 1
            pops = [c for c in ast.walk(w) if isinstance(c, ast.Call) and isinstance(c.func, ast.Attribute) and c.func.attr == "pop"
                    and unparse(c.func.value) == unparse(w.test)]
            if not pops:
                continue
            pushes = [c for c in ast.walk(w) if isinstance(c, ast.Call) and isinstance(c.func, ast.Attribute)
                      and c.func.attr in ("append", "extend") and unparse(c.func.value) == unparse(w.test)]
            ok = False
            for p in pushes:
                for elem, coll in _membership_guard(fi, p):
                    adds = [x for x in ast.walk(w) if isinstance(x, ast.Call) and isinstance(x.func, ast.Attribute)
                            and x.func.attr in ("add", "append") and unparse(x.func.value) == coll]
                    defined_outside = any(st.lineno < w.lineno for _, st in local_defs(fi, coll))
                    if adds and defined_outside:
                        ok = True
            if pushes and not ok:
                ctx.viol("R2", f"{key}/worklist", fi.site(w),
                         f"{key}: worklist loop re-queues states without a dominating 'already marked' test")
            elif pushes:
                ctx.ok("R2", fi.site(w), f"{key}: worklist guarded by a marked set defined outside the loop")
    # positive control: the unguarded shape must be flagged by the same recogniser
    ctl = ast.parse("def closure(states):\n    result = set()\n    for s in states:\n        result.add(s)\n"
                    "        for e in s.epsilon_transitions:\n            result.update(closure(e))\n    return result\n")
    if _control_flags_unguarded(ctl) is not True:
        raise AnalysisError("C13-R2 positive control not flagged: recogniser broken")
    return n


def _control_flags_unguarded(tree) -> bool:
    fn = tree.body[0]
    for c in ast.walk(fn):
        if isinstance(c, ast.Call) and isinstance(c.func, ast.Name) and c.func.id == fn.name:
            # no enclosing If with a membership test
            return True
    return False


# ----------------------------------------------------------------------------
# R3 predicates as alphabet symbols
# ----------------------------------------------------------------------------

def _self_attrs(node, ci=None, prj=None, depth=0) -> set[str]:
    """fields of self read by a method; a call of another method of the class counts as the fields that method reads"""
    out = set()
    called = {id(n.func) for n in ast.walk(node) if isinstance(n, ast.Call)}
    for n in ast.walk(node):
        if isinstance(n, ast.Attribute) and isinstance(n.value, ast.Name) and n.value.id == "self":
            m = ci.find_method(n.attr) if ci is not None else None
            if m is not None and (id(n) in called or m.is_property()) and depth < 3:
                out |= _self_attrs(prj.func(m.qual).node, ci, prj, depth + 1)
            else:
                out.add(n.attr)
    return out


def rule_R3(ctx, prj: Project, declare=True):
    if declare:
        ctx.rule("R3", "every concrete predicate class defines __eq__ and __hash__ itself, __eq__ is restricted to its own "
                 "class, and the fields hashed are a subset of the fields compared (equal => same hash): the subset "
                 "construction identifies alphabet symbols by set membership and ==", floor=10)
    base = prj.cls(f"{GSM}.predicate.Predicate:Predicate")
    for ci in sorted(base.all_subclasses(), key=lambda c: c.qual):
        acc = ci.methods.get("accept")
        if acc is None or any(isinstance(d, ast.Name) and d.id == "abstractmethod" for d in acc.node.decorator_list):
            continue
        eq, hs = ci.methods.get("__eq__"), ci.methods.get("__hash__")
        if eq is None or hs is None:
            ctx.viol("R3", f"{ci.name}/eq-hash", f"{ci.module.rel}:{ci.node.lineno}",
                     f"{ci.name} does not define both __eq__ and __hash__ itself")
            continue
        own = any(isinstance(c, ast.Call) and isinstance(c.func, ast.Name) and c.func.id == "isinstance"
                  and len(c.args) == 2 and attr_chain(c.args[1]) == ci.name for c in eq.calls())
        eq, hs = prj.func(eq.qual), prj.func(hs.qual)
        ea, ha = _self_attrs(eq.node, ci, prj), _self_attrs(hs.node, ci, prj)
        if not own:
            ctx.viol("R3", f"{ci.name}/eq-own-class", eq.site(), f"{ci.name}.__eq__ does not restrict equality to {ci.name} instances")
        elif any(isinstance(c, ast.Call) and isinstance(c.func, ast.Name) and c.func.id == "id" for c in hs.calls()):
            ctx.viol("R3", f"{ci.name}/hash-identity", hs.site(),
                     f"{ci.name}.__hash__ hashes object identity while __eq__ compares fields: equal predicates hash differently")
        elif not ha <= ea:
            ctx.viol("R3", f"{ci.name}/hash-subset", hs.site(),
                     f"{ci.name}.__hash__ reads {sorted(ha - ea)} which __eq__ does not compare: equal predicates may hash differently")
        else:
            ctx.ok("R3", eq.site(), f"{ci.name}: __eq__ compares {sorted(ea) or '(class only)'}, __hash__ reads {sorted(ha) or '(constant)'}")


def _deep_differs(a, b, depth=0) -> bool:
    from ..absint import Sym
    if depth > 4:
        return False
    if isinstance(a, Sym) and isinstance(b, Sym):
        return any(_deep_differs(a.fields.get(k), b.fields.get(k), depth + 1) for k in set(a.fields) | set(b.fields))
    if isinstance(a, Sym) or isinstance(b, Sym):
        return True
    try:
        return a != b
    except Exception:
        return False


def rule_R3_evaluated(ctx, prj: Project) -> bool:
    """predicate equality and hashing decided by evaluating __init__, __eq__ and __hash__ of every concrete predicate class on
    instances built from the same and from different arguments; True when every class was decided and none violates"""
    from ..absint import MiniInterp, PyRaise, Sym, Unknown
    ctx.rule("R3", "alphabet symbols: for every concrete predicate class (its __init__, __eq__, __hash__ evaluated), two instances "
                   "built from the same arguments are equal and hash alike, instances built from different arguments that accept() "
                   "reads are unequal, and an instance never equals an instance of another predicate class built from the same "
                   "arguments: the subset construction identifies symbols by == and by set / dictionary membership", floor=10)
    base = prj.cls(f"{GSM}.predicate.Predicate:Predicate")
    anchor = prj.func(f"{GSM}.Expression:nfa_to_dfa")
    concrete = []
    for ci in sorted(base.all_subclasses(), key=lambda c: c.qual):
        acc = ci.find_method("accept")
        if acc is None or any(isinstance(d, ast.Name) and d.id == "abstractmethod" for d in acc.node.decorator_list):
            continue
        if ci.methods.get("accept") is None and not any(m in ci.methods for m in ("__eq__", "__hash__", "__init__")):
            continue
        concrete.append(ci)
    if not concrete:
        raise AnalysisError("C13-R3: no concrete predicate class found")
    it = MiniInterp(prj, max_steps=200000)

    def nparams(ci):
        init = ci.find_method("__init__")
        if init is None:
            return 0
        ps = init.params()[1:]
        return len([p for p in ps if init.param_default(p) is None]) or 0

    def build(ci, vals):
        return it.construct(ci, list(vals[:nparams(ci)]), {}, None, anchor)
    all_decided = True
    for ci in concrete:
        n = nparams(ci)
        site = f"{ci.module.rel}:{ci.node.lineno}"
        try:
            a1, a2 = build(ci, ["p", "q", "s"]), build(ci, ["p", "q", "s"])
            facts = []
            if not it.equal(a1, a2) or not it.equal(a2, a1):
                ctx.viol("R3", f"{ci.name}/eq-hash", site, f"two {ci.name} predicates built from the same arguments do not compare equal: the subset "
                         f"construction keeps them as two symbols, and the automaton has two transitions for one input item")
                all_decided = False
                continue
            h1, h2 = it.model_hash(a1), it.model_hash(a2)
            if h1 != h2:
                hs = ci.find_method("__hash__")
                ctx.viol("R3", f"{ci.name}/hash-identity" if any(isinstance(c, ast.Call) and isinstance(c.func, ast.Name) and c.func.id == "id" for c in hs.calls()) else f"{ci.name}/hash-subset",
                         hs.site(), f"two equal {ci.name} predicates hash differently ({h1[1:]} / {h2[1:]}): sets and dictionaries of the subset construction treat "
                         f"them as different symbols")
                all_decided = False
                continue
            facts.append("same arguments: equal, same hash")
            bad = False
            for i in range(n):
                vals = ["p", "q", "s"]
                vals[i] = "r"
                b = build(ci, vals)
                if it.equal(a1, b) or it.equal(b, a1):
                    acc = prj.func(ci.find_method("accept").qual)
                    read = _self_attrs(acc.node, ci, prj)
                    if any(_deep_differs(a1.fields.get(f), b.fields.get(f)) for f in read):
                        ctx.viol("R3", f"{ci.name}/eq-fields", prj.func(ci.find_method("__eq__").qual).site(),
                                 f"{ci.name} predicates built from different arguments (argument {i + 1}: 'p' / 'r' in place) compare equal although accept() "
                                 f"reads what differs between them ({sorted(f for f in read if _deep_differs(a1.fields.get(f), b.fields.get(f)))}): the subset "
                                 f"construction merges two different symbols")
                        bad = True
                        break
                elif it.model_hash(b) is None:
                    pass
            if bad:
                all_decided = False
                continue
            if n:
                facts.append("different arguments: unequal")
            for other in concrete:
                if other is ci or ci in other.mro() or other in ci.mro():
                    continue
                d = build(other, ["p", "q", "s"])
                if it.equal(a1, d) or it.equal(d, a1):
                    ctx.viol("R3", f"{ci.name}/eq-own-class", prj.func(ci.find_method("__eq__").qual).site(),
                             f"{ci.name}.__eq__ does not restrict equality to {ci.name} instances: a {ci.name} equals a {other.name} built from the same arguments")
                    bad = True
                    break
            if bad:
                all_decided = False
                continue
            facts.append(f"never equal to an instance of the {len(concrete) - 1} other classes")
            # equal => same hash also for predicates that have been used: every state reached by accept() on up to three tokens
            # (the two argument values and an unrelated name)
            try:
                from ..absint import make_token
                import itertools
                alphabet = [("Punctuation", "p"), ("Punctuation", "q"), ("Name", "z")]
                acc_m = prj.func(ci.find_method("accept").qual, raw=True)
                reached = [((), a1)]
                for k in (1, 2, 3):
                    for seq in itertools.product(range(3), repeat=k):
                        o = build(ci, ["p", "q", "s"])
                        for j in seq:
                            it.call(acc_m, [make_token(it, prj, alphabet[j][0], alphabet[j][1])], {}, o)
                        reached.append((seq, o))
                small = [r for r in reached if len(r[0]) <= 2]
                pairs = [(reached[0], r) for r in reached[1:]] + [(x, y) for x in small for y in small if x is not y and x[0] < y[0]]
                for (sx, x), (sy, y) in pairs:
                    if it.equal(x, y) and it.model_hash(x) != it.model_hash(y):
                        hs = ci.find_method("__hash__")
                        words = lambda sq: "[" + " ".join(alphabet[j][1] for j in sq) + "]" if sq else "no token"
                        ea, ha = _self_attrs(prj.func(ci.find_method("__eq__").qual).node, ci, prj), _self_attrs(prj.func(hs.qual).node, ci, prj)
                        ctx.viol("R3", f"{ci.name}/hash-subset", hs.site(),
                                 f"a {ci.name} that has accepted {words(sx)} and one that has accepted {words(sy)} compare equal but hash differently"
                                 + (f" (__hash__ reads {sorted(ha - ea)}, which __eq__ does not compare)" if ha - ea else "")
                                 + ": sets and dictionaries of the subset construction treat equal symbols as different")
                        bad = True
                        break
                if bad:
                    all_decided = False
                    continue
                facts.append(f"equal => same hash over {len(reached)} states reached by accept()")
            except (Unknown, PyRaise) as e:
                facts.append(f"used instances not evaluable ({e})")
            ctx.ok("R3", site, f"{ci.name}: " + "; ".join(facts))
        except (Unknown, PyRaise) as e:
            ctx.info(f"R3: {ci.name} not evaluable ({type(e).__name__}: {e}); the structural rule decides")
            all_decided = False
    return all_decided and not any(v.rule == "R3" for v in ctx.violations)


def rule_R3_both(ctx, prj: Project):
    mark = len(ctx.violations)
    decided = rule_R3_evaluated(ctx, prj)
    if len(ctx.violations) > mark:
        return          # positively wrong behaviour was observed; the structural reading adds nothing
    ctx.complement("R3", lambda: rule_R3(ctx, prj, declare=False), decided, demote=True, by="the evaluated predicate equality (R3)")


# ----------------------------------------------------------------------------
# R4 subset construction shape, R5 match / starts_with shape
# ----------------------------------------------------------------------------

def rule_R4(ctx, prj: Project):
    ctx.rule("R4", "subset construction: start = eps-closure(nfa.start); a DFA state is accepting iff nfa.accepting is in "
                   "its set; for every symbol of state_set_transitions(T) the target is eps-closure(move(T, symbol)); "
                   "move collects targets of transitions whose symbol == the given one; sets are identified by "
                   "state_set_id", floor=5)
    fi = prj.func(f"{GSM}.Expression:nfa_to_dfa")

    def closure_like(call) -> bool:
        """a call of a project function that (transitively) follows epsilon edges"""
        tg, kind = prj.resolve_call(fi, call)
        for t in tg:
            todo, seen = [t], set()
            while todo:
                f2 = todo.pop()
                if f2.qual in seen:
                    continue
                seen.add(f2.qual)
                if any(isinstance(x, ast.Attribute) and x.attr == "epsilon_transitions" for x in f2.walk()):
                    return True
                for c2 in f2.calls():
                    todo.extend(x for x in prj.resolve_call(f2, c2)[0] if x.module.name.startswith(GSM))
        return False
    # (a) start closure
    starts = [n for n in fi.walk() if isinstance(n, ast.Call) and closure_like(n)
              and n.args and unparse(n.args[0]) == "nfa.start"]
    if starts:
        ctx.ok("R4", fi.site(starts[0]), f"nfa_to_dfa: initial set = {unparse(starts[0].func)}(nfa.start) (an epsilon-closure function, see R2)")
    else:
        ctx.viol("R4", "nfa_to_dfa/start-closure", fi.site(), "the initial state set is not an epsilon closure of nfa.start")
    # (b) accepting test
    accs = [n for n in fi.walk() if isinstance(n, ast.If) and isinstance(n.test, ast.Compare) and len(n.test.ops) == 1
            and isinstance(n.test.ops[0], ast.In) and unparse(n.test.left) == "nfa.accepting"]
    good = [n for n in accs if any(isinstance(c, ast.Call) and isinstance(c.func, ast.Attribute) and c.func.attr == "append"
                                   and "accepting" in unparse(c.func.value) for c in ast.walk(n))]
    if good:
        ctx.ok("R4", fi.site(good[0]), "nfa_to_dfa: state appended to accepting_states iff nfa.accepting in T")
    else:
        ctx.viol("R4", "nfa_to_dfa/accepting", fi.site(), "accepting DFA states are not selected by `nfa.accepting in T`")
    # (c) target of a transition
    tgt_ok = False
    moves = [n for n in fi.walk() if isinstance(n, ast.Call) and attr_chain(n.func) == "move" and len(n.args) == 2]
    for mv_call in moves:
        loopvars = [unparse(l.target) for l in enclosing(fi, mv_call, ast.For)]
        if unparse(mv_call.args[1]) not in loopvars:
            continue
        # the moved set must pass through an epsilon-closure function: directly as its
        # argument, or element-wise in a loop over move(...)
        par = fi.parents.get(mv_call)
        direct = isinstance(par, ast.Call) and closure_like(par)
        via_name = False
        holder = fi.parents.get(mv_call)
        if isinstance(holder, ast.Assign) and isinstance(holder.targets[0], ast.Name):
            nm = holder.targets[0].id
            via_name = any(isinstance(c, ast.Call) and closure_like(c) and any(unparse(a) == nm for a in c.args) for c in fi.calls())
        loop_over = isinstance(par, ast.For) and par.iter is mv_call and any(
            isinstance(c, ast.Call) and closure_like(c) and any(unparse(a) == unparse(par.target) for a in c.args) for c in ast.walk(par))
        if direct or via_name or loop_over:
            tgt_ok = True
            ctx.ok("R4", fi.site(mv_call), f"nfa_to_dfa: target set = epsilon closure of move({unparse(mv_call.args[0])}, {unparse(mv_call.args[1])})")
    if not tgt_ok:
        ctx.viol("R4", "nfa_to_dfa/target", fi.site(), "transition targets are not the epsilon closure of move(T, symbol) for the loop's symbol")
    # (d) loop over state_set_transitions(T)
    loops = [l for l in fi.walk() if isinstance(l, ast.For)]
    it_ok = any("state_set_transitions(" in unparse(expand(fi, l.iter)) for l in loops)
    if it_ok:
        ctx.ok("R4", fi.site(), "nfa_to_dfa: symbols iterated = state_set_transitions(T)")
    else:
        ctx.viol("R4", "nfa_to_dfa/symbols", fi.site(), "the symbols of a DFA state are not state_set_transitions(T)")
    # (e) move
    mv = prj.func(f"{GSM}.Expression:move")
    ok = False
    for n in mv.walk():
        if isinstance(n, ast.Call) and isinstance(n.func, ast.Attribute) and n.func.attr == "add" and n.args:
            gs = guards_of(mv, n)
            tests = [unparse(g.test) for g in gs if g.polarity]
            sym = [p for p in mv.params()][1] if len(mv.params()) > 1 else "symbol"
            tgt = unparse(n.args[0])
            if any(("== " + sym) in t or (sym + " ==") in t for t in tests) and tgt.endswith("[1]"):
                ok = True
                ctx.ok("R4", mv.site(n), f"move: adds {tgt} under {tests}")
    if not ok:
        ctx.viol("R4", "move/selection", mv.site(), "move does not add transition[1] exactly for transitions whose symbol equals the argument")


def _stmt_kinds(stmts):
    return [type(s).__name__ for s in stmts]


def rule_R5(ctx, prj: Project):
    ctx.rule("R5", "match reports a pattern only after all items were consumed and the state is accepting, and gives up "
                   "at the first item without transition; starts_with returns at the first accepting state after at "
                   "least one item (shortest non-empty prefix) and None otherwise", floor=2)
    for name, inside in (("match", False), ("starts_with", True)):
        fi = prj.func(f"{GSM}.matcher:{name}")
        loops = [l for l in fi.node.body if isinstance(l, ast.For)]
        if len(loops) != 1:
            raise AnalysisError(f"{fi.disp}: expected one top-level loop over the sequence")
        lp = loops[0]
        body = lp.body
        # 1st: consume; failure -> return None
        cons = [i for i, s in enumerate(body) if any(isinstance(c, ast.Call) and isinstance(c.func, ast.Attribute) and c.func.attr == "consume" for c in ast.walk(s))]
        fail_ret = [i for i, s in enumerate(body) if isinstance(s, ast.If) and any(isinstance(r, ast.Return) and (r.value is None or (isinstance(r.value, ast.Constant) and r.value.value is None)) for r in s.body)]
        acc_ret_in = [i for i, s in enumerate(body) if isinstance(s, ast.If) and "is_accepting" in unparse(s.test)
                      and any(isinstance(r, ast.Return) and r.value is not None and not (isinstance(r.value, ast.Constant) and r.value.value is None) for r in ast.walk(s))]
        after = fi.node.body[fi.node.body.index(lp) + 1:]
        acc_after = [s for s in after if isinstance(s, ast.If) and "is_accepting" in unparse(s.test)]
        ok = bool(cons) and bool(fail_ret) and cons[0] <= fail_ret[0]
        msg = []
        if not ok:
            msg.append("an item without transition does not end the attempt with None right after consume")
        if inside:
            if not acc_ret_in or not (cons and cons[0] < acc_ret_in[0]):
                msg.append("starts_with does not return at the first accepting state after consuming an item")
            tail_none = after and isinstance(after[-1], ast.Return) and (after[-1].value is None or (isinstance(after[-1].value, ast.Constant) and after[-1].value.value is None))
            if not tail_none:
                msg.append("starts_with does not return None when no prefix matched")
        else:
            if acc_ret_in:
                msg.append("match returns from inside the loop (a prefix would count as a full match)")
            if not acc_after:
                msg.append("match does not test is_accepting() after the last item")
            else:
                s = acc_after[0]
                pos = any(isinstance(r, ast.Return) and r.value is not None and not (isinstance(r.value, ast.Constant) and r.value.value is None) for r in s.body)
                neg_ok = (not s.orelse and any(isinstance(r, ast.Return) for r in after[after.index(s) + 1:])) or \
                    any(isinstance(r, ast.Return) and (r.value is None or (isinstance(r.value, ast.Constant) and r.value.value is None)) for r in s.orelse) or not s.orelse
                if not pos:
                    msg.append("match does not return the pattern when accepting")
        if msg:
            ctx.viol("R5", f"{name}/shape", fi.site(), "; ".join(msg))
        else:
            ctx.ok("R5", fi.site(), f"{name}: consume -> None on failure -> "
                   + ("return at first accepting state inside the loop, None after it" if inside else "accepting test after the loop"))


def run(ctx, prj: Project):
    ctx.explanation = (
        "Structural part of C13. R1 interprets each Operator.apply symbolically (states created, epsilon lists, "
        "State.assign aliasing, sub-automata as black boxes) and decides language equality of the resulting fragment "
        "with the operator's regular expression by DFA equivalence; R2 demands visited guards in every edge-following "
        "recursion/worklist; R3 checks predicate __eq__/__hash__ coherence; R4/R5 check the shape of the subset "
        "construction and of match/starts_with. The functional correctness of matching on inputs is NOT decided.")
    ctx.not_decided = ["match <=> membership in the pattern's language for all patterns and sequences (algorithmic correctness)",
                       "agreement of nfa_match and match on all inputs"]
    ctx.trust("sub-automata obey the Thompson invariants (fresh start without incoming and fresh accepting state without outgoing edges), "
              "which R1 re-establishes for every operator's own result")
    evaluated = rule_R7_engine(ctx, prj, full=(ctx.tier == "thorough"))
    if evaluated == "violation":
        rule_R3_both(ctx, prj)
        return
    if evaluated == "ok":
        # the engine as a whole was decided by evaluation; the structural rules that remain are the ones evaluation
        # does not cover: termination guards (R2) and predicate equality/hash coherence (R3)
        ctx.complement("R2", lambda: rule_R2(ctx, prj), True, demote=True,
                       by="the evaluated engine (R7), which terminated on every pattern of the family, also those whose automata contain epsilon cycles")
        rule_R3_both(ctx, prj)
        if ctx.tier != "thorough":
            # cheap complement: the full depth-3 family through the symbolic fragments, when the operators are written in
            # the fragment that extraction understands (the thorough tier evaluates that family through R7 itself)
            from ..patterns import Unsupported
            try:
                rule_R6_composition(ctx, prj)
            except Exception as e:      # the symbolic composition is only a complement: any form it cannot read is skipped
                ctx.rule("R6", "symbolic composition not applicable to this form of the operators (R7 decides)", floor=0)
                ctx.info(f"R6 composition skipped: {e}")
        return
    rule_R1(ctx, prj)
    rule_R2(ctx, prj)
    rule_R3_both(ctx, prj)
    rule_R4(ctx, prj)
    rule_R5(ctx, prj)
    rule_R6_composition(ctx, prj)


def corpus(full: bool):
    A = Pat("atom", pred=Pred("Identity", ("a",)))
    B = Pat("atom", pred=Pred("Identity", ("b",)))
    lvl0 = [A, B]

    def grow(xs, pool):
        out = []
        for x in xs:
            for op in ("opt", "star", "plus"):
                out.append(Pat(op, [x]))
        for x in xs:
            for y in pool:
                out.append(Pat("seq", [x, y]) if x.op != "seq" and y.op != "seq" else None)
                out.append(Pat("union", [x, y]))
        return [o for o in out if o is not None]
    lvl1 = grow(lvl0, lvl0)
    if not full:
        # quick: every operator over every depth-1 operand, and every binary combination of depth-1 trees with atoms
        lvl2 = [Pat(op, [x]) for x in lvl1 for op in ("opt", "star", "plus")] + \
            [Pat("seq", [x, y]) for x in lvl1 for y in lvl0 if x.op != "seq"] + [Pat("seq", [y, x]) for x in lvl1 for y in lvl0 if x.op != "seq"] + \
            [Pat("union", [x, y]) for x in lvl1 for y in lvl0] + [Pat("union", [y, x]) for x in lvl1 for y in lvl0]
        # depth 3, one atom per position: a repetition / option around a sequence or union that begins or ends with one
        un = ("opt", "star", "plus")
        inner = [Pat("seq", [Pat(u, [A]), B]) for u in un] + [Pat("seq", [A, Pat(u, [B])]) for u in un] + \
            [Pat("union", [Pat(u, [A]), B]) for u in un] + [Pat(u, [Pat(v, [A])]) for u in un for v in un]
        lvl3 = [Pat(o, [x]) for x in inner for o in un]
        return lvl0 + lvl1 + lvl2 + lvl3
    lvl2 = grow(lvl1, lvl0 + lvl1) + [Pat("seq", [x, y]) for x in lvl0 for y in lvl1 if y.op != "seq"] + [Pat("union", [x, y]) for x in lvl0 for y in lvl1]
    lvl3 = [Pat(op, [x]) for x in lvl2 for op in ("opt", "star", "plus")]
    return lvl0 + lvl1 + lvl2 + lvl3


def rule_R7_engine(ctx, prj: Project, full: bool) -> str:
    """-> 'ok' | 'violation' | 'fallback'"""
    from ..absint import BoundFunc, MiniInterp, PyRaise, Sym, Unknown
    from ..engine_eval import Engine, is_deterministic, language_dfa, reference_dfa, shortest_difference
    ctx.rule("R7", "the engine evaluated: for every pattern tree over {a, b} of the bounded family, the repo's own "
                   "expression_to_nfa and nfa_to_dfa - interpreted from source on the repo's own operator objects - yield a "
                   "deterministic automaton whose language equals the tree's regular language (DFA equivalence with the "
                   "reference construction); match reports exactly the words of the language and starts_with the shortest "
                   "non-empty prefix in it, for all sequences up to length 3", floor=50)
    alphabet = ("a", "b")
    trees = corpus(full)
    eng = Engine(prj)
    n = 0
    bad = None
    dfas = {}
    try:
        for p in trees:
            n += 1
            d = eng.dfa(p)
            g = eng.graph(d)
            det = is_deterministic(g[2], g[3])
            if det:
                bad = bad or (p, f"the automaton built by nfa_to_dfa is not deterministic: {det}")
                continue
            L = language_dfa(*g, alphabet)
            R = reference_dfa(p, alphabet)
            diff = shortest_difference(L, R, alphabet)
            ctx.obligations += 1
            if diff is not None:
                w, got_acc = diff
                bad = bad or (p, f"it {'accepts' if got_acc else 'rejects'} the word [{' '.join(w) or 'ε'}] although that word is "
                                 f"{'not in' if got_acc else 'in'} the pattern's language")
            else:
                ctx.discharged += 1
                dfas[id(p)] = (p, R)
    except (Unknown, PyRaise) as e:
        ctx.info(f"engine not evaluable ({type(e).__name__}: {e}) on tree #{n}; falling back to the structural rules")
        ctx.rule("R7", "engine not evaluable by the interpreter: structural rules R1, R4, R5, R6 apply instead", floor=0)
        return "fallback"
    # operator objects used more than once: at two positions of one expression, and in two expressions compiled one
    # after the other (a sub-pattern bound to a name and reused) - every compilation must denote the tree's language
    nshared = 0
    try:
        if not bad:
            A, B = trees[0], trees[1]
            fam = []
            for op in ("opt", "star", "plus"):
                X = Pat(op, [A])
                fam.append([Pat("seq", [X, B, X])])
                fam.append([Pat("union", [X, Pat("seq", [B, X])])])
                fam.append([Pat("seq", [X, B]), Pat("seq", [X]), Pat("seq", [X, B])])
                fam.append([Pat("seq", [B, X]), Pat("seq", [X, A]), Pat("seq", [X])])
                Y = Pat(op, [Pat("seq", [A, B])])
                fam.append([Pat("seq", [Y, A, Y]), Pat("seq", [Y])])
            U = Pat("union", [A, B])
            fam.append([Pat("seq", [U, A, U]), Pat("seq", [U, U])])
            for group in fam:
                shared: dict = {}
                for k, p in enumerate(group):
                    nshared += 1
                    d = eng.dfa_of(eng.expr(p, shared))
                    g = eng.graph(d)
                    det = is_deterministic(g[2], g[3])
                    diff = None if det else shortest_difference(language_dfa(*g, alphabet), reference_dfa(p, alphabet), alphabet)
                    ctx.obligations += 1
                    how = ("one operator object at two positions of the expression" if k == 0 else
                           f"an operator object already used in {k} expression(s) compiled before")
                    if det:
                        bad = bad or (p, f"({how}) the automaton built by nfa_to_dfa is not deterministic: {det}")
                    elif diff is not None:
                        w, got_acc = diff
                        bad = bad or (p, f"({how}) it {'accepts' if got_acc else 'rejects'} the word [{' '.join(w) or 'ε'}] although "
                                         f"that word is {'not in' if got_acc else 'in'} the pattern's language")
                    else:
                        ctx.discharged += 1
    except (Unknown, PyRaise) as e:
        ctx.info(f"engine not evaluable on re-used operator objects ({type(e).__name__}: {e}); that part is not decided")
        nshared = 0
    if bad:
        p, msg = bad
        ctx.viol("R7", "engine/" + repr(p)[:80], eng.n2d.site(), f"for the pattern {p!r}: {msg}")
        return "violation"
    if nshared:
        ctx.ok("R7", eng.e2n.site(), f"{nshared} compilations of expressions that re-use an operator object (two positions / "
                                     f"successive expressions): every one denotes its tree's language")
    ctx.instances.setdefault("R7", []).extend(dict(site=eng.e2n.site(), what=f"tree #{i}", verdict="ok") for i in range(n))
    ctx.lines.append(f"OK rule=R7 site={eng.e2n.site()} construct=engine trees={n} all deterministic and language-equivalent")
    ctx.extra["engine_trees"] = n
    # match / starts_with on a subset (every operator at the root, nullable and non-nullable operands)
    seqs = [()] + [(x,) for x in alphabet] + [(x, y) for x in alphabet for y in alphabet] + [(x, y, z) for x in alphabet for y in alphabet for z in alphabet]
    subset = [t for t in trees if t.op != "atom"][: (60 if full else 16)] + trees[:2]
    mt = prj.func(f"{GSM}.matcher:match")
    sw = prj.func(f"{GSM}.matcher:starts_with")
    checked = 0
    badm = None
    try:
        for p in subset:
            _, R = reference_dfa(p, alphabet), None
            states, s0, acc, delta = reference_dfa(p, alphabet)

            def in_lang(w):
                st = s0
                for c in w:
                    st = delta[(st, c)]
                return st in acc
            expr = eng.expr(p)
            cache = {}

            def hook(it, kind, f, args, kwargs, node, cur):
                if kind == "call" and isinstance(f, BoundFunc) and f.fi.qual == eng.e2n.qual and args and args[0] is expr:
                    if "nfa" not in cache:
                        cache["nfa"] = MiniInterp(prj, max_steps=400000, max_depth=60).call(eng.e2n, [expr], {})
                    return cache["nfa"]
                if kind == "call" and isinstance(f, BoundFunc) and f.fi.qual == eng.n2d.qual and args and args[0] is cache.get("nfa"):
                    if "dfa" not in cache:
                        cache["dfa"] = MiniInterp(prj, max_steps=400000, max_depth=60).call(eng.n2d, [args[0]], {})
                    return cache["dfa"]
                return NotImplemented
            for w in seqs:
                for fn, name in ((mt, "match"), (sw, "starts_with")):
                    it = MiniInterp(prj, hook, max_steps=200000, max_depth=60)
                    r = it.call(fn, [expr, list(w)], {})
                    checked += 1
                    if name == "match":
                        want = len(w) if in_lang(w) else None
                    else:
                        ks = [k for k in range(1, len(w) + 1) if in_lang(w[:k])]
                        want = ks[0] if ks else None
                    got = None
                    if r is not None:
                        if not isinstance(r, Sym):
                            raise Unknown(f"{name} returns {r!r}")
                        got = r.fields.get("end")
                        toks = r.fields.get("tokens")
                        if isinstance(toks, list) and got is not None and list(toks) != list(w[:got]) and badm is None:
                            badm = (name, p, w, f"records the items {toks} for a match of length {got}")
                    if got != want and badm is None:
                        badm = (name, p, w, f"{'reports a match ending at ' + str(got) if got is not None else 'reports no match'}; required "
                                            f"{'a match ending at ' + str(want) if want is not None else 'no match'}")
    except (Unknown, PyRaise) as e:
        ctx.info(f"match/starts_with not evaluable ({type(e).__name__}: {e}); structural rule R5 applies")
        rule_R5(ctx, prj)
        return "ok"
    ctx.obligations += checked
    if badm:
        name, p, w, msg = badm
        ctx.viol("R7", f"{name}/" + repr(p)[:60], (mt if name == "match" else sw).site(), f"{name}({p!r}, [{' '.join(w)}]) {msg}")
        return "violation"
    ctx.discharged += checked
    ctx.ok("R7", mt.site(), f"match / starts_with agree with the language on {checked} (pattern, sequence) pairs (sequences up to length 3)")
    return "ok"


def rule_R6_composition(ctx, prj: Project, depth2_full=True):
    """thorough: compose the extracted apply() fragments (no black boxes) for every pattern tree of a bounded
    family and compare the composed automaton's language with the regular expression's"""
    from ..patterns import Composer, pat_to_regex
    ctx.rule("R6", "composition: for every pattern tree over {a, b} up to nesting depth 2 (all operators at all positions) and "
                   "all unary operators applied to those (depth 3), the automaton obtained by composing the repo's own "
                   "Operator.apply fragments exactly as expression_to_nfa does denotes the tree's regular language "
                   "(DFA equivalence with the reference construction)", floor=500)
    A = Pat("atom", pred=Pred("Identity", ("a",)))
    B = Pat("atom", pred=Pred("Identity", ("b",)))
    lvl0 = [A, B]

    def grow(xs, pool):
        out = []
        for x in xs:
            for op in ("opt", "star", "plus"):
                out.append(Pat(op, [x]))
        for x in xs:
            for y in pool:
                out.append(Pat("seq", [x, y]) if x.op != "seq" and y.op != "seq" else None)
                out.append(Pat("union", [x, y]))
        return [o for o in out if o is not None]
    lvl1 = grow(lvl0, lvl0)
    lvl2 = grow(lvl1, lvl0 + lvl1) + [Pat("seq", [x, y]) for x in lvl0 for y in lvl1 if y.op != "seq"] + [Pat("union", [x, y]) for x in lvl0 for y in lvl1]
    lvl3 = [Pat(op, [x]) for x in lvl2 for op in ("opt", "star", "plus")]
    comp = Composer(prj)
    labels = {"a", "b"}
    n = bad = 0
    first = None
    for p in lvl0 + lvl1 + lvl2 + lvl3:
        n += 1
        ctx.obligations += 1
        got = comp.dfa(p, labels)
        want = regex_dfa(pat_to_regex(p), labels)
        w = dfa_difference(got, want, labels)
        if w is None:
            ctx.discharged += 1
        else:
            bad += 1
            if first is None:
                first = (p, w, (tuple(w) in _accepted_words(want)))
    ctx.extra["composition_trees"] = n
    if bad:
        p, w, in_lang = first
        ctx.viol("R6", "composition/" + repr(p)[:80], "codelimit/common/gsm/operator",
                 f"{bad} of {n} composed patterns denote a wrong language; smallest: {p!r} {'rejects' if in_lang else 'accepts'} the word "
                 f"[{' '.join(w) or 'ε'}] although it is {'in' if in_lang else 'not in'} the pattern's language")
    else:
        for i in range(n):
            pass
        ctx.instances["R6"].extend(dict(site="codelimit/common/gsm/operator", what=f"tree #{i}", verdict="ok") for i in range(n))
        ctx.lines.append(f"OK rule=R6 site=codelimit/common/gsm/operator construct=composition trees={n} all equivalent")


def _accepted_words(dfa, maxlen=6):
    start, trans, accs = dfa
    out = set()
    todo = [(start, ())]
    while todo:
        st, w = todo.pop()
        if st in accs:
            out.add(w)
        if len(w) >= maxlen:
            continue
        for (s, l), t in trans.items():
            if s == st:
                todo.append((t, w + (l,)))
    return out


def run_thorough(ctx, prj: Project):
    # enumerate compositions of the operators to nesting depth 3 and list those whose
    # epsilon graph is cyclic: shows R2's guard is necessary, not decorative
    ctx.rule("R2-cycles", "compositions of the operators (depth <= 3, one atom) whose Thompson fragment has an epsilon cycle")
    atom = Pat("atom", pred=Pred("Identity", ("a",)))
    level = [atom]
    allp = [atom]
    for d in range(3):
        nxt = []
        for p in level:
            for op in ("opt", "star", "plus"):
                nxt.append(Pat(op, [p]))
            nxt.append(Pat("seq", [p, atom]))
            nxt.append(Pat("union", [p, atom]))
        allp.extend(nxt)
        level = nxt
    cyc = [p for p in allp if p.has_eps_cycle()]
    for p in cyc[:60]:
        ctx.instances["R2-cycles"].append(dict(site="model", what=repr(p), verdict="ok"))
    ctx.extra["compositions_enumerated"] = len(allp)
    ctx.extra["compositions_with_epsilon_cycle"] = len(cyc)
    ctx.info(f"{len(cyc)} of {len(allp)} operator compositions up to depth 3 contain an epsilon cycle, e.g. {cyc[0]!r}")
