"""C08 - The report document is always valid JSON and round-trips losslessly (structure of writer and reader)."""
from __future__ import annotations

import ast
import copy

from ..core import AnalysisError, FuncInfo, Project, attr_chain, const_str, expand, local_defs, term, unparse
from ..intdec import Specializer
from ..jsonio import LAYOUT_HELPERS, Reader, Writer, tree_paths

REQUIRED_ESCAPES = ['"', "\\"] + [chr(i) for i in range(0x20)]


def rule_R1(ctx, prj, w: Writer):
    ctx.rule("R1", "every value the writer pastes into the document is either produced by json.dumps (directly or "
                   "through a wrapper all of whose returns are dumps(<param>)), or has int / list-of-int type by the "
                   "declarations of the class it is read from; no placeholder sits between hand-written double quotes",
             floor=26)
    n_str = 0
    for m, node, expr, inq, cls in w.placeholders():
        key = f"{m.name}/{unparse(expr)[:60]}"
        if inq:
            n_str += 1
            ctx.viol("R1", key, m.site(node),
                     f"placeholder {{{unparse(expr)}}} is pasted between hand-written double quotes without escaping: a quote, "
                     f"backslash or control character in it yields a document that is not JSON")
            continue
        if cls == "escaped":
            n_str += 1
            ctx.ok("R1", m.site(node), f"{key}: string emitted through json.dumps")
        elif cls == "numeric":
            ctx.ok("R1", m.site(node), f"{key}: int / list[int] by declaration")
        elif cls == "fragment":
            ctx.ok("R1", m.site(node), f"{key}: JSON text produced by another writer method")
        elif cls.startswith("custom:"):
            n_str += 1
            f = prj.funcs[cls[7:]]
            missing = _translate_table_missing(f)
            if missing is None:
                raise AnalysisError(f"{m.site(node)}: {unparse(expr)} is formatted by {f.local}, which is neither a json.dumps "
                                    f"wrapper nor a recognisable translate-table escaper")
            if missing:
                ctx.viol("R1", f"{f.local}/incomplete-escaping", f.site(),
                         f"strings are escaped by the hand-written table of {f.local}, which leaves "
                         f"{', '.join(repr(c) for c in missing[:8])}{'…' if len(missing) > 8 else ''} unescaped: JSON forbids "
                         f"raw control characters U+0000-U+001F inside strings (used for {key})")
            else:
                ctx.ok("R1", m.site(node), f"{key}: escaped by a complete translate table")
        elif cls == "string":
            n_str += 1
            ctx.viol("R1", key, m.site(node), f"string-typed value {{{unparse(expr)}}} is emitted bare (neither quoted nor escaped)")
        else:
            raise AnalysisError(f"{m.site(node)}: cannot type placeholder {{{unparse(expr)}}} in ReportWriter.{m.name}")
    # direct (non f-string) emissions: self._line(X) with X not a string assembly
    for m in w.ci.methods.values():
        for c in m.calls():
            if isinstance(c.func, ast.Attribute) and c.func.attr in ("_line", "_open", "_close") and c.args:
                a = c.args[0]
                if isinstance(a, (ast.JoinedStr, ast.Constant, ast.BinOp)) or (isinstance(a, ast.Name) and a.id in ("json", "text")):
                    continue
                if w.is_escaped(m, a):
                    n_str += 1
                    ctx.ok("R1", m.site(c), f"{m.name}/{unparse(a)[:50]}: whole line is a json.dumps string")
                else:
                    tg, _ = prj.resolve_call(m, a) if isinstance(a, ast.Call) else ([], "")
                    if tg and tg[0].module is w.ci.module and tg[0].cls is None:
                        missing = _translate_table_missing(tg[0])
                        if missing:
                            n_str += 1
                            ctx.viol("R1", f"{tg[0].local}/incomplete-escaping", tg[0].site(),
                                     f"{tg[0].local} leaves {', '.join(repr(x) for x in missing[:8])}… unescaped")
                            continue
                    raise AnalysisError(f"{m.site(c)}: {unparse(a)} handed to {c.func.attr} is not a recognised string form")
    if n_str < 14:
        raise AnalysisError(f"only {n_str} string-valued emissions recognised (14 confirmed by reading)")


def _translate_table_missing(f: FuncInfo):
    """For a hand-written escaper based on str.translate with a literal table:
    the required characters it does not map.  None if the function is not of that form."""
    txt = unparse(f.node)
    if ".translate(" not in txt:
        return None
    tables = []
    for name, val in f.module.assigns.items():
        if isinstance(val, ast.Call) and (attr_chain(val.func) or "").endswith("maketrans") and val.args and isinstance(val.args[0], ast.Dict):
            if name in txt:
                tables.append(val.args[0])
    for n in f.walk():
        if isinstance(n, ast.Call) and (attr_chain(n.func) or "").endswith("maketrans") and n.args and isinstance(n.args[0], ast.Dict):
            tables.append(n.args[0])
    if not tables:
        return None
    keys = set()
    for d in tables:
        for k in d.keys:
            if isinstance(k, ast.Constant) and isinstance(k.value, str) and len(k.value) == 1:
                keys.add(k.value)
            elif isinstance(k, ast.Constant) and isinstance(k.value, int):
                keys.add(chr(k.value))
            else:
                return None
    return [c for c in REQUIRED_ESCAPES if c not in keys]


def rule_R2(ctx, prj, w: Writer, r: Reader):
    ctx.rule("R2", "every key path the reader subscripts exists in the key tree the writer emits, at the same nesting; "
                   "the writer's repository keys are fields of GithubRepository (it is rebuilt with **d['repository'])",
             floor=15)
    doc, txt = w.key_tree()
    wpaths = tree_paths(doc)
    ctx.extra["writer_key_paths"] = sorted("/".join(p) for p in wpaths)
    fns = r.functions() + [prj.func("codelimit.common.report.ReportReader:ReportReader.get_report_version")]
    seen = set()
    for f in fns:
        for p, node in r.key_paths(f):
            if (f.name, p) in seen:
                continue
            seen.add((f.name, p))
            if p in wpaths:
                ctx.ok("R2", f.site(node), f"{f.name} reads {'/'.join(p)}: emitted by the writer")
            else:
                ctx.viol("R2", f"{f.name}/{'/'.join(p)}", f.site(node),
                         f"the reader reads key path {'/'.join(p)}, which the writer never emits at that nesting "
                         f"(KeyError on every document, or a silently ignored field)")
    # repository keys subset of dataclass fields
    repo_keys = {p[1] for p in wpaths if len(p) == 2 and p[0] == "repository"}
    gh = prj.cls("codelimit.common.GithubRepository:GithubRepository")
    fields = {st.target.id for st in gh.node.body if isinstance(st, ast.AnnAssign) and isinstance(st.target, ast.Name)}
    if repo_keys <= fields:
        ctx.ok("R2", f"{gh.module.rel}:{gh.node.lineno}", f"writer repository keys {sorted(repo_keys)} are fields of GithubRepository")
    else:
        ctx.viol("R2", "repository/keys", f"{gh.module.rel}:{gh.node.lineno}",
                 f"the writer emits repository keys {sorted(repo_keys - fields)} that GithubRepository(**...) does not accept")
    return wpaths


def rule_R3(ctx, prj, w: Writer, r: Reader):
    ctx.rule("R3", "version, uuid, root and repository written from the report are restored unmodified by from_json "
                   "(timestamp is exempt by the property's wording): assigned from the same key without a fallback to "
                   "the running tool's value", floor=4)
    fj = prj.func("codelimit.common.report.ReportReader:ReportReader.from_json")
    dv = r.doc_var(fj)
    if dv is None:
        raise AnalysisError("from_json: parsed document not found")
    d = dv[0]
    rep_init = prj.func("codelimit.common.report.Report:Report.__init__")

    def reads_key(expr, key) -> str:
        """'faithful' if expr is d[key] / d.get(key) / (d[key] if key in d else None); 'fallback' if it adds another default"""
        e = expr
        t = unparse(e)
        forms = {f"{d}['{key}']", f"{d}.get('{key}')", f"{d}.get('{key}', None)",
                 f"{d}['{key}'] if '{key}' in {d} else None", f"None if '{key}' not in {d} else {d}['{key}']"}
        if t in forms:
            return "faithful"
        if f"'{key}'" in t and d in t:
            return "fallback"
        return "none"
    for attr, key in (("version", "version"), ("uuid", "uuid")):
        status = "none"
        site = fj.site()
        # (a) direct attribute assignment on the report object
        for n in fj.walk():
            if isinstance(n, ast.Assign) and len(n.targets) == 1 and isinstance(n.targets[0], ast.Attribute) and n.targets[0].attr == attr:
                s = reads_key(expand(fj, n.value, skip=(d,)), key)
                if s != "none":
                    status, site = s, fj.site(n)
        # (b) through the constructor
        if status == "none":
            for c in fj.calls():
                if attr_chain(c.func) == "Report":
                    for k in c.keywords:
                        if k.arg == attr:
                            s = reads_key(expand(fj, k.value, skip=(d,)), key)
                            if s == "faithful":
                                # the constructor must store the parameter as is
                                stores = [n for n in rep_init.walk() if isinstance(n, (ast.Assign, ast.AnnAssign))
                                          and unparse(n.targets[0] if isinstance(n, ast.Assign) else n.target) == f"self.{attr}"]
                                if stores and all(unparse(n.value) == attr for n in stores):
                                    status, site = "faithful", fj.site(c)
                                else:
                                    status, site = "fallback", rep_init.site(stores[0]) if stores else rep_init.site()
                            elif s != "none":
                                status, site = s, fj.site(c)
        if status == "faithful":
            ctx.ok("R3", site, f"from_json restores report.{attr} from the document's '{key}' (None when absent)")
        elif status == "fallback":
            ctx.viol("R3", f"from_json/{attr}", site,
                     f"report.{attr} is taken from the document only when it is truthy/present and otherwise replaced by a "
                     f"default of the running tool: a document without (or with an empty) '{key}' does not round-trip"
                     + (" and the scan cache's version guard accepts it" if attr == "version" else ""))
        else:
            ctx.viol("R3", f"from_json/{attr}", site,
                     f"report.{attr} is not restored from the document: the re-read report carries the running tool's value"
                     + (" (this also disables the version guard of the scan cache)" if attr == "version" else ""))
    # root
    cbs = [c for c in fj.calls() if attr_chain(c.func) == "Codebase"]
    if cbs and any(c.args and reads_key(expand(fj, c.args[0], skip=(d,)), "root") == "faithful" for c in cbs):
        ctx.ok("R3", fj.site(cbs[0]), "from_json builds Codebase(d['root'])")
    else:
        ctx.viol("R3", "from_json/root", fj.site(), "the codebase root is not restored from the document's 'root'")
    # repository
    gh = [c for c in fj.calls() if attr_chain(c.func) == "GithubRepository"]
    ok = False
    for c in gh:
        for k in c.keywords:
            if k.arg is None and reads_key(expand(fj, k.value, skip=(d,)), "repository") in ("faithful",):
                ok = True
            if k.arg is None and isinstance(k.value, ast.Name):
                # name bound to d.pop('repository', None) etc.
                for v, _ in local_defs(fj, k.value.id):
                    if v is not None and "'repository'" in unparse(v):
                        ok = True
    passed = any(attr_chain(c.func) == "Report" and len(c.args) >= 2 for c in fj.calls())
    if ok and passed:
        ctx.ok("R3", fj.site(gh[0]), "from_json rebuilds GithubRepository(**d['repository']) and passes it to Report")
    else:
        ctx.viol("R3", "from_json/repository", fj.site(), "the repository block is not restored from the document")


def _norm_layout(tree):
    """drop whitespace-only string material so that two branches can be compared for content"""
    WS = set(" \n\t\r")

    class N(ast.NodeTransformer):
        def visit_Constant(self, n):
            if isinstance(n.value, str):
                return ast.Constant(value="".join(c for c in n.value if c not in WS))
            return n

        def visit_JoinedStr(self, n):
            self.generic_visit(n)
            vals = [v for v in n.values if not (isinstance(v, ast.Constant) and v.value == "")]
            if len(vals) == 1 and isinstance(vals[0], ast.FormattedValue) and vals[0].format_spec is None and vals[0].conversion == -1:
                return vals[0].value
            n.values = vals
            return n

        def visit_BinOp(self, n):
            self.generic_visit(n)
            def empty(x):
                return (isinstance(x, ast.Constant) and x.value == "") or \
                    (isinstance(x, ast.BinOp) and isinstance(x.op, ast.Mult) and (empty(x.left) or empty(x.right)))
            if isinstance(n.op, ast.Add):
                if empty(n.left):
                    return n.right
                if empty(n.right):
                    return n.left
            return n
    return N().visit(copy.deepcopy(tree))


def rule_R4(ctx, prj, w: Writer):
    ctx.rule("R4", "pretty_print is read only by the layout helpers, and in each of them the pretty and the compact "
                   "branch differ only in whitespace (and the separator's whitespace): both forms parse to the same value",
             floor=2)
    readers = [m for m in w.ci.methods.values() if m.name != "__init__" and any(
        isinstance(n, ast.Attribute) and n.attr == "pretty_print" for n in m.walk())]
    for m in readers:
        if m.name not in LAYOUT_HELPERS:
            ctx.viol("R4", f"{m.name}/reads-pretty_print", m.site(),
                     f"ReportWriter.{m.name} decides on pretty_print: content, not only layout, can differ between the two forms")
            continue
        res = {}
        for val in (True, False):
            sp = Specializer(None, valuation=lambda n, val=val: val if isinstance(n, ast.Attribute) and n.attr == "pretty_print" else None)
            tree = sp.visit(copy.deepcopy(m.node))
            res[val] = _norm_layout(tree)
        a, b = ast.dump(res[True]), ast.dump(res[False])
        if a == b:
            ctx.ok("R4", m.site(), f"{m.name}: pretty and compact branches are equal up to whitespace")
        else:
            # tolerate the trailing-newline conditional on len(items) in _collection: compare after also
            # folding `X if <cond> else X`
            class Same(ast.NodeTransformer):
                def visit_IfExp(self, n):
                    self.generic_visit(n)
                    if ast.dump(n.body) == ast.dump(n.orelse):
                        return n.body
                    return n
            a2, b2 = ast.dump(Same().visit(res[True])), ast.dump(Same().visit(res[False]))
            if a2 == b2:
                ctx.ok("R4", m.site(), f"{m.name}: pretty and compact branches are equal up to whitespace")
            else:
                ctx.viol("R4", f"{m.name}/layout-only", m.site(),
                         f"the pretty and the compact branch of {m.name} differ in more than whitespace: "
                         f"{unparse(res[True])[:160]!r} vs {unparse(res[False])[:160]!r}")
    if len(readers) < 2:
        raise AnalysisError("pretty_print is read by fewer than the two layout helpers confirmed by reading")
    # the document skeleton folded for pretty_print = True and = False parses to the same key tree
    trees = {}
    for val in (True, False):
        w.pretty = val
        try:
            doc, _ = w.key_tree()
            trees[val] = tree_paths(doc)
        finally:
            w.pretty = True
    if trees[True] == trees[False]:
        ctx.ok("R4", w.ci.methods["to_json"].site(), f"document skeleton: {len(trees[True])} key paths, identical for pretty and compact")
    else:
        diff = sorted("/".join(p) for p in trees[True] ^ trees[False])[:5]
        ctx.viol("R4", "to_json/forms-differ", w.ci.methods["to_json"].site(), f"the pretty and the compact document contain different keys: {diff}")


def rule_R5(ctx, prj, r: Reader):
    ctx.rule("R5", "the reader neither shares nor mutates the parsed document: the value returned by json.loads is not "
                   "cached across calls (functools cache decorators, module-level stores) while being modified "
                   "(pop/del/item assignment/update/clear), and from_json itself is not memoised", floor=2)
    MUT = ("pop", "popitem", "clear", "update", "setdefault")
    fns = r.functions() + [prj.func("codelimit.common.report.ReportReader:ReportReader.get_report_version")]
    cached_parsers = []
    for f in r.ci.module.functions.values():
        decos = [attr_chain(d.func) if isinstance(d, ast.Call) else attr_chain(d) for d in f.node.decorator_list]
        if any(x and x.split(".")[-1] in ("lru_cache", "cache", "cached") for x in decos):
            cached_parsers.append(f)
    for f in list(r.ci.methods.values()):
        decos = [attr_chain(d.func) if isinstance(d, ast.Call) else attr_chain(d) for d in f.node.decorator_list]
        if any(x and x.split(".")[-1] in ("lru_cache", "cache", "cached") for x in decos):
            ctx.viol("R5", f"{f.name}/memoised", f.site(), f"ReportReader.{f.name} is memoised: two reads of the same text return one shared, mutable Report")
    for f in fns:
        dv = r.doc_var(f)
        if dv is None:
            continue
        d, call = dv
        shared = any(t in cached_parsers for t in prj.resolve_call(f, call)[0])
        muts = []
        r.key_paths(f)
        names = set(getattr(r, "env", {d: ()}))
        for n in f.walk():
            if isinstance(n, ast.Call) and isinstance(n.func, ast.Attribute) and n.func.attr in MUT and isinstance(n.func.value, ast.Name) and n.func.value.id in names:
                muts.append(n)
            if isinstance(n, ast.Delete):
                for t in n.targets:
                    if isinstance(t, ast.Subscript) and isinstance(t.value, ast.Name) and t.value.id in names:
                        muts.append(n)
            if isinstance(n, ast.Assign):
                for t in n.targets:
                    if isinstance(t, ast.Subscript) and isinstance(t.value, ast.Name) and t.value.id in names:
                        muts.append(n)
        if shared and muts:
            ctx.viol("R5", f"{f.name}/mutates-cached-document", f.site(muts[0]),
                     f"{f.name} modifies the parsed document ({unparse(muts[0])[:60]}) although the parse result is cached and "
                     f"shared between calls: a second read of the same text sees the modified document")
        elif shared:
            ctx.ok("R5", f.site(), f"{f.name}: parse result is cached but only read")
        else:
            ctx.ok("R5", f.site(), f"{f.name}: parses its own private document ({len(muts)} local modification(s))")


def run(ctx, prj: Project):
    ctx.explanation = (
        "Structure of the hand-written serializer and of the reader, decided statically: (R1) classification of every "
        "f-string placeholder of ReportWriter by quote parity of the surrounding literal text, escaping wrapper "
        "recognition and declared field types; (R2) the writer's key tree is reconstructed by splicing the methods' "
        "literal skeletons and parsed, the reader's subscript paths are extracted by def-use, and compared; (R3) "
        "unmodified restoration of version/uuid/root/repository; (R4) pretty/compact branches equal up to whitespace "
        "after folding pretty_print; (R5) no sharing+mutation of the parsed document. Values of run-time types other "
        "than declared (e.g. a float loc) are not covered.")
    ctx.not_decided = ["round trip of values whose run-time type differs from the declared one",
                       "equality of totals / folder profiles after re-aggregation (C07 covers the aggregation rules)"]
    ctx.trust("json.dumps produces a valid JSON string for every str / None", "json.loads / dict semantics", "CPython ast")
    evaluated = rule_R6_roundtrip(ctx, prj)
    structural = [("R1", lambda: rule_R1(ctx, prj, Writer(prj))), ("R2", lambda: rule_R2(ctx, prj, Writer(prj), Reader(prj))),
                  ("R3", lambda: rule_R3(ctx, prj, Writer(prj), Reader(prj))), ("R4", lambda: rule_R4(ctx, prj, Writer(prj))),
                  ("R5", lambda: rule_R5(ctx, prj, Reader(prj)))]
    for rid, fn in structural:
        if not evaluated:
            fn()
            continue
        # the round trip was decided by evaluation: a structural rule that cannot read this form of the writer/reader
        # is not applicable rather than an error
        before = len(ctx.violations)
        try:
            fn()
        except AnalysisError as e:
            ctx.info(f"{rid}: schema extraction not applicable to this form of the writer/reader ({e}); R6 (evaluated round trip) decides")
            ctx.floors.pop(rid, None)
        new = ctx.violations[before:]
        if new and not any(v.rule == "R6" for v in ctx.violations):
            # the textual reading of the writer/reader disagrees with the evaluated round trip, which passed on a report
            # whose every string needs escaping and whose every key is read back: the reading is at fault, not the code
            del ctx.violations[before:]
            ctx.instances[rid] = [i for i in ctx.instances.get(rid, []) if i.get("verdict") != "violation"]
            ctx.floors.pop(rid, None)
            ctx.info(f"{rid}: {len(new)} finding(s) of the textual schema reading contradicted by the evaluated round trip (R6), not reported: "
                     + "; ".join(f"{v.key}" for v in new[:3]))
    if evaluated:
        for rid in ("R1", "R2", "R3", "R4", "R5"):
            if rid in ctx.floors and len([i for i in ctx.instances.get(rid, []) if i.get("verdict") == "ok"]) < ctx.floors[rid] \
                    and not any(v.rule == rid for v in ctx.violations):
                ctx.info(f"{rid}: only {len(ctx.instances.get(rid, []))} instances recognised in this form of the code; R6 (evaluated round trip) decides")
                ctx.floors.pop(rid, None)


def rule_R6_roundtrip(ctx, prj) -> bool:
    """-> True when the round trip could be evaluated (verdicts recorded), False when it left the interpreted fragment"""
    import json
    from ..absint import PyRaise, Unknown
    from ..report_eval import ReportLab, first_difference
    ctx.rule("R6", "round trip evaluated: a report built through the repo's own constructors, with every string field "
                   "carrying a distinct tag plus a quote, backslash, newline, tab, control, non-ASCII and U+2028 character and "
                   "every number distinct, is written (pretty and compact) by the interpreted ReportWriter - both texts are "
                   "valid JSON and parse to the same value - read back by the interpreted ReportReader - same version, "
                   "identifier, root, repository, files in order with checksum, language, line total and measurements, same "
                   "totals and folder profiles - and written again - same document up to the timestamp; with and without "
                   "repository, with a version and with version null", floor=4)
    wfi = prj.func("codelimit.common.report.ReportWriter:ReportWriter.to_json")
    rfi = prj.func("codelimit.common.report.ReportReader:ReportReader.from_json")
    try:
        for with_repo in (True, False, "empty"):
            for version in ("9.9.9-tag", None):
                if with_repo == "empty" and version is None:
                    continue
                case = f"repository={'present with empty owner, name and branch' if with_repo == 'empty' else 'present' if with_repo else 'absent'}, version={version!r}"
                lab = ReportLab(prj)
                rep = lab.sample(with_repo, version)
                texts = {}
                docs = {}
                bad = False
                for pretty in (True, False):
                    form = "pretty" if pretty else "compact"
                    try:
                        t = lab.write(rep, pretty)
                    except PyRaise as e:
                        ctx.viol("R6", f"to_json/{form}/raises", wfi.site(e.node) if e.node is not None else wfi.site(), f"{case}: writing the {form} form raises {e.name}")
                        bad = True
                        continue
                    texts[form] = t
                    try:
                        docs[form] = json.loads(t)
                    except ValueError as e:
                        frag = t[max(0, getattr(e, "pos", 0) - 40): getattr(e, "pos", 0) + 20]
                        ctx.viol("R6", f"to_json/{form}/invalid-json", wfi.site(), f"{case}: the {form} document is not valid JSON ({e}); near {frag!r}: "
                                 f"a string is pasted into the document without JSON escaping")
                        bad = True
                if bad:
                    continue
                if docs["pretty"] != docs["compact"]:
                    from ..report_eval import first_difference as fd
                    ctx.viol("R6", "to_json/pretty-vs-compact", wfi.site(), f"{case}: the pretty and the compact document parse to different values: {fd(docs['pretty'], docs['compact'])}")
                    continue
                try:
                    back = lab.read(texts["pretty"])
                except PyRaise as e:
                    ctx.viol("R6", "from_json/raises", rfi.site(e.node) if e.node is not None else rfi.site(), f"{case}: reading the written document raises {e.name} (a key the writer does not emit, or a value of another shape)")
                    continue
                d = first_difference(lab.snapshot(rep), lab.snapshot(back))
                if d:
                    what = d.split(":")[0].strip("/").split("/")[0].split("[")[0]
                    ctx.viol("R6", f"roundtrip/{what}", rfi.site(), f"{case}: the re-read report differs from the written one at {d[:300]}")
                    continue
                t2 = lab.write(back, True)
                d1, d2 = json.loads(texts["pretty"]), json.loads(t2)
                d1.pop("timestamp", None)
                d2.pop("timestamp", None)
                if d1 != d2:
                    ctx.viol("R6", "roundtrip/rewrite", wfi.site(), f"{case}: writing the re-read report gives another document: {first_difference(d1, d2)}")
                    continue
                # the same text read again (and after get_report_version) gives the same report: nothing of a previous parse is reused
                try:
                    grv = prj.maybe_func("codelimit.common.report.ReportReader:ReportReader.get_report_version")
                    if grv is not None:
                        v0 = lab.it.call(grv, [texts["pretty"]], {})
                        if v0 != version:
                            ctx.viol("R6", "get_report_version", grv.site(), f"{case}: get_report_version gives {v0!r} for a document written with version {version!r}")
                            continue
                    again = lab.read(texts["pretty"])
                    third = lab.read(texts["pretty"])
                except PyRaise as e:
                    ctx.viol("R6", "from_json/second-read-raises", rfi.site(e.node) if e.node is not None else rfi.site(),
                             f"{case}: reading the same document text a second time in one process raises {e.name}: the parsed document is cached and was modified by the first read")
                    continue
                d = first_difference(lab.snapshot(back), lab.snapshot(third))
                if d:
                    ctx.viol("R6", "from_json/reads-differ", rfi.site(), f"{case}: reading the same text again gives another report: {d[:200]}")
                    continue
                # ambient configuration must not leak into a report that is read: with Configuration.repository set (as a scan inside
                # a GitHub checkout does), the document read back still says what was written
                try:
                    cfg = prj.classes.get("codelimit.common.Configuration:Configuration")
                    if cfg is not None and any("repository" in c.class_attrs for c in cfg.mro()):
                        owner = next(c for c in cfg.mro() if "repository" in c.class_attrs)
                        ambient = lab.new(lab.Repo, "cfg-owner", "cfg-name", "cfg-branch")
                        lab.it.class_state[(owner.qual, "repository")] = ambient
                        try:
                            amb = lab.read(texts["pretty"])
                            d = first_difference(lab.snapshot(back), lab.snapshot(amb))
                        finally:
                            lab.it.class_state[(owner.qual, "repository")] = None
                        if d:
                            ctx.viol("R6", "from_json/ambient-configuration", rfi.site(), f"{case}: with Configuration.repository set in the reading process the re-read report differs from "
                                                                                        f"the written one at {d[:200]}: the process' configuration leaks into the report")
                            continue
                except PyRaise as e:
                    ctx.viol("R6", "from_json/ambient-configuration", rfi.site(), f"{case}: with Configuration.repository set, reading the document raises {e.name}")
                    continue
                ctx.ok("R6", wfi.site(), f"{case}: pretty/compact valid and equal, re-read report equal (also when read repeatedly), re-written document equal up to timestamp "
                                         f"({len(texts['pretty'])} characters, {lab.it.steps} interpreter steps)")
        # restoration without fallback to the running tool's values (only when the round trip itself is in order)
        lab = ReportLab(prj)
        rep = lab.sample(True, "0.0.1-other")
        cases = () if any(v.rule == "R6" for v in ctx.violations) else (("a document of another version", lambda d: d, "0.0.1-other"), ("a document without a version key", lambda d: {k: v for k, v in d.items() if k != "version"}, None))
        doc = json.loads(lab.write(rep, True)) if cases else {}
        for case, mut, want in cases + ():
            try:
                back = lab.read(json.dumps(mut(dict(doc))))
            except PyRaise as e:
                ctx.viol("R6", "from_json/raises", rfi.site(e.node) if e.node is not None else rfi.site(), f"reading {case} raises {e.name}")
                continue
            got = back.fields.get("version")
            if got != want:
                ctx.viol("R6", "from_json/version", rfi.site(), f"reading {case} gives a report with version {got!r}; required {want!r}: the re-read report carries the running tool's value "
                         f"(this also disables the version guard of the scan cache)")
            elif back.fields.get("uuid") != rep.fields.get("uuid"):
                ctx.viol("R6", "from_json/uuid", rfi.site(), f"reading {case} gives the identifier {back.fields.get('uuid')!r}; the document says {rep.fields.get('uuid')!r}")
            else:
                ctx.ok("R6", rfi.site(), f"{case}: version {want!r} and the identifier restored as written")
    except Unknown as e:
        ctx.info(f"round trip not evaluable ({e}); structural rules decide")
        ctx.rule("R6", "round trip not evaluable by the interpreter: structural rules R1-R5 decide", floor=0)
        return False
    return True
