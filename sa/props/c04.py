"""C04 - Comments, blank lines and whitespace never change what is measured (codelimit's own three places)."""
from __future__ import annotations

import ast

from ..core import (AnalysisError, FuncInfo, Project, attr_chain, const_str, expand, local_defs, term, unparse)
from ..absint import MiniInterp, PyRaise, Unknown
from ..patterns import AToken, Interp, Unsupported

SC = "codelimit.common.Scanner"
SCU = "codelimit.common.scope.scope_utils"
SRC = "codelimit.common.source_utils"


def _filter_call_defaults(prj, fi: FuncInfo, call: ast.Call) -> str | None:
    """None if `call` is filter_tokens(...) with keep_whitespace/keep_comments left false; else what is wrong."""
    if not prj.resolve_callee_name(fi, call).endswith(":filter_tokens"):
        return "not a filter_tokens call"
    ft = prj.func(f"{SRC}:filter_tokens")
    params = ft.params()
    bound = dict(zip(params, call.args))
    for k in call.keywords:
        if k.arg:
            bound[k.arg] = k.value
    for p in ("keep_whitespace", "keep_comments"):
        v = bound.get(p, ft.param_default(p))
        if not (isinstance(v, ast.Constant) and v.value is False):
            return f"{p}={unparse(v)}"
    v = bound.get("keep_others", ft.param_default("keep_others"))
    if not (isinstance(v, ast.Constant) and v.value is True):
        return f"keep_others={unparse(v)}"
    return None


def token_list_consumers(prj: Project):
    """(function, call/subscript node, argument expression, what) for every place that interprets scope
    indices or measures on a token list."""
    out = []
    bs = prj.func(f"{SCU}:build_scopes")
    sf = prj.func(f"{SC}:scan_file")
    for c in bs.calls():
        nm = prj.resolve_callee_name(bs, c)
        if isinstance(c.func, ast.Attribute) and c.func.attr in ("extract_headers", "extract_blocks") and c.args:
            out.append((bs, c, c.args[0], f"language.{c.func.attr}"))
        elif nm.endswith(":_build_scopes_from_headers_and_blocks") and len(c.args) >= 3:
            out.append((bs, c, c.args[2], "_build_scopes_from_headers_and_blocks"))
    for c in sf.calls():
        nm = prj.resolve_callee_name(sf, c)
        if nm.endswith(":count_lines") and len(c.args) >= 2:
            out.append((sf, c, c.args[1], "count_lines"))
    for n in sf.walk():
        if isinstance(n, ast.Subscript) and isinstance(n.ctx, ast.Load) and isinstance(n.value, ast.Name):
            idx = unparse(n.slice)
            if "token_range" in idx or "block" in idx:
                out.append((sf, n, n.value, f"{unparse(n)[:45]}"))
    return out


def rule_R1(ctx, prj, rid="R1"):
    ctx.rule(rid, "the raw token list (comments included) reaches header/block extraction, pairing, line counting and span "
                  "construction only through filter_tokens with keep_comments and keep_whitespace false; every place that "
                  "dereferences a scope index does so on that same filtered list", floor=5)
    cons = token_list_consumers(prj)
    if len(cons) < 5:
        raise AnalysisError(f"only {len(cons)} token-list consumers recognised in build_scopes / scan_file (7 confirmed by reading)")
    for fi, node, arg, what in cons:
        raw = fi.params()[0]
        e = expand(fi, arg)
        key = f"{fi.local}/{what}"
        if isinstance(e, ast.Call) and prj.resolve_callee_name(fi, e).endswith(":filter_tokens"):
            wrong = _filter_call_defaults(prj, fi, e)
            src = unparse(e.args[0]) if e.args else "?"
            if wrong:
                ctx.viol(rid, key, fi.site(node), f"{what} works on filter_tokens(..., {wrong}): comment or whitespace tokens take part in matching, "
                         f"pairing or counting, so adding a comment changes what is measured")
            elif src != raw:
                ctx.viol(rid, key, fi.site(node), f"{what} works on filter_tokens({src}), not on the filtered list of this function's tokens ({raw})")
            else:
                ctx.ok(rid, fi.site(node), f"{key}: on filter_tokens({raw}) (no comments, no whitespace)")
        elif unparse(e) == raw:
            ctx.viol(rid, key, fi.site(node), f"{what} works on the RAW token list {raw} (comments included): every comment shifts the indices that scopes "
                     f"refer to and counts as a line")
        else:
            ctx.viol(rid, key, fi.site(node), f"{what} works on {unparse(e)[:60]}, which is not the comment-free list filter_tokens({raw})")


def rule_R2(ctx, prj):
    ctx.rule("R2", "filter_tokens' predicate, Token.is_whitespace and Token.is_comment evaluated abstractly over token-kind "
                   "class x text class: every Comment.* token is dropped, Text/Whitespace tokens whose text is empty or only "
                   "whitespace (blanks, tabs, line feeds, carriage returns, form feeds, vertical tabs) are dropped, everything else is kept (defaults read from the signature)", floor=30)
    from ..absint import make_token
    ft = prj.func(f"{SRC}:filter_tokens")
    kinds = ["Text", "Whitespace", "Comment", "Comment.Single", "Comment.Multiline", "Comment.Preproc", "Comment.PreprocFile",
             "Comment.Hashbang", "Comment.Special", "Keyword", "Name", "Punctuation", "Operator", "Literal.String", "Other"]
    texts = {"empty": "", "whitespace-only": " \t", "newline": "\n", "carriage-return-newline": "\r\n", "form-feed-and-vertical-tab": "\f\x0b",
             "has-non-whitespace": "x"}
    bad = []
    for k in kinds:
        for tn, tv in texts.items():
            try:
                it = MiniInterp(prj)
                tok = make_token(it, prj, k, tv if not k.startswith("Comment") or tn != "has-non-whitespace" else "# c")
                res = it.call(ft, [[tok]], {})
                res = list(res.rest()) if hasattr(res, "rest") else res
                if not isinstance(res, (list, tuple)) or len(res) > 1 or (res and res[0] is not tok):
                    raise AnalysisError(f"filter_tokens([t]) evaluates to {res!r}: neither [] nor [t]")
                kept = len(res) == 1
            except (Unknown, PyRaise) as e:
                raise AnalysisError(f"filter_tokens left the interpreted fragment: {e}")
            is_comment_kind = k.startswith("Comment")
            ws = k in ("Text", "Whitespace") and tn != "has-non-whitespace"
            want = not is_comment_kind and not ws
            cell = f"kind={k} text={tn}"
            if bool(kept) == want:
                ctx.ok("R2", ft.site(), f"{cell}: {'kept' if kept else 'dropped'}")
            else:
                ctx.bad_instance("R2", ft.site(), cell)
                bad.append((cell, bool(kept)))
    if bad:
        cell, kept = bad[0]
        what = ("a zero-length/blank Text token counts as code: the JavaScript/TypeScript lexers emit one in front of a column-1 comment, so that "
                "comment-only line is counted" if "Text" in cell or "Whitespace" in cell else
                "a comment token survives the filter and is counted as code / takes part in matching" if "Comment" in cell else
                "a code token is dropped")
        ctx.viol("R2", "filter_tokens/" + ("blank-text-kept" if ("Text" in cell or "Whitespace" in cell) and kept else
                                           "comment-kept" if "Comment" in cell and kept else "code-dropped"),
                 ft.site(), f"with the default arguments the cell ({cell}) is {'kept' if kept else 'dropped'} ({len(bad)} cell(s) differ): {what}")


def rule_R3(ctx, prj):
    ctx.rule("R3", "count_lines returns the number of DISTINCT start lines of the tokens selected by _scope_tokens (a "
                   "de-duplicated collection of .location.line), not an expression over the span", floor=1)
    cl = prj.func(f"{SCU}:count_lines")
    rets = [r for r in cl.walk() if isinstance(r, ast.Return) and r.value is not None]
    e = expand(cl, rets[0].value) if rets else None
    ok = False
    why = ""
    if isinstance(e, ast.Call) and attr_chain(e.func) == "len" and e.args:
        inner = e.args[0]
        if isinstance(inner, ast.Call) and attr_chain(inner.func) in ("set", "frozenset") and inner.args:
            inner2 = inner.args[0]
        elif isinstance(inner, ast.SetComp):
            inner2 = inner
        elif isinstance(inner, ast.Call) and unparse(inner.func) == "dict.fromkeys" and inner.args:
            inner2 = inner.args[0]
        else:
            inner2 = None
            why = "the collection is not de-duplicated (several tokens on one line count several times)"
        if inner2 is not None and isinstance(inner2, (ast.ListComp, ast.SetComp, ast.GeneratorExp)):
            elt = unparse(inner2.elt)
            it = inner2.generators[0].iter
            if elt.endswith(".location.line") and isinstance(it, ast.Call) and prj.resolve_callee_name(cl, it).endswith(":_scope_tokens") and not inner2.generators[0].ifs:
                ok = True
            else:
                why = f"counts {elt} over {unparse(it)[:40]}"
    else:
        why = "not the size of a collection of lines"
    if ok:
        ctx.ok("R3", cl.site(), "count_lines = len(set(t.location.line for t in _scope_tokens(scope, tokens)))")
    else:
        t = unparse(e) if e is not None else "?"
        spanish = ".end" in t and ".start" in t or "-" in t
        ctx.viol("R3", "count_lines/definition", cl.site(),
                 f"count_lines returns {t[:90]}: {why or 'unrecognised'}" + ("; a span-based count includes blank and comment-only lines" if spanish else ""))


def run(ctx, prj: Project):
    ctx.explanation = (
        "The three places where codelimit itself could let a comment or blank line count: (R1) def-use provenance of every "
        "token-list consumer back to filter_tokens(raw) with default flags; (R2) the filter's keep/drop table computed by "
        "abstract interpretation of filter_tokens.predicate, Token.is_whitespace and Token.is_comment over 15 kind classes "
        "x 4 text classes; (R3) the form of count_lines. What pygments emits for a text with a comment inserted at a given "
        "position (lexer state changes, token splits) is third-party run-time behaviour and is NOT decided.")
    ctx.not_decided = ["invariance of pygments' token stream under insertion of comments/blank lines at every position of every file"]
    ctx.trust("pygments: Whitespace = Token.Text.Whitespace, Comment.* are sub-types of Comment; Text/Whitespace tokens may have empty text",
              "str.isspace / str.strip semantics (\"\".isspace() is False)")
    from . import c01
    evaluated = c01.rule_R5_pipeline(ctx, prj, rid="R4", clauses={"length", "functions", "span-start", "span-end", "reported-twice"})
    if not evaluated:
        rule_R1(ctx, prj)
    rule_R2(ctx, prj)
    if not evaluated:
        rule_R3(ctx, prj)
